#!/usr/bin/env python3
"""Sensitivity audit: apply each mutant of mutants/list.json to a scratch copy of /repo, confirm the stock
suite still passes, run the named checks against the copy (VERIF_REPO) and compare with the expectation.

usage: tools/audit.py [-j N] [-t quick|thorough] [ids...]
"""
import json, os, shutil, subprocess, sys, tempfile, concurrent.futures as cf
HERE = os.path.dirname(os.path.dirname(os.path.abspath(__file__)))
ENV = dict(os.environ, GOFLAGS="-mod=mod", GOPROXY="off", GOSUMDB="off", GOTOOLCHAIN="local")

def run_one(m, tier):
    d = tempfile.mkdtemp(prefix="mut-" + m["id"] + "-")
    try:
        repo = os.path.join(d, "repo")
        shutil.copytree("/repo", repo, ignore=shutil.ignore_patterns(".git"))
        for e in m["edits"]:
            p = os.path.join(repo, e["file"])
            s = open(p).read()
            if s.count(e["old"]) < 1:
                return m["id"], "BROKEN-MUTANT", "pattern not found in " + e["file"]
            s = s.replace(e["old"], e["new"], e.get("count", 1))
            open(p, "w").write(s)
        b = subprocess.run("go build ./... && go test -vet=off -count=1 ./...", shell=True, cwd=repo, env=ENV, capture_output=True, text=True)
        if b.returncode != 0:
            tail = (b.stdout + b.stderr).strip().splitlines()[-3:]
            return m["id"], "STOCK-SUITE-CATCHES", " | ".join(tail)[:300]
        res = []
        for prop in m["props"]:
            env = dict(ENV, VERIF_REPO=repo, VERIF_SEED=os.environ.get("VERIF_SEED", "1"))
            r = subprocess.run(["sh", "run.sh", prop, tier], cwd=HERE, env=env, capture_output=True, text=True)
            res.append((prop, r.returncode))
        want = 1 if m.get("expect", "fail") == "fail" else 0
        ok = all(rc == want for _, rc in res) if want == 0 else any(rc == 1 for _, rc in res)
        bad = [f"{p}:exit{rc}" for p, rc in res]
        return m["id"], ("OK " if ok else "MISSED ") + ("caught" if want == 1 else "stays-green"), " ".join(bad)
    finally:
        shutil.rmtree(d, ignore_errors=True)

def main():
    args = sys.argv[1:]
    jobs, tier = 4, "quick"
    while args and args[0].startswith("-"):
        if args[0] == "-j": jobs = int(args[1]); args = args[2:]
        elif args[0] == "-t": tier = args[1]; args = args[2:]
        else: break
    ms = json.load(open(os.path.join(HERE, "mutants", "list.json")))
    if args:
        ms = [m for m in ms if m["id"] in args or any(p in args for p in m["props"])]
    with cf.ThreadPoolExecutor(jobs) as ex:
        for mid, status, detail in ex.map(lambda m: run_one(m, tier), ms):
            print(f"{mid:32s} {status:24s} {detail}", flush=True)
    # replay files written during audits are not findings on /repo
    subprocess.run("rm -f replay/*/auto-*.json", shell=True, cwd=HERE)

main()
