#!/usr/bin/env python3
"""Verify and evaluate seeded changes produced by independent sub-agents.

usage:
  tools/seeded.py import <ID> <N>        # verify /tmp/wt/<ID>/out/patchN.diff + demoN_test.go, keep under seeded/<ID>-<N>/
  tools/seeded.py run [-t quick|thorough] [-p PROP] [names...]   # run the property's check against every kept change

A change is kept only after confirming here: the patch applies to a clean copy of /repo, the library builds, the
stock suite passes unedited, and the demonstration fails with the change and passes without it.
"""
import json, os, shutil, subprocess, sys, tempfile, glob, concurrent.futures as cf
HERE = os.path.dirname(os.path.dirname(os.path.abspath(__file__)))
ENV = dict(os.environ, GOFLAGS="-mod=mod", GOPROXY="off", GOSUMDB="off", GOTOOLCHAIN="local")

def sh(cmd, cwd, env=ENV, timeout=1800):
    r = subprocess.run(cmd, shell=True, cwd=cwd, env=env, capture_output=True, text=True, timeout=timeout)
    return r.returncode, (r.stdout + r.stderr)

def scratch(patch=None):
    d = tempfile.mkdtemp(prefix="seed-")
    repo = os.path.join(d, "repo")
    shutil.copytree("/repo", repo, ignore=shutil.ignore_patterns(".git"))
    if patch:
        rc, out = sh(f"patch -p1 --no-backup-if-mismatch < {patch}", repo)
        if rc != 0:
            shutil.rmtree(d, ignore_errors=True)
            raise RuntimeError("patch does not apply: " + out[-400:])
    return d, repo

def demo_result(repo, demo, race=False):
    import re
    pkgdir = "gennames" if re.search(r"(?m)^package main\b", open(demo).read()) else "jen"
    dst = os.path.join(repo, pkgdir, "zz_seeded_demo_test.go")
    shutil.copy(demo, dst)
    rc, out = sh("go test -vet=off -count=1 %s ./%s/" % ("-race" if race else "", pkgdir), repo)
    os.remove(dst)
    return rc, out

def do_import(pid, n, sub="out", offset=0):
    src = f"/tmp/wt/{pid}/{sub}"
    patch, demo, notes = f"{src}/patch{n}.diff", f"{src}/demo{n}_test.go", f"{src}/notes{n}.md"
    if not os.path.exists(demo) and os.path.exists(demo + ".txt"):
        demo = demo + ".txt"
    name = f"{pid}-{n+offset}"
    ran = []
    d, repo = scratch(patch)
    try:
        rc, out = sh("go build ./... && go test -vet=off -count=1 ./...", repo)
        ran.append({"cmd": "go build ./... && go test -vet=off -count=1 ./... (with the change)", "exit": rc})
        if rc != 0:
            print(name, "REJECTED: stock suite fails with the change:", out[-300:]); return
        race = "race" in open(notes).read().lower() and pid == "C09"
        rc1, out1 = demo_result(repo, demo, race)
        ran.append({"cmd": "demo with the change" + (" (-race)" if race else ""), "exit": rc1})
    finally:
        shutil.rmtree(d, ignore_errors=True)
    d, repo = scratch(None)
    try:
        rc0, out0 = demo_result(repo, demo, race)
        ran.append({"cmd": "demo on the clean tree" + (" (-race)" if race else ""), "exit": rc0})
    finally:
        shutil.rmtree(d, ignore_errors=True)
    if rc1 == 0 or rc0 != 0:
        print(name, f"REJECTED: demo with change exit {rc1}, without {rc0}", (out0 if rc0 else out1)[-300:]); return
    dst = os.path.join(HERE, "seeded", name)
    os.makedirs(dst, exist_ok=True)
    shutil.copy(patch, os.path.join(dst, "patch.diff"))
    shutil.copy(demo, os.path.join(dst, "demo_test.go.txt"))
    shutil.copy(notes, os.path.join(dst, "notes.md"))
    meta = {"property": pid, "source": "independent sub-agent given only the property text and a scratch worktree" + (" (round %d: told which ideas earlier rounds had already used)" % (offset // 2 + 1) if offset else ""),
            "needs_to_manifest": first_lines(notes), "verified_here": ran, "race_demo": race, "checks": {}}
    json.dump(meta, open(os.path.join(dst, "meta.json"), "w"), indent=1)
    print(name, "kept")

def do_reverify(name):
    """Re-run the keep conditions for a change already under seeded/ (after a patch was rebased)."""
    dst = os.path.join(HERE, "seeded", name)
    patch, demo = os.path.join(dst, "patch.diff"), os.path.join(dst, "demo_test.go.txt")
    meta = json.load(open(os.path.join(dst, "meta.json")))
    rc, out = sh(f"git -C /repo apply --check {patch}", "/repo")
    if rc != 0:
        print(name, "patch does not apply to /repo HEAD with git apply:", out[-300:]); return
    tmpdemo = tempfile.mktemp(suffix="_test.go"); shutil.copy(demo, tmpdemo)
    d, repo = scratch(patch)
    try:
        rcs, out = sh("go build ./... && go test -vet=off -count=1 ./...", repo)
        rc1, _ = demo_result(repo, tmpdemo, meta.get("race_demo", False))
    finally:
        shutil.rmtree(d, ignore_errors=True)
    d, repo = scratch(None)
    try:
        rc0, _ = demo_result(repo, tmpdemo, meta.get("race_demo", False))
    finally:
        shutil.rmtree(d, ignore_errors=True)
    os.remove(tmpdemo)
    ok = rcs == 0 and rc1 != 0 and rc0 == 0
    meta["reverified"] = {"stock_suite_exit_with_change": rcs, "demo_exit_with_change": rc1, "demo_exit_clean": rc0}
    json.dump(meta, open(os.path.join(dst, "meta.json"), "w"), indent=1)
    print(name, "reverified OK" if ok else f"REVERIFY FAILED stock={rcs} demo_with={rc1} demo_clean={rc0}")

def first_lines(p):
    return " ".join(l.strip() for l in open(p).read().strip().splitlines()[:12])[:1200]

def run_one(name, tier, props):
    dst = os.path.join(HERE, "seeded", name)
    meta = json.load(open(os.path.join(dst, "meta.json")))
    d, repo = scratch(os.path.join(dst, "patch.diff"))
    try:
        res = {}
        for prop in props or [meta["property"]]:
            env = dict(ENV, VERIF_REPO=repo, VERIF_SEED=os.environ.get("VERIF_SEED", "1"))
            r = subprocess.run(["sh", "run.sh", prop, tier], cwd=HERE, env=env, capture_output=True, text=True)
            line = [l for l in r.stdout.splitlines() if l.startswith("violation in check")][:1]
            res[prop] = {"tier": tier, "exit": r.returncode, "first": (line[0][:300] if line else "")}
        return name, res
    finally:
        shutil.rmtree(d, ignore_errors=True)

def main():
    a = sys.argv[1:]
    if a[0] == "import":
        do_import(a[1], int(a[2])); return
    if a[0] == "import2":  # round 2: /tmp/wt/<ID>/out2/patchN -> seeded/<ID>-(N+2)
        do_import(a[1], int(a[2]), "out2", 2); return
    if a[0] == "import4":  # round 4: /tmp/wt/<ID>/out4/patchN -> seeded/<ID>-(N+6)
        do_import(a[1], int(a[2]), "out4", 6); return
    if a[0] == "import11":  # round 11: /tmp/wt/<ID>/out11/patchN -> seeded/<ID>-(N+20)
        do_import(a[1], int(a[2]), "out11", 20); return
    if a[0] == "import10":  # round 10: /tmp/wt/<ID>/out10/patchN -> seeded/<ID>-(N+18)
        do_import(a[1], int(a[2]), "out10", 18); return
    if a[0] == "import9":  # round 9: /tmp/wt/<ID>/out9/patchN -> seeded/<ID>-(N+16)
        do_import(a[1], int(a[2]), "out9", 16); return
    if a[0] == "import8":  # round 8: /tmp/wt/<ID>/out8/patchN -> seeded/<ID>-(N+14)
        do_import(a[1], int(a[2]), "out8", 14); return
    if a[0] == "import7":  # round 7: /tmp/wt/<ID>/out7/patchN -> seeded/<ID>-(N+12)
        do_import(a[1], int(a[2]), "out7", 12); return
    if a[0] == "import6":  # round 6: /tmp/wt/<ID>/out6/patchN -> seeded/<ID>-(N+10)
        do_import(a[1], int(a[2]), "out6", 10); return
    if a[0] == "import5":  # round 5: /tmp/wt/<ID>/out5/patchN -> seeded/<ID>-(N+8)
        do_import(a[1], int(a[2]), "out5", 8); return
    if a[0] == "import3":  # round 3: /tmp/wt/<ID>/out3/patchN -> seeded/<ID>-(N+4)
        do_import(a[1], int(a[2]), "out3", 4); return
    if a[0] == "reverify":
        names = a[1:] or sorted(os.path.basename(p) for p in glob.glob(os.path.join(HERE, "seeded", "C*-*")))
        with cf.ThreadPoolExecutor(6) as ex:
            list(ex.map(do_reverify, names))
        return
    tier, props, jobs = "quick", [], 4
    a = a[1:]
    while a and a[0].startswith("-"):
        if a[0] == "-t": tier = a[1]; a = a[2:]
        elif a[0] == "-p": props.append(a[1]); a = a[2:]
        elif a[0] == "-j": jobs = int(a[1]); a = a[2:]
    names = a or sorted(os.path.basename(p) for p in glob.glob(os.path.join(HERE, "seeded", "C*-*")))
    # changes that a later repair of the library made harmless are kept for the record only
    names = [n for n in names if "status" not in json.load(open(os.path.join(HERE, "seeded", n, "meta.json")))]
    with cf.ThreadPoolExecutor(jobs) as ex:
        for name, res in ex.map(lambda n: run_one(n, tier, props), names):
            mp = os.path.join(HERE, "seeded", name, "meta.json")
            meta = json.load(open(mp))
            for prop, r in res.items():
                key = f"{prop}/{r['tier']}"
                if os.environ.get("VERIF_SEED", "1") != "1":
                    key += "/seed" + os.environ["VERIF_SEED"]
                meta["checks"][key] = r
                print(f"{name:10s} {prop} {r['tier']:8s} exit={r['exit']} {r['first'][:160]}", flush=True)
            json.dump(meta, open(mp, "w"), indent=1)
    subprocess.run("rm -f replay/*/auto-*.json", shell=True, cwd=HERE)

main()
