#!/bin/sh
# thorough tier of every property at the given seeds (false-alarm sweep of the thorough tier)
cd "$(dirname "$0")/.." || exit 2
for seed in "$@"; do
  for id in C01 C02 C03 C04 C05 C06 C07 C08 C09 C10 C11 C12 C13 C14 C15 C16 C17 C18 C19 C20; do
    s=$(date +%s)
    out=$(VERIF_SEED=$seed sh run.sh $id thorough 2>&1); rc=$?
    e=$(date +%s)
    echo "exit=$rc wall=$((e-s))s $(echo "$out" | grep -E "^C[0-9]+ thorough" | tail -1)"
    if [ $rc -ne 0 ]; then echo "$out" | grep -E "^violation|VIOLATION|INCONCLUSIVE" | head -8 | cut -c1-400; fi
  done
done
