#!/usr/bin/env python3
"""Regenerates MANIFEST.json from the table below (single source of truth for the per-property texts)."""
import json, os, sys
HERE = os.path.dirname(os.path.dirname(os.path.abspath(__file__)))
sys.path.insert(0, os.path.join(HERE, "tools"))
from manifest_data import CHECKS, NOT_APPLICABLE, NOTES
props = [json.loads(l) for l in open(os.path.join(HERE, "properties.jsonl"))]
ids = [p["id"] for p in props]
checks = []
for pid in ids:
    if pid not in CHECKS:
        continue
    c = CHECKS[pid]
    checks.append({
        "property_id": pid,
        "quick_cmd": f"sh run.sh {pid} quick",
        "thorough_cmd": f"sh run.sh {pid} thorough",
        "evidence_file": f"/verif/evidence/{pid}.json",
        "replay_cmd_template": f"sh run.sh replay {pid} {{path}}",
        "engine": "vcheck",
        "level_claimed": {"category": c.get("level", "exploration"), "text": c["text"], "design_ref": c.get("ref", f"DESIGN.md §5 {pid}")},
        "level_note": c["note"],
        "technique": c["technique"],
    })
na = [{"property_id": pid, "reason": NOT_APPLICABLE.get(pid, "check not built yet (under construction in this session)")} for pid in ids if pid not in CHECKS]
m = {
    "version": 1,
    "setup_cmd": "sh setup.sh",
    "hooks": {
        "guard": "verif",
        "enable": "no hooks: every observation is made through jennifer's public API (Render, Save, GoString) or the caller's own io.Writer / filesystem; checks build /repo's working tree as-is through a replace directive",
        "baseline_off_cmd": "cd /repo && go test -vet=off -count=1 ./...",
        "source_commits": [],
        "add_only": True,
    },
    "engines": [{"name": "vcheck", "path": "cmd/vcheck", "serves_properties": [c["property_id"] for c in checks],
                 "kind_free_text": "Go driver: compiles props/<id> as a test binary against /repo's working tree, replays saved cases, runs rapid-driven generated checks in 1 (quick) or 16 (thorough) seeded shards plus time-boxed native fuzzing, merges counters into evidence/<id>.json"}],
    "checks": checks,
    "notes": NOTES,
    "not_applicable": na,
}
json.dump(m, open(os.path.join(HERE, "MANIFEST.json"), "w"), indent=1)
print("checks:", len(checks), "not_applicable:", len(na))
