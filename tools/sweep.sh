#!/bin/sh
# False-alarm sweep: every check at several VERIF_SEED values, several at a time (machine busy).
# usage: tools/sweep.sh <tier> <seeds...>      prints one line per (check, seed): exit code and summary
cd "$(dirname "$0")/.." || exit 2
tier="$1"; shift
par="${SWEEP_PAR:-4}"
for seed in "$@"; do
  for id in C01 C02 C03 C04 C05 C06 C07 C08 C09 C10 C11 C12 C13 C14 C15 C16 C17 C18 C19 C20; do
    echo "$id $seed"
  done
done | xargs -P "$par" -L 1 sh -c 'out=$(VERIF_SEED=$1 sh run.sh $0 '"$tier"' 2>&1); rc=$?; echo "exit=$rc $(echo "$out" | grep -E "^C[0-9]+ (quick|thorough)" | tail -1)"; if [ $rc -ne 0 ]; then echo "$out" | grep -E "^violation|VIOLATION|INCONCLUSIVE" | head -5; fi'
