NOTES = "Property-based testing and fuzzing only. VERIF_SEED selects the PRNG value of every rapid run (derived per check and shard); exit 0 held, 1 VIOLATION, 2 inconclusive. See DESIGN.md."
NOT_APPLICABLE = {}
TB = "Trusted: Go toolchain packages go/parser, go/scanner, go/format, go/types, go/constant, strconv, reflect; pgregory.net/rapid v1.3.0."
CHECKS = {
 "C20": {
  "text": "Generated-history search: rapid draws append/clone histories (<=60 steps quick, <=200 thorough, appends of 0-9 items through eight builder methods so capacity is and is not exhausted); after every step every live statement is rendered and compared with a list model. No counter-example among the generated histories; absence is not established.",
  "note": TB + " The model accepts both a live-view and a snapshot semantics of Clone, since the property allows either.",
  "technique": "stateful property-based testing (rapid) against a list model",
 },
 "C03": {
  "text": "Generated search over import scenarios (constructor x hint history x prefix x body) with go/types as oracle: the rendered file is type-checked against fabricated packages whose declared names only match when jennifer's alias/no-alias decision is right; every marker symbol must resolve to the package it was built with, through one qualifier per path, with zero type errors. No counter-example among the generated scenarios; absence is not established.",
  "note": TB + " Fabricated importer: one synthetic package per path; std names read from GOROOT/src package clauses.",
  "technique": "property-based testing (rapid) with a go/types resolution oracle over fabricated packages",
 },
 "C04": {
  "text": "Generated search over freshly built Files with large unused hint tables, Anon sets and references inside Dict pairs that render nothing; the import specs of the output are compared with the set of marker symbols that occur in the output plus the Anon set (exactly once each, '_' only for anon-only paths, none unused per go/types).",
  "note": TB + " 'Rendered or not' is read off the output, not modelled.",
  "technique": "property-based testing (rapid): set equality between import specs and markers found in the output, plus go/types unused-import detection",
 },
 "C05": {
  "text": "Exhaustive enumeration of every Go keyword and universe identifier as last path element and as ImportName/ImportNames/ImportAlias hint under four prefixes, plus generated multisets of competing paths and arbitrary parser-valid path strings; oracle = go/token.IsIdentifier/IsKeyword, types.Universe, pairwise distinctness, go/types resolution.",
  "note": TB + " Paths that go/parser rejects cannot occur in Go source and are outside the domain.",
  "technique": "exhaustive enumeration of reserved words + property-based testing (rapid) with independent reserved-word and uniqueness predicates",
 },
 "C06": {
  "text": "Generated search over local paths, near-miss paths and sets of dot-imported paths, with and without PackagePrefix: markers of local and dot paths must appear bare (and resolve through go/types via the dot import / the companion file), near misses must be qualified and imported normally, each dot path has exactly one `. \"path\"` spec.",
  "note": TB,
  "technique": "property-based testing (rapid) with bare-vs-qualified predicates and go/types resolution",
 },
 "C01": {
  "text": "Round-trip search: every .go file of the installed toolchain's src tree (thorough: both installed toolchains, ~14.5k files / ~220k declarations) plus grammar-generated programs is translated construct by construct into the documented DSL element, rendered, re-parsed and compared node-by-node with the source tree. No counter-example among them; absence for all Go programs is not established (bounded depth/arity, files needing type information are skipped and counted).",
  "note": TB + " The translator is part of the check: a mismatch is only reported when the independent reference renderer reproduces the source from the same recipe.",
  "technique": "round-trip property over a real-program corpus and generated programs (go/ast -> DSL -> bytes -> go/ast equality)",
 },
 "C13": {
  "text": "Exhaustive enumeration of every list construct x arity 0..8 (thorough 0..12) x every subset of null positions x Empty() position, rapid-generated larger lists, and the null policy applied to all list constructs of real programs (metamorphic: output with injected null-like items must equal output without, byte for byte; remaining items exactly, in order).",
  "note": TB + " Null-like items are inserted only as list items, never into call chains, never beside a Dict.",
  "technique": "metamorphic property (null injection) by exhaustive enumeration, rapid generation and corpus programs",
 },
 "C18": {
  "text": "Exhaustive: every package directory of GOROOT/src rendered alone (with and without prefix) and checked with the go/types resolution oracle against the package clause on disk; generated colliding sets; one gennames run compared row by row with the package clauses.",
  "note": TB + " Real names come from go/parser over GOROOT/src, independent of `go list`.",
  "technique": "exhaustive enumeration of std packages + property-based testing (rapid) with a go/types oracle; differential check of gennames output against package clauses",
 },
 "C19": {
  "text": "Enumerated cross product (5.4k cases) of C introductions x preamble lists x other imports x prefix x hints x reference order, plus generated preamble texts: parsed output must have exactly one unnamed import of \"C\", all C references qualified by C, and with a preamble an import declaration of its own whose doc comment is the preamble (text compared on the NoFormat twin) ending on the line directly above.",
  "note": TB + " Raw-form preamble texts are well-formed comments.",
  "technique": "exhaustive cross-product enumeration + property-based testing (rapid) over preamble texts with go/parser / go/types structure oracles",
 },
}
