NOTES = "Property-based testing and fuzzing only. VERIF_SEED selects the PRNG value of every rapid run (derived per check and shard); exit 0 held, 1 VIOLATION, 2 inconclusive. See DESIGN.md."
NOT_APPLICABLE = {}
TB = "Trusted: Go toolchain packages go/parser, go/scanner, go/format, go/types, go/constant, strconv, reflect; pgregory.net/rapid v1.3.0."
CHECKS = {
 "C20": {
  "text": "Generated-history search: rapid draws append/clone histories (<=60 steps quick, <=200 thorough, appends of 0-9 items through eight builder methods so capacity is and is not exhausted); after every step every live statement is rendered and compared with a list model. No counter-example among the generated histories; absence is not established.",
  "note": TB + " The model accepts both a live-view and a snapshot semantics of Clone, since the property allows either.",
  "technique": "stateful property-based testing (rapid) against a list model",
 },
}
