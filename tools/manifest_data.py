NOTES = "Property-based testing and fuzzing only. VERIF_SEED selects the PRNG value of every rapid run (derived per check and shard); exit 0 held, 1 VIOLATION, 2 inconclusive. See DESIGN.md."
NOT_APPLICABLE = {}
TB = "Trusted: Go toolchain packages go/parser, go/scanner, go/format, go/types, go/constant, strconv, reflect; pgregory.net/rapid v1.3.0."
CHECKS = {
 "C20": {
  "text": "Generated-history search: rapid draws append/clone histories (<=60 steps quick, <=120 thorough, appends of 0-9 items through fifteen builder methods incl. Case / Default alone with a Block appended later, chains of up to 130 clones of clones so capacity is and is not exhausted, clones also taken inside Do callbacks, statements added to statements, statements handed to a group with tokens chained onto what Group.Add returns, one caller slice holding a nil handed to a variadic construct on two statements, names of 53 bytes that differ only near their end, two packages of one name, values from counting callbacks, identifier tokens holding expressions; Statement.Render of an original and of its fresh clone agree); after every step every live statement is rendered and compared with a list model. No counter-example among the generated histories; absence is not established.",
  "note": TB + " The model accepts a live-view or a snapshot semantics of Clone, since the property allows either, but one and the same for every clone of a history.",
  "technique": "stateful property-based testing (rapid) against a list model",
 },
 "C03": {
  "text": "Generated search over import scenarios (constructor x hint history x prefix x canonical path x body; one in four staged: settings or part of the body arrive after a first render, fragments are rendered against the File first), plus Qual names that are selector chains next to paths that end like them, crowds of 2..300 packages of one name, with go/types as oracle: the rendered file is type-checked against fabricated packages whose declared names only match when jennifer's alias/no-alias decision is right; every marker symbol must resolve to the package it was built with, through one qualifier per path, with zero type errors. No counter-example among the generated scenarios; absence is not established.",
  "note": TB + " Fabricated importer: one synthetic package per path; std names read from GOROOT/src package clauses.",
  "technique": "property-based testing (rapid) with a go/types resolution oracle over fabricated packages",
 },
 "C04": {
  "text": "Generated search over freshly built Files with large unused hint tables, Anon sets and references inside Dict pairs that render nothing; the import specs of the output are compared with the set of marker symbols that occur in the output plus the Anon set (exactly once each, '_' only for anon-only paths, none unused per go/types).",
  "note": TB + " 'Rendered or not' is read off the output, not modelled.",
  "technique": "property-based testing (rapid): set equality between import specs and markers found in the output, plus go/types unused-import detection",
 },
 "C05": {
  "text": "Exhaustive enumeration of every Go keyword and universe identifier as last path element and as ImportName/ImportNames/ImportAlias hint under four prefixes, reserved words as the first import of a re-executed fresh process, plus generated multisets of competing paths and arbitrary parser-valid path strings; oracle = go/token.IsIdentifier/IsKeyword, types.Universe, pairwise distinctness, go/types resolution.",
  "note": TB + " Paths that go/parser rejects cannot occur in Go source and are outside the domain.",
  "technique": "exhaustive enumeration of reserved words + property-based testing (rapid) with independent reserved-word and uniqueness predicates",
 },
 "C06": {
  "text": "Generated search over local paths, near-miss paths and sets of dot-imported paths, with and without PackagePrefix: markers of local and dot paths must appear bare (and resolve through go/types via the dot import / the companion file), near misses must be qualified and imported normally, each dot path has exactly one `. \"path\"` spec; every number of dot imports from 1 to 40 in four declaration orders.",
  "note": TB,
  "technique": "property-based testing (rapid) with bare-vs-qualified predicates and go/types resolution",
 },
 "C01": {
  "text": "Round-trip search: every .go file of the installed toolchain's src tree (thorough: both installed toolchains, ~14.5k files / ~220k declarations) plus grammar-generated programs is translated construct by construct into the documented DSL element, rendered, re-parsed and compared node-by-node with the source tree. No counter-example among them; absence for all Go programs is not established (bounded depth/arity, files needing type information are skipped and counted). Each translated file is also round-tripped with the alternative elements (Tag(map) for struct tags, Values(Dict) for keyed literals); 24 shapes of very deep / very wide programs (sizes to 2000); every third program also unformatted; predeclared names and built-in calls through their own constructs, complex constants through Lit(complex128), well-known std packages without a name hint; one File in three is first rendered into a refusing writer.",
  "note": TB + " The translator is part of the check: on the unchanged tree no file mismatches; a translator gap that only a new corpus would expose would be reported as a violation (DESIGN 13).",
  "technique": "round-trip property over a real-program corpus and generated programs (go/ast -> DSL -> bytes -> go/ast equality)",
 },
 "C13": {
  "text": "Exhaustive enumeration of every list construct x arity 0..8 (thorough 0..12) x every subset of null positions x Empty() position, rapid-generated larger lists (arities to 1000, real items padded with null tokens on either side, also built through the *Group methods, also after failed renders of the same objects), and the null policy applied to all list constructs of real programs (metamorphic: output with injected null-like items must equal output without, byte for byte; remaining items exactly, in order).",
  "note": TB + " Null-like items are inserted only as list items, never into call chains, never beside a Dict.",
  "technique": "metamorphic property (null injection) by exhaustive enumeration, rapid generation and corpus programs",
 },
 "C18": {
  "text": "Exhaustive: every package directory of GOROOT/src rendered alone (with and without prefix) and checked with the go/types resolution oracle against the package clause on disk, once more under an unrelated File setting (preamble, NoFormat, canonical path, Anon, comments, Anon of the package itself); generated colliding sets of up to 60 packages, with crowds of up to 40 third-party packages called like a std package; every std package of a set printed on its own after failed stand-alone renders; a package imported blank, rendered, then referenced; one gennames run compared row by row with the package clauses.",
  "note": TB + " Real names come from go/parser over GOROOT/src, independent of `go list`.",
  "technique": "exhaustive enumeration of std packages + property-based testing (rapid) with a go/types oracle; differential check of gennames output against package clauses",
 },
 "C19": {
  "text": "Enumerated cross product (about 6k cases) of C introductions x preamble lists x other imports x prefix x hints x reference order, 1..70 preamble blocks, the File as first File of a fresh process, plus generated preamble texts (texts that start with a line break included; one case in four with a detached C snippet rendered against the File first): parsed output must have exactly one unnamed import of \"C\", all C references qualified by C, and with a preamble an import declaration of its own whose doc comment is the preamble (text compared on the NoFormat twin) ending on the line directly above.",
  "note": TB + " Raw-form preamble texts are well-formed comments.",
  "technique": "exhaustive cross-product enumeration + property-based testing (rapid) over preamble texts with go/parser / go/types structure oracles",
 },
 "C02": {
  "text": "Generated search over arbitrary DSL trees (every exported construct, plausible and arbitrary arguments; ~98% invalid Go), plausible valid programs and real programs with one structured damage, under random File settings and form policies: each is built formatted and NoFormat; nil from Render implies the bytes parse and equal gofmt(raw twin); an error implies nothing was written; every body statement and ...Func group is also rendered as a fragment (nil implies the bytes parse as file, declarations or statements); no panic anywhere; programs holding an element jennifer is documented to reject by panicking must never be reported as a success with bytes that are not Go. Keyed literals nested 1..16 Dicts deep. Thorough adds coverage-guided fuzzing of the same property (rapid.MakeFuzz).",
  "note": TB + " Documented preconditions are respected by construction (supported Lit types, Dict alone in Values).",
  "technique": "differential property (formatted vs gofmt of NoFormat twin) over rapid-generated trees, damaged programs and native fuzzing",
 },
 "C07": {
  "text": "Generated search over map-rich recipes (nested Dicts with qualified keys competing for names, multi-key Tags, ImportNames tables of up to 200 entries, import sets) plus cgo Files with C next to 0..2 other imports, random trees and programs: each recipe is rebuilt and rendered 12 (thorough 40) times in-process and one in 20 also in 4 (16) separate processes; all results must be byte-identical; File.GoString and File.Save (over a target that already holds a near variant of the output) must give the bytes File.Render gives; batches of 3..8 recipes with literal tables are built and rendered at once on goroutines of their own and compared with the same construction done alone; every third rebuild hands one reused map object to all ImportNames calls and scribbles over it before rendering. Map orders are sampled, not enumerated.",
  "note": TB + " The Go runtime chooses map iteration order; an order leak over k entries survives R rebuilds with probability <= 2^-(R-1) per case.",
  "technique": "metamorphic property (rebuild-and-compare, in-process and cross-process) over rapid-generated recipes",
 },
 "C08": {
  "text": "Stateful generated search: histories of add / File.Render / Statement.RenderWithFile / Group.RenderWithFile / ImportName / ImportAlias / Anon / PackagePrefix / CanonicalPath over one File and a pool of statements (case blocks with nil, null, empty and captured bodies, Dicts with qualified keys); invariants after every step: back-to-back renders equal, unchanged objects render as before, qualifier per path fixed at first sighting, the File's import block declares every sighted path under the modelled name and resolves through go/types; fragments that cannot be formatted fail the same way every time and leave nothing behind; File renders go through Render, GoString or Save; a group kept from a ...Func callback and filled after early renders shows its items; Files with item-less group constructs rendered 1200..2600 times equal their first render.",
  "note": TB + " Anon on an already sighted path is excluded, as in the property.",
  "technique": "stateful property-based testing (rapid) with history invariants and a first-sighting name model",
 },
 "C09": {
  "text": "Generated job sets (4..16 File recipes with competing import names): concurrent build+render on one goroutine per job behind a barrier (20 / 200 rounds, cold start: paths unique to the case) under the race detector, then solo references and three sequential permutations in two interleavings, all compared byte-for-byte with the solo output; every other concurrent round goes through File.Save into one directory, over targets that hold near variants of the output; shared values are built under the form policy (LitFunc callbacks that run late answer differently); every other sequential permutation renders each File behind earlier output in one caller buffer; Files saved under one relative name from different working directories; names tables of 65..130 entries refilled per File; plus Files sharing the same Code values rendered one after another vs unshared twins; plus 8..14 Files of 2400..3600 nested groups rendered alone and all at once; plus a differential against a re-executed fresh process for Files of confusable literals (the in-process reference would share process-wide state with the render under test). Goroutine interleavings are sampled by the scheduler, not enumerated.",
  "note": TB + " Go race detector (-race build of /repo and the harness).",
  "technique": "differential property (solo vs sequential vs concurrent schedules vs fresh process) over rapid-generated job sets under the Go race detector",
 },
 "C10": {
  "level": "fault_enumeration",
  "text": "For every generated tree (valid programs and invalid random trees) the complete fault matrix is executed: 5 writer-based entry points x 16 writer behaviours (incl. EPIPE, io.ErrClosedPipe, wrapped and *os.PathError forms, io.EOF, context.Canceled, ENOSPC; real pipes whose reading end is closed), trees whose rendering panics after other items were rendered (the caller's *bytes.Buffer and an instrumented writer are as they were), outputs of 40..150 KiB, success implies gofmt accepts the raw rendering, File.Save under relative names across os.Chdir, and File.Save x 7 filesystem situations on a real filesystem; assertions: a failing render performs zero Write calls and leaves an existing target's bytes and mtime untouched, injected writer/FS errors come back non-nil, success delivers exactly the reference bytes (also into a writer that renders other code inside Write, also for NoFormat Files; fragment renders behave alike with a NoFormat context File and its formatted twin). Per-cell counts are in the evidence.",
  "note": TB + " Runs as root: permission faults are not used; short writes without error are not injected (they violate io.Writer).",
  "technique": "fault enumeration (writer and filesystem fault matrix) x rapid-generated trees",
 },
 "C11": {
  "text": "Exhaustive over bool, int8, uint8 (thorough: int16, uint16) and float64 decades 1e-330..1e310; rapid boundary/random values for all 16 supported numeric types; each rendered literal is evaluated with go/types.Eval and compared with the Go value and type (LitFunc: same bytes as Lit, callback ran once); the literal chained into 21 statement contexts (incl. declarations that name an interface type) must leave the statement as it is with an identifier in its place; every literal is also rendered as a fragment (GoString, Render, RenderWithFile), partly after fragment renders that failed; batches of 3..8 literal tables rendered at once on goroutines of their own, every element judged by value and type; keyed tables (Dict) of 1..1100 literals and plain lists to 8193 literals, every literal under its key / at its position.",
  "note": TB + " Finite values only.",
  "technique": "exhaustive small domains + property-based testing (rapid) with go/types.Eval / go/constant as value-and-type oracle",
 },
 "C12": {
  "text": "Strings: rapid byte strings biased to hostile characters (thorough 1.6M + native fuzzing); runes: all code points < 0x300 plus strided sample (thorough: all 1,112,064 valid code points); bytes: all 256. Oracle: go/scanner token shape of `a := <lit>; b`, strconv.Unquote / go/types.Eval value and type; exact string lengths 0..130 and 2^k±1; string, rune and byte literals of the same characters mixed in one File must each render as they do alone, also next to imports of packages named like predeclared types (the File is type-checked); batches of 3..8 such tables judged at once on goroutines of their own; a sample of the renders also through GoString and Save over a near variant of the output, and as stand-alone statements after other stand-alone renders have failed.",
  "note": TB,
  "technique": "exhaustive rune/byte enumeration + property-based testing (rapid) + native fuzzing with scanner-shape and round-trip oracles",
 },
 "C14": {
  "text": "API enumerated from /repo/jen sources at check time (triples and ...Func companions must exist with identical parameters); for every construct >= 50 generated argument lists compared across function form, method form, Add, *Group method (append + return identity) and ...Func variants, with GoString/Render/RenderWithFile agreement over three repetitions and callback counters (exactly once, never late); seven continuations chained onto every form; the caller's slice is left as it was and usable a second time; form policy applied at every call of real programs vs the all-method build and to every generated call (callback groups completed after the ...Func call returned, Commentf operands that format themselves and answer differently when formatted late); one statement over N = 1..1030 never-seen packages through Values and ValuesFunc.",
  "note": TB + " Reflection over the compiled API; package functions come from a generated table checked against the sources.",
  "technique": "API-enumerating property-based testing (rapid): cross-form byte equality, callback counting, metamorphic form policy on corpus programs",
 },
 "C15": {
  "text": "Comment policy applied to every Block/Defs/Struct/Interface/case body/File of real programs and of generated programs, with generated texts: go/scanner code-token sequence with comments must equal the one without (NoFormat and formatted), and the NoFormat output's comments must be exactly the given texts in line or block style; generated file-level settings: package doc iff package comments, headers apart from it by a blank line, import annotation unquotes to the canonical path; settings made after a first render must give what a File configured that way from the start gives; where the comment-free output parses the output with comments must parse too; comment texts of equal length and equal 32-bit hash sums keep their own text. Input classes of the known findings KF2 and KF3 (gofmt) are excluded from the formatted half and counted.",
  "note": TB + " Text compared on NoFormat output only (gofmt rewrites doc comments).",
  "technique": "metamorphic property (comment injection) over corpus and rapid-generated programs; structural oracle via go/parser comment groups",
 },
 "C16": {
  "text": "Generated Dicts of 0..20 (one in 25: 31..257) pairs with colliding / identical key texts, null sides by construction, qualified keys and nested values: the composite literal parsed from raw and formatted output must hold each live pair exactly once with its own value, raw key texts non-decreasing, same sequence after gofmt, inline for one pair and one per line for several, {} when all null; a placeholder filled or a key continued in place between renders of one File gives what a Dict built that way gives, also after early renders that panicked; one Dict value used by two statements renders twice what it renders once; half the cases are built under the form policy (literals through callbacks that answer differently when run late).",
  "note": TB + " Order is judged on raw key text, the documented sort key.",
  "technique": "property-based testing (rapid) with a parsed-literal multiset/order/layout oracle",
 },
 "C17": {
  "text": "Generated tag maps (0..8 conventional keys to hostile byte strings; thorough 1.6M + native fuzzing): exactly one STRING token, strconv.Unquote, reflect.StructTag.Lookup returns every value, keys sorted, empty map renders nothing; raw and formatted output agree; 4..16 maps rendered concurrently on goroutines of their own round-trip as they do alone; one map given to several Tag calls is left as it was; fields also assembled as Add(name, type).Tag(m) from a caller slice that is used again; structs of 1..2000 tagged fields chained onto one statement or given as one list; the struct printed on its own after other stand-alone renders have failed.",
  "note": TB,
  "technique": "round-trip property (rapid + native fuzzing) through strconv.Unquote and reflect.StructTag",
 },
}
