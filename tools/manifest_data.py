NOTES = "Property-based testing and fuzzing only. VERIF_SEED selects the PRNG value of every rapid run (derived per check and shard); exit 0 held, 1 VIOLATION, 2 inconclusive. See DESIGN.md."
NOT_APPLICABLE = {}
TB = "Trusted: Go toolchain packages go/parser, go/scanner, go/format, go/types, go/constant, strconv, reflect; pgregory.net/rapid v1.3.0."
CHECKS = {
 "C20": {
  "text": "Generated-history search: rapid draws append/clone histories (<=60 steps quick, <=200 thorough, appends of 0-9 items through eight builder methods so capacity is and is not exhausted); after every step every live statement is rendered and compared with a list model. No counter-example among the generated histories; absence is not established.",
  "note": TB + " The model accepts both a live-view and a snapshot semantics of Clone, since the property allows either.",
  "technique": "stateful property-based testing (rapid) against a list model",
 },
 "C03": {
  "text": "Generated search over import scenarios (constructor x hint history x prefix x body) with go/types as oracle: the rendered file is type-checked against fabricated packages whose declared names only match when jennifer's alias/no-alias decision is right; every marker symbol must resolve to the package it was built with, through one qualifier per path, with zero type errors. No counter-example among the generated scenarios; absence is not established.",
  "note": TB + " Fabricated importer: one synthetic package per path; std names read from GOROOT/src package clauses.",
  "technique": "property-based testing (rapid) with a go/types resolution oracle over fabricated packages",
 },
 "C04": {
  "text": "Generated search over freshly built Files with large unused hint tables, Anon sets and references inside Dict pairs that render nothing; the import specs of the output are compared with the set of marker symbols that occur in the output plus the Anon set (exactly once each, '_' only for anon-only paths, none unused per go/types).",
  "note": TB + " 'Rendered or not' is read off the output, not modelled.",
  "technique": "property-based testing (rapid): set equality between import specs and markers found in the output, plus go/types unused-import detection",
 },
 "C05": {
  "text": "Exhaustive enumeration of every Go keyword and universe identifier as last path element and as ImportName/ImportNames/ImportAlias hint under four prefixes, plus generated multisets of competing paths and arbitrary parser-valid path strings; oracle = go/token.IsIdentifier/IsKeyword, types.Universe, pairwise distinctness, go/types resolution.",
  "note": TB + " Paths that go/parser rejects cannot occur in Go source and are outside the domain.",
  "technique": "exhaustive enumeration of reserved words + property-based testing (rapid) with independent reserved-word and uniqueness predicates",
 },
 "C06": {
  "text": "Generated search over local paths, near-miss paths and sets of dot-imported paths, with and without PackagePrefix: markers of local and dot paths must appear bare (and resolve through go/types via the dot import / the companion file), near misses must be qualified and imported normally, each dot path has exactly one `. \"path\"` spec.",
  "note": TB,
  "technique": "property-based testing (rapid) with bare-vs-qualified predicates and go/types resolution",
 },
}
