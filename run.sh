#!/bin/sh
# Entry point registered in MANIFEST.json:
#   sh run.sh <ID> quick|thorough
#   sh run.sh replay <ID> <file>
# Exit 0 held / 1 VIOLATION / 2 inconclusive (see cmd/vcheck).
cd "$(dirname "$0")" || exit 2
export GOFLAGS=-mod=mod GOPROXY=off GOSUMDB=off GOTOOLCHAIN=local
VERIF_DIR="$(pwd)"; export VERIF_DIR
T="$(mktemp -d)" || exit 2
trap 'rm -rf "$T"' EXIT INT TERM
if ! go build -o "$T/vcheck" ./cmd/vcheck; then
  echo "INCONCLUSIVE driver does not build"
  exit 2
fi
"$T/vcheck" "$@"
exit $?
