module verif

go 1.23

require (
	github.com/dave/jennifer v0.0.0
	pgregory.net/rapid v1.3.0
)

replace github.com/dave/jennifer => /repo
