// Package knownfind recognises the input classes of the findings recorded in
// /verif/known_findings.json with status "known", so that generators can steer
// away from them (counted as excluded_known) and a different violation of the
// same property is still reported.
package knownfind

import (
	"go/ast"
	"go/format"
	"go/parser"
	"go/token"
)

// GofmtBreaks is the general form of KF1: gofmt (format.Source) accepts the raw rendering and
// turns it into text that no longer parses. jennifer returns format.Source's result unchanged
// (C02 checks that separately), so when this holds the unparseable output is produced by
// go/printer alone: it removes parentheses that the parser needed — around a generic composite
// literal in a statement header (GofmtStripsGenericLitParens), or around a single unnamed result
// that only parses inside parentheses (`func g(...T) (...T)`, `func() (A[0])`: the parser is
// lenient inside a parenthesised list). A hand-written file with the same bytes is mangled
// identically by gofmt.
func GofmtBreaks(raw []byte) bool {
	// the raw rendering itself is a complete, parseable file ...
	if _, err := parser.ParseFile(token.NewFileSet(), "", raw, 0); err != nil {
		return false
	}
	// ... and gofmt turns it into something that is not
	out, err := format.Source(raw)
	if err != nil {
		return false
	}
	_, err = parser.ParseFile(token.NewFileSet(), "", out, 0)
	return err != nil
}

// GofmtStripsGenericLitParens reports whether f contains the class of finding
// KF1: a parenthesised expression in an if / for / switch / range header whose
// parentheses go/printer (gofmt) removes although they protect a composite
// literal of an *instantiated generic type* (`(x == Pair[int]{})`): go/printer's
// stripParens only recognises identifiers and selectors as type names, so the
// formatted output is `if x == Pair[int]{} {`, which does not parse. The same
// happens to a hand-written file run through gofmt of this toolchain.
func GofmtStripsGenericLitParens(f ast.Node) bool {
	found := false
	check := func(x ast.Expr) {
		px, ok := x.(*ast.ParenExpr)
		if !ok || found {
			return
		}
		protectsTypeName, hasGeneric := false, false
		var walk func(n ast.Node) bool
		walk = func(n ast.Node) bool {
			switch n := n.(type) {
			case *ast.ParenExpr:
				return false // inner parentheses protect what they enclose
			case *ast.CompositeLit:
				if isTypeName(n.Type) {
					protectsTypeName = true
				} else if isGeneric(n.Type) {
					hasGeneric = true
				}
				return false
			}
			return true
		}
		// mirror stripParens: it strips recursively while the next level is a ParenExpr too
		inner := px.X
		for {
			ast.Inspect(inner, walk)
			if p2, ok := inner.(*ast.ParenExpr); ok {
				inner = p2.X
				continue
			}
			break
		}
		if hasGeneric && !protectsTypeName {
			found = true
		}
	}
	ast.Inspect(f, func(n ast.Node) bool {
		switch s := n.(type) {
		case *ast.IfStmt:
			check(s.Cond)
		case *ast.ForStmt:
			if s.Cond != nil {
				check(s.Cond)
			}
		case *ast.SwitchStmt:
			if s.Tag != nil {
				check(s.Tag)
			}
		case *ast.RangeStmt:
			check(s.X)
		}
		return !found
	})
	return found
}

func isTypeName(x ast.Expr) bool {
	switch t := x.(type) {
	case *ast.Ident:
		return true
	case *ast.SelectorExpr:
		return isTypeName(t.X)
	}
	return false
}

func isGeneric(x ast.Expr) bool {
	switch x.(type) {
	case *ast.IndexExpr, *ast.IndexListExpr:
		return true
	}
	return false
}
