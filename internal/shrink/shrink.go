// Package shrink minimises a failing Go source file for the corpus-driven
// checks (whose cases are real files, not rapid draws): first to the failing
// top-level declaration, then statement by statement inside it, always
// keeping the smallest source for which the check still fails. Imports that
// nothing refers to any more are dropped with what used them.
package shrink

import (
	"bytes"
	"go/ast"
	"go/format"
	"go/parser"
	"go/token"
	"strconv"
	"time"
)

// Source returns the smallest variant of src found for which fails still
// returns true (src itself if nothing smaller fails or src does not parse).
func Source(src []byte, fails func([]byte) bool, budget time.Duration) []byte {
	deadline := time.Now().Add(budget)
	best := src
	try := func(f *ast.File, fset *token.FileSet) bool {
		if time.Now().After(deadline) {
			return false
		}
		out := print(f, fset)
		if out == nil || len(out) >= len(best) {
			return false
		}
		if fails(out) {
			best = out
			return true
		}
		return false
	}
	parse := func() (*ast.File, *token.FileSet) {
		fset := token.NewFileSet()
		f, err := parser.ParseFile(fset, "", best, parser.SkipObjectResolution)
		if err != nil {
			return nil, nil
		}
		return f, fset
	}
	// 1. a single declaration (plus imports)
	if f, fset := parse(); f != nil {
		var imports, others []ast.Decl
		for _, d := range f.Decls {
			if gd, ok := d.(*ast.GenDecl); ok && gd.Tok == token.IMPORT {
				imports = append(imports, d)
			} else {
				others = append(others, d)
			}
		}
		for _, d := range others {
			g := *f
			g.Decls = append(append([]ast.Decl{}, imports...), d)
			g.Comments = nil
			pruneImports(&g)
			if try(&g, fset) {
				break
			}
		}
	}
	// 2. delta debugging over declarations, then over statement lists
	for changed := true; changed && time.Now().Before(deadline); {
		changed = false
		f, fset := parse()
		if f == nil {
			break
		}
		f.Comments = nil
		// drop declarations one at a time
		for i := len(f.Decls) - 1; i >= 0; i-- {
			if gd, ok := f.Decls[i].(*ast.GenDecl); ok && gd.Tok == token.IMPORT {
				continue
			}
			g := *f
			g.Decls = append(append([]ast.Decl{}, f.Decls[:i]...), f.Decls[i+1:]...)
			pruneImports(&g)
			if try(&g, fset) {
				changed = true
				break
			}
		}
		if changed {
			continue
		}
		// drop statements / specs / elements one at a time, anywhere
		var lists []*[]ast.Stmt
		ast.Inspect(f, func(n ast.Node) bool {
			switch n := n.(type) {
			case *ast.BlockStmt:
				lists = append(lists, &n.List)
			case *ast.CaseClause:
				lists = append(lists, &n.Body)
			case *ast.CommClause:
				lists = append(lists, &n.Body)
			}
			return true
		})
	outer:
		for _, l := range lists {
			orig := *l
			// halves first, then single statements
			for size := len(orig) / 2; size >= 1; size /= 2 {
				for start := 0; start+size <= len(orig); start += size {
					*l = append(append([]ast.Stmt{}, orig[:start]...), orig[start+size:]...)
					g := *f
					g.Decls = append([]ast.Decl{}, f.Decls...)
					pruneImports(&g)
					if try(&g, fset) {
						changed = true
						break outer
					}
					*l = orig
				}
			}
		}
	}
	return best
}

func print(f *ast.File, fset *token.FileSet) []byte {
	var buf bytes.Buffer
	if err := format.Node(&buf, fset, f); err != nil {
		return nil
	}
	return buf.Bytes()
}

// pruneImports removes import specs whose local name no selector refers to.
func pruneImports(f *ast.File) {
	used := map[string]bool{}
	ast.Inspect(f, func(n ast.Node) bool {
		if sel, ok := n.(*ast.SelectorExpr); ok {
			if id, ok := sel.X.(*ast.Ident); ok {
				used[id.Name] = true
			}
		}
		return true
	})
	var decls []ast.Decl
	for _, d := range f.Decls {
		gd, ok := d.(*ast.GenDecl)
		if !ok || gd.Tok != token.IMPORT {
			decls = append(decls, d)
			continue
		}
		var specs []ast.Spec
		for _, sp := range gd.Specs {
			is := sp.(*ast.ImportSpec)
			if is.Name != nil {
				if is.Name.Name == "_" || is.Name.Name == "." || used[is.Name.Name] {
					specs = append(specs, sp)
				}
				continue
			}
			path, _ := strconv.Unquote(is.Path.Value)
			// without an alias the local name is unknown here: keep the import when any
			// used qualifier could be it (last path element, or anything for odd paths)
			keep := path == "C"
			for u := range used {
				if len(path) >= len(u) && (path == u || len(path) > len(u) && path[len(path)-len(u)-1] == '/' && path[len(path)-len(u):] == u) {
					keep = true
				}
			}
			if keep || !simpleLast(path) {
				specs = append(specs, sp)
			}
		}
		if len(specs) > 0 {
			g := *gd
			g.Specs = specs
			if len(specs) == 1 {
				g.Lparen, g.Rparen = token.NoPos, token.NoPos
			}
			decls = append(decls, &g)
		}
	}
	f.Decls = decls
}

func simpleLast(path string) bool {
	for i := len(path) - 1; i >= 0 && path[i] != '/'; i-- {
		c := path[i]
		if !(c >= 'a' && c <= 'z' || c >= '0' && c <= '9' || c == '_') {
			return false
		}
	}
	return true
}
