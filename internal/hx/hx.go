// Package hx is the small harness every property package uses: it reads the
// run configuration from the environment, drives rapid with a fixed seed and
// case count, counts what was actually explored, records violations together
// with the failing case (so that it can be replayed without rapid) and writes
// a per-process result file that cmd/vcheck merges into the evidence file.
package hx

import (
	"crypto/sha1"
	"encoding/binary"
	"encoding/json"
	"flag"
	"fmt"
	"github.com/dave/jennifer/jen"
	"io"
	"os"
	"path/filepath"
	"runtime/debug"
	"sort"
	"strconv"
	"sync"
	"sync/atomic"
	"testing"
	"time"

	"pgregory.net/rapid"
)

// Result is what one test process reports to the driver.
type Result struct {
	Property      string           `json:"property"`
	Tier          string           `json:"tier"`
	Seed          uint64           `json:"seed"`
	Shard         int              `json:"shard"`
	Evaluations   int64            `json:"evaluations"`
	Hashes        []uint64         `json:"hashes"`
	Classes       map[string]int64 `json:"classes"`
	Samples       []Sample         `json:"samples"`
	Violations    []Violation      `json:"violations"`
	Known         []string         `json:"known"`
	Inconclusive  []string         `json:"inconclusive"`
	Discarded     int64            `json:"discarded"`
	ExcludedKnown int64            `json:"excluded_known"`
	Rule          string           `json:"rule"`
	Assumptions   []string         `json:"assumptions"`
	Exhaustive    []string         `json:"exhaustive"`
	Extra         map[string]any   `json:"extra"`
	WallS         float64          `json:"wall_s"`
	Finished      bool             `json:"finished"`
}

// Sample is one explored case written out for the evidence file.
type Sample struct {
	Check string `json:"check"`
	Case  any    `json:"case"`
}

// Violation carries the failing case in replayable form.
type Violation struct {
	Check string          `json:"check"`
	Case  json.RawMessage `json:"case"`
	Error string          `json:"error"`
}

// ReplayFile is the on-disk format of /verif/replay/<ID>/*.json.
type ReplayFile struct {
	Property string          `json:"property"`
	Check    string          `json:"check"`
	Case     json.RawMessage `json:"case"`
	Error    string          `json:"error,omitempty"`
	Note     string          `json:"note,omitempty"`
}

// Run is the per-process state.
type Run struct {
	ID          string
	Tier        string
	Seed        uint64
	Shard       int
	Shards      int
	OutDir      string
	replay      *ReplayFile
	start       time.Time
	mu          sync.Mutex
	res         Result
	hashes      map[uint64]struct{}
	perName     map[string]int
	replayHit   bool
	checkpoints int
}

func envInt(k string, def int) int {
	if v := os.Getenv(k); v != "" {
		if n, err := strconv.Atoi(v); err == nil {
			return n
		}
	}
	return def
}

// Start reads the configuration. Call it once per test function and defer
// Finish.
func Start(t *testing.T, id string) *Run {
	r := &Run{ID: id, start: time.Now(), hashes: map[uint64]struct{}{}, perName: map[string]int{}}
	r.Tier = os.Getenv("VERIF_TIER")
	if r.Tier == "" {
		r.Tier = "quick"
	}
	seed := uint64(1)
	if v := os.Getenv("VERIF_SEED"); v != "" {
		if n, err := strconv.ParseInt(v, 10, 64); err == nil {
			seed = uint64(n)
		} else if n, err := strconv.ParseUint(v, 10, 64); err == nil {
			seed = n
		}
	}
	r.Seed = seed
	r.Shard = envInt("VERIF_SHARD", 0)
	r.Shards = envInt("VERIF_SHARDS", 1)
	r.OutDir = os.Getenv("VERIF_OUT")
	if p := os.Getenv("VERIF_REPLAY"); p != "" {
		b, err := os.ReadFile(p)
		if err != nil {
			t.Fatalf("replay file: %v", err)
		}
		rf := &ReplayFile{}
		if err := json.Unmarshal(b, rf); err != nil {
			t.Fatalf("replay file %s: %v", p, err)
		}
		r.replay = rf
	}
	r.res = Result{Property: id, Tier: r.Tier, Seed: seed, Shard: r.Shard, Classes: map[string]int64{}, Extra: map[string]any{}}
	return r
}

// RepoDir is the repository the binary was built against (/repo unless an audit run says otherwise).
func RepoDir() string {
	if v := os.Getenv("VERIF_REPO"); v != "" {
		return v
	}
	return "/repo"
}

// Thorough reports whether the thorough tier was requested.
func (r *Run) Thorough() bool { return r.Tier == "thorough" }

// Replaying reports whether this process only replays one saved case.
func (r *Run) Replaying() bool { return r.replay != nil }

// N picks the case count for the tier. The thorough number is per shard.
func (r *Run) N(quick, thoroughPerShard int) int {
	n := quick
	if r.Thorough() {
		n = thoroughPerShard
	}
	if s := os.Getenv("VERIF_SCALE"); s != "" {
		if f, err := strconv.ParseFloat(s, 64); err == nil && f > 0 {
			n = int(float64(n) * f)
			if n < 1 {
				n = 1
			}
		}
	}
	return n
}

// RapidSeed derives the PRNG value given to rapid for a named sub-check.
func (r *Run) RapidSeed(name string) uint64 {
	h := sha1.Sum([]byte(fmt.Sprintf("%s/%s/%d/%d", r.ID, name, r.Seed, r.Shard)))
	s := binary.LittleEndian.Uint64(h[:8])
	if s == 0 {
		s = 0x9E3779B9
	}
	return s
}

// Mine reports whether index i belongs to this shard.
func (r *Run) Mine(i int) bool {
	if r.Shards <= 1 {
		return true
	}
	return i%r.Shards == r.Shard
}

func (r *Run) Eval() { r.mu.Lock(); r.res.Evaluations++; r.mu.Unlock() }

func (r *Run) EvalN(n int) { r.mu.Lock(); r.res.Evaluations += int64(n); r.mu.Unlock() }

func (r *Run) Class(name string) { r.mu.Lock(); r.res.Classes[name]++; r.mu.Unlock() }

func (r *Run) ClassN(name string, n int) { r.mu.Lock(); r.res.Classes[name] += int64(n); r.mu.Unlock() }

func (r *Run) Discard() { r.mu.Lock(); r.res.Discarded++; r.mu.Unlock() }

func (r *Run) ExcludedKnown() { r.mu.Lock(); r.res.ExcludedKnown++; r.mu.Unlock() }

// NonTrivial records one non-trivial case by a canonical encoding of it.
func (r *Run) NonTrivial(key string) {
	h := sha1.Sum([]byte(key))
	v := binary.LittleEndian.Uint64(h[:8])
	r.mu.Lock()
	r.hashes[v] = struct{}{}
	r.mu.Unlock()
}

// Sample keeps a few cases per named check for the evidence file.
func (r *Run) Sample(check string, c any) {
	r.mu.Lock()
	defer r.mu.Unlock()
	n := r.perName[check]
	r.perName[check] = n + 1
	// keep the 1st, 10th, 100th, ... case of each check: spread over the run, bounded
	keep := n == 0 || n == 9 || n == 99 || n == 999 || n == 9999
	if !keep || len(r.res.Samples) >= 24 {
		return
	}
	r.res.Samples = append(r.res.Samples, Sample{Check: check, Case: abbreviate(c)})
}

func abbreviate(c any) any {
	b, err := json.Marshal(c)
	if err != nil {
		return fmt.Sprintf("%v", c)
	}
	if len(b) > 1500 {
		return string(b[:1500]) + "…(truncated)"
	}
	var v any
	_ = json.Unmarshal(b, &v)
	return v
}

func (r *Run) Rule(s string) { r.res.Rule = s }
func (r *Run) Assume(s string) {
	r.mu.Lock()
	r.res.Assumptions = append(r.res.Assumptions, s)
	r.mu.Unlock()
}
func (r *Run) Exhaustive(s string) {
	r.mu.Lock()
	r.res.Exhaustive = append(r.res.Exhaustive, s)
	r.mu.Unlock()
}
func (r *Run) Extra(k string, v any) { r.mu.Lock(); r.res.Extra[k] = v; r.mu.Unlock() }
func (r *Run) Known(s string)        { r.mu.Lock(); r.res.Known = append(r.res.Known, s); r.mu.Unlock() }

// Inconclusive records a reason why the run cannot be taken as green (a
// harness problem, never a violation).
func (r *Run) Inconclusive(format string, a ...any) {
	r.mu.Lock()
	r.res.Inconclusive = append(r.res.Inconclusive, fmt.Sprintf(format, a...))
	r.mu.Unlock()
}

// Violate records a violation with its replayable case.
func (r *Run) Violate(check string, c any, err error) {
	b, jerr := json.Marshal(c)
	if jerr != nil {
		b, _ = json.Marshal(fmt.Sprintf("%#v", c))
	}
	r.mu.Lock()
	defer r.mu.Unlock()
	if len(r.res.Violations) >= 8 {
		return
	}
	r.res.Violations = append(r.res.Violations, Violation{Check: check, Case: b, Error: err.Error()})
}

// Checkpoint records the case that is about to run, for failures that kill or
// fail the process without returning to the check (the race detector): the
// driver turns the last checkpoint into the replay case.
func (r *Run) Checkpoint(check string, c any) {
	if r.OutDir == "" {
		return
	}
	r.checkpoints++
	b, err := json.Marshal(c)
	if err != nil {
		return
	}
	rf := ReplayFile{Property: r.ID, Check: check, Case: b}
	out, _ := json.Marshal(&rf)
	_ = os.WriteFile(filepath.Join(r.OutDir, "checkpoint.json"), out, 0o644)
}

// autoCheckpoint records every case before it is judged, so that a failure that kills the process (a panic
// on a goroutine the library started) can be attributed; bounded per process, since it costs a file write.
func (r *Run) autoCheckpoint(check string, c any) {
	if r.checkpoints < 200000 {
		r.Checkpoint(check, c)
	}
}

func (r *Run) Violations() int { r.mu.Lock(); defer r.mu.Unlock(); return len(r.res.Violations) }

// Finish writes the result file. Must be deferred by every test function.
func (r *Run) Finish(t *testing.T) {
	r.mu.Lock()
	defer r.mu.Unlock()
	// (in replay mode a test function that does not own the named check simply evaluates nothing;
	// the driver complains when no test function of the binary evaluated the case)
	r.res.Hashes = make([]uint64, 0, len(r.hashes))
	for h := range r.hashes {
		r.res.Hashes = append(r.res.Hashes, h)
	}
	sort.Slice(r.res.Hashes, func(i, j int) bool { return r.res.Hashes[i] < r.res.Hashes[j] })
	r.res.WallS = time.Since(r.start).Seconds()
	r.res.Finished = true
	if r.OutDir == "" {
		// stand-alone `go test`: behave like a normal test
		for _, v := range r.res.Violations {
			t.Errorf("VIOLATION %s/%s: %s\ncase: %s", r.ID, v.Check, v.Error, v.Case)
		}
		for _, s := range r.res.Inconclusive {
			t.Errorf("INCONCLUSIVE %s", s)
		}
		t.Logf("%s: evaluations=%d distinct_nontrivial=%d classes=%v", r.ID, r.res.Evaluations, len(r.res.Hashes), r.res.Classes)
		return
	}
	b, err := json.Marshal(&r.res)
	if err != nil {
		t.Fatalf("result: %v", err)
	}
	name := filepath.Join(r.OutDir, fmt.Sprintf("result-%s-%d.json", sanitize(t.Name()), r.Shard))
	if err := os.WriteFile(name, b, 0o644); err != nil {
		t.Fatalf("result: %v", err)
	}
}

func sanitize(s string) string {
	out := []byte(s)
	for i, c := range out {
		if !(c >= 'a' && c <= 'z' || c >= 'A' && c <= 'Z' || c >= '0' && c <= '9') {
			out[i] = '_'
		}
	}
	return string(out)
}

// Safe runs f and turns a panic into an error that carries the stack.
func Safe(f func() error) (err error) {
	defer func() {
		if p := recover(); p != nil {
			err = &PanicError{Value: fmt.Sprint(p), Stack: string(debug.Stack())}
		}
	}()
	return f()
}

// PanicError is returned by Safe when f panicked.
type PanicError struct {
	Value string
	Stack string
}

func (p *PanicError) Error() string { return "panic: " + p.Value }

// Check is a named property: a pure function of a JSON-serialisable case.
type Check[C any] struct {
	Name string
	Fn   func(C) error
}

func (r *Run) replayInto(name string, c any) bool {
	if r.replay == nil || r.replay.Check != name {
		return false
	}
	r.replayHit = true
	if err := json.Unmarshal(r.replay.Case, c); err != nil {
		r.Inconclusive("replay file does not decode as a case of %s: %v", name, err)
		return false
	}
	return true
}

// One evaluates a single case (used by enumerations and corpus loops).
// It returns false when the case violated the property.
func One[C any](r *Run, ck Check[C], c C) bool {
	r.Eval()
	r.Sample(ck.Name, c)
	r.autoCheckpoint(ck.Name, c)
	if err := Safe(func() error { return ck.Fn(c) }); err != nil {
		r.Violate(ck.Name, c, err)
		return false
	}
	return true
}

// Replay handles the replay mode for a check: returns true when the process
// is in replay mode (whether or not the file is for this check) so that the
// caller skips generation.
func Replay[C any](r *Run, ck Check[C]) bool {
	if r.replay == nil {
		return false
	}
	var c C
	if r.replayInto(ck.Name, &c) {
		r.Eval()
		if err := Safe(func() error { return ck.Fn(c) }); err != nil {
			r.Violate(ck.Name, c, err)
		}
	}
	return true
}

// Rapid drives a generated check: n cases from gen, each given to ck.Fn.
// The shrunk failing case is what ends up in the violation record, because
// rapid re-runs the property while shrinking and finally on the minimal
// input; the last failing case seen is the minimal one.
func Rapid[C any](r *Run, t *testing.T, ck Check[C], n int, gen func(*rapid.T) C) {
	if Replay(r, ck) {
		return
	}
	if n <= 0 {
		return
	}
	if r.Violations() >= 4 {
		// four violations are on record: the verdict is settled, and shrinking a fifth, sixth, ... failing
		// check (a change that breaks every construct fails a hundred of them) only risks the deadline
		r.Class("checks_skipped_after_4_violations")
		return
	}
	_ = flag.Set("rapid.checks", strconv.Itoa(n))
	if r.Violations() >= 1 {
		_ = flag.Set("rapid.shrinktime", "5s")
	} else {
		_ = flag.Set("rapid.shrinktime", "30s")
	}
	_ = flag.Set("rapid.seed", strconv.FormatUint(r.RapidSeed(ck.Name), 10))
	_ = flag.Set("rapid.nofailfile", "true")
	_ = flag.Set("rapid.failfile", "")
	if os.Getenv("VERIF_SHRINKTIME") != "" {
		_ = flag.Set("rapid.shrinktime", os.Getenv("VERIF_SHRINKTIME"))
	}
	var (
		lastCase C
		lastErr  error
		ran      int64
		genPanic string
	)
	prop := func(rt *rapid.T) {
		c := gen(rt)
		ran++
		if lastErr == nil {
			r.Sample(ck.Name, c)
		}
		r.autoCheckpoint(ck.Name, c)
		if err := Safe(func() error { return ck.Fn(c) }); err != nil {
			lastCase, lastErr = c, err
			rt.Fatalf("%v", err)
		}
	}
	ok := t.Run(ck.Name, func(st *testing.T) {
		defer func() {
			// a panic inside gen is a harness bug, keep it visible
			if p := recover(); p != nil {
				genPanic = fmt.Sprint(p)
				panic(p)
			}
		}()
		rapid.Check(st, prop)
	})
	r.EvalN(int(ran))
	switch {
	case !ok && lastErr != nil:
		r.Violate(ck.Name, lastCase, lastErr)
	case !ok:
		r.Inconclusive("check %s: rapid failed without a property failure (generator problem?) %s", ck.Name, genPanic)
	case ran < int64(n):
		r.Inconclusive("check %s: only %d of %d cases ran", ck.Name, ran, n)
	}
}

// ForeignEnv runs f with the environment of another machine (a 32-bit target, another OS, no Go
// installation, another locale and time zone) and restores the environment afterwards. What jennifer
// renders is a function of the calls made, not of the environment. Not for concurrent use.
func ForeignEnv(f func()) {
	vars := map[string]string{
		"GOARCH": "386", "GOOS": "plan9", "GOROOT": "/nonexistent/go", "GOPATH": "/nonexistent/gopath", "GOFLAGS": "-tags=verifforeign",
		"TZ": "Pacific/Kiritimati", "LANG": "tr_TR.UTF-8", "LC_ALL": "tr_TR.UTF-8", "HOME": "/nonexistent", "CGO_ENABLED": "0", "GO111MODULE": "off",
	}
	old := map[string]*string{}
	for k, v := range vars {
		if cur, ok := os.LookupEnv(k); ok {
			c := cur
			old[k] = &c
		} else {
			old[k] = nil
		}
		os.Setenv(k, v)
	}
	defer func() {
		for k, v := range old {
			if v == nil {
				os.Unsetenv(k)
			} else {
				os.Setenv(k, *v)
			}
		}
	}()
	f()
}

// Batch is a group of cases judged at the same time, each on a goroutine of its own (the cases share
// nothing: every one builds the jennifer objects it looks at itself).
type Batch[C any] struct {
	Cases  []C `json:"cases"`
	Rounds int `json:"rounds"`
}

// Together turns a check of one case into a check of a batch: every case is judged alone first (a failure
// there is reported as such), then all of them at once, Rounds times over, released together. A case that
// holds alone and fails while other goroutines work on other cases shows state shared behind the callers'
// backs. What fn reports must not depend on timing on correct code.
func Together[C any](fn func(C) error) func(Batch[C]) error {
	return func(b Batch[C]) error {
		for i, c := range b.Cases {
			c := c
			if err := Safe(func() error { return fn(c) }); err != nil {
				return fmt.Errorf("case %d of the batch, judged alone: %v", i, err)
			}
		}
		for round := 0; round < b.Rounds; round++ {
			errs := make([]error, len(b.Cases))
			start := make(chan struct{})
			var wg sync.WaitGroup
			for i := range b.Cases {
				wg.Add(1)
				go func(i int) {
					defer wg.Done()
					<-start
					errs[i] = Safe(func() error { return fn(b.Cases[i]) })
				}(i)
			}
			close(start)
			wg.Wait()
			for i, err := range errs {
				if err != nil {
					return fmt.Errorf("case %d of the batch holds when judged alone; judged while the %d other cases were being judged on goroutines of their own (round %d) it fails: %v", i, len(b.Cases)-1, round, err)
				}
			}
		}
		return nil
	}
}

// FailedFragments performs, in this goroutine, fragment renders that fail the way a caller's renders do —
// gofmt rejects the fragment, the writer refuses the bytes, a literal of an unsupported type or a Dict next to
// other items panics half-way through (recovered as a caller would) — over packages whose names collide
// (crypto/rand, math/rand, text/template, two packages called conf). What a failed render left behind is no
// business of the next one.
func FailedFragments() {
	quiet := func(f func()) {
		defer func() { _ = recover() }()
		f()
	}
	decoys := []func(){
		func() { _ = jen.Case(jen.Qual("crypto/rand", "Reader")).Render(io.Discard) },
		func() {
			_ = jen.Id("x").Op(":=").Lit("leftover").Op("+").Qual("text/template", "New").Op(")").Render(io.Discard)
		},
		func() { _ = jen.Id("y").Op(":=").Qual("example.com/zero/conf", "Z").Render(failWriter{}) },
		func() { _ = jen.Id("z").Op(":=").Lit("leftover2").Op("+").Lit(struct{ A int }{1}).GoString() },
		func() {
			_ = jen.Id("T").Values(jen.Dict{jen.Id("a"): jen.Qual("html/template", "New")}, jen.Id("extra")).GoString()
		},
		func() { _ = jen.Id("A").Int().Tag(map[string]string{"leftover": "tag"}).Render(io.Discard) },
	}
	// (a different one comes last every time: what the most recent failure left behind is what the next render meets)
	k := int(failedFragmentsCalls.Add(1))
	for i := range decoys {
		quiet(decoys[(i+k)%len(decoys)])
	}
}

var failedFragmentsCalls atomic.Int64

type failWriter struct{}

func (failWriter) Write(p []byte) (int, error) { return 0, fmt.Errorf("writer fails") }
