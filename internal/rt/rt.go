// Package rt is the round-trip engine shared by the corpus-driven checks:
// Go source -> go/ast -> recipe -> jennifer -> bytes -> go/ast, compared with
// the source tree.
package rt

import (
	"fmt"
	"go/ast"
	"go/parser"
	"go/token"
	"strings"

	"github.com/dave/jennifer/jen"

	"verif/internal/ast2rec"
	"verif/internal/astcmp"
	"verif/internal/corpus"
	"verif/internal/recipe"
)

// Parsed is a translated source file.
type Parsed struct {
	AST    *ast.File
	Recipe *recipe.File
	Stats  *ast2rec.Stats
}

// Status of a translation attempt.
const (
	OK         = "ok"
	InvalidSrc = "invalid-src"
	Skipped    = "skipped"
)

// Translate parses src and translates it. status is OK, InvalidSrc (the
// parser of this toolchain rejects it) or Skipped (why says which rule).
func Translate(name string, src []byte, root *corpus.Root, alt *recipe.Decisions, stats bool) (p *Parsed, status, why string) {
	fset := token.NewFileSet()
	af, err := parser.ParseFile(fset, name, src, parser.ParseComments)
	if err != nil {
		return nil, InvalidSrc, err.Error()
	}
	o := ast2rec.Options{RealName: root.RealName, Exported: root.Exported, Alt: alt, Std: func(p string) bool { return wellKnownStd[p] }}
	if stats {
		o.Stats = ast2rec.NewStats()
	}
	var sib map[string]bool
	for _, d := range af.Decls {
		if gd, ok := d.(*ast.GenDecl); ok && gd.Tok == token.IMPORT {
			for _, sp := range gd.Specs {
				if is := sp.(*ast.ImportSpec); is.Name != nil && is.Name.Name == "." {
					sib = root.Siblings(name, af.Name.Name)
				}
			}
		}
	}
	fr, err := ast2rec.File(af, o, sib)
	if err != nil {
		w := err.Error()
		if f := strings.Fields(w); len(f) > 1 {
			w = f[1]
		}
		return nil, Skipped, w
	}
	return &Parsed{AST: af, Recipe: fr, Stats: o.Stats}, OK, ""
}

// Render builds a file recipe with b and renders it; panics become errors.
func Render(b *recipe.Builder, fr *recipe.File) (out []byte, err error) {
	defer func() {
		if p := recover(); p != nil {
			err = fmt.Errorf("panic: %v", p)
		}
	}()
	var f *jen.File = b.File(fr)
	// (one File in three is first rendered into a writer that refuses the bytes: a failed render leaves the
	// File as it was)
	h := 0
	for _, n := range fr.Body {
		h += recipe.CountCalls(n)
	}
	if h%3 == 1 {
		_ = f.Render(refusingWriter{})
	}
	return recipe.RenderFile(f)
}

// Compare checks that out is the same program as af: package name, imports
// and declarations modulo comments, layout and redundant parentheses.
func Compare(af *ast.File, out []byte) error {
	af2, err := parser.ParseFile(token.NewFileSet(), "out.go", out, 0)
	if err != nil {
		return fmt.Errorf("output does not re-parse: %v", err)
	}
	if af.Name.Name != af2.Name.Name {
		return fmt.Errorf("package name %q became %q", af.Name.Name, af2.Name.Name)
	}
	i1, i2 := astcmp.ImportsOf(af), astcmp.ImportsOf(af2)
	if strings.Join(i1, ";") != strings.Join(i2, ";") {
		return fmt.Errorf("imports differ: source %v, output %v", i1, i2)
	}
	d1, d2 := astcmp.Dump(af.Decls), astcmp.Dump(af2.Decls)
	if d1 != d2 {
		return fmt.Errorf("syntax trees differ: %s", astcmp.FirstDiff(d1, d2))
	}
	return nil
}

// Short trims long messages.
func Short(s string, n int) string {
	if len(s) > n {
		return s[:n] + "…"
	}
	return s
}

// wellKnownStd: standard library packages every release of jennifer's name table holds (the translator may
// leave their name hint out: jennifer knows what they declare). A package the table lacks would come out with
// an explicit alias, which is right for jennifer and a difference for the round trip — hence a fixed list.
var wellKnownStd = map[string]bool{
	"fmt": true, "os": true, "strings": true, "bytes": true, "errors": true, "io": true, "sort": true, "strconv": true, "sync": true, "time": true,
	"math": true, "math/rand": true, "math/rand/v2": true, "math/big": true, "math/bits": true, "text/template": true, "html/template": true,
	"unicode": true, "unicode/utf8": true, "unicode/utf16": true, "net/http": true, "net/url": true, "encoding/json": true, "encoding/binary": true,
	"path/filepath": true, "reflect": true, "runtime": true, "context": true, "bufio": true, "regexp": true, "testing": true, "crypto/rand": true, "go/ast": true, "go/token": true,
}

type refusingWriter struct{}

func (refusingWriter) Write(p []byte) (int, error) { return 0, fmt.Errorf("writer fails") }
