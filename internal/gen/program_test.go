package gen

import (
	"fmt"
	"go/parser"
	"go/token"
	"strings"
	"testing"

	"pgregory.net/rapid"
)

func TestProgramParses(t *testing.T) {
	bad, n := 0, 0
	shown := 0
	rapid.Check(t, func(rt *rapid.T) {
		src := Program(rt, 5)
		n++
		if _, err := parser.ParseFile(token.NewFileSet(), "", src, 0); err != nil {
			bad++
			if shown < 25 {
				shown++
				line := 0
				fmt.Sscanf(err.Error(), "%d:", &line)
				ls := strings.Split(src, "\n")
				lo, hi := line-2, line+1
				if lo < 0 {
					lo = 0
				}
				if hi > len(ls) {
					hi = len(ls)
				}
				t.Logf("PARSE ERROR %v\n%s", err, strings.Join(ls[lo:hi], "\n"))
			}
		}
	})
	t.Logf("programs=%d parse failures=%d", n, bad)
}
