package gen

import (
	"fmt"
	"regexp"
	"sort"
	"strconv"
	"strings"
	"sync/atomic"

	"pgregory.net/rapid"
)

// Program draws the source text of a Go file that is syntactically valid by
// construction: every production handles its own parenthesisation. The text
// is meant to be parsed with go/parser; a parse failure is a generator bug
// (the checks count it as discarded, never as a violation).
func Program(t *rapid.T, maxDepth int) string {
	g := &pg{t: t, used: map[string]bool{}, max: maxDepth}
	var decls []string
	n := rapid.IntRange(1, 6).Draw(t, "ndecls")
	for i := 0; i < n; i++ {
		decls = append(decls, g.decl())
	}
	sb := &strings.Builder{}
	fmt.Fprintf(sb, "package %s\n\n", rapid.SampledFrom([]string{"p", "main", "foo", "fmt", "os", "strings", "big", "utf8"}).Draw(t, "pkgname")) // (a package may carry the name of one it imports: package context importing "context")
	// imports: exactly the packages the body refers to (a file that does not use
	// an import does not compile, and the DSL only imports what is referenced)
	// (a production may draw a qualified name and then discard the text, so the final text decides)
	body := strings.Join(decls, "\n\n")
	var names []string
	for n := range g.used {
		if regexp.MustCompile(`(^|[^\pL\pN_])` + n + `\.`).MatchString(body) {
			names = append(names, n)
		}
	}
	sort.Strings(names)
	var specs []string
	for _, n := range names {
		p := pkgs[n]
		if p.alias {
			specs = append(specs, fmt.Sprintf("%s %q", n, p.path))
		} else {
			specs = append(specs, fmt.Sprintf("%q", p.path))
		}
	}
	if g.dot && regexp.MustCompile(`(^|[^\pL\pN_.])(`+strings.Join(dotSyms, "|")+`)($|[^\pL\pN_])`).MatchString(body) {
		specs = append(specs, `. "math"`)
	}
	if rapid.IntRange(0, 5).Draw(t, "anon") == 0 {
		specs = append(specs, `_ "embed"`)
	}
	switch {
	case len(specs) == 1 && rapid.Bool().Draw(t, "singleimport"):
		fmt.Fprintf(sb, "import %s\n\n", specs[0])
	case len(specs) > 0:
		fmt.Fprintf(sb, "import (\n\t%s\n)\n\n", strings.Join(specs, "\n\t"))
	}
	sb.WriteString(strings.Join(decls, "\n\n"))
	sb.WriteString("\n")
	return sb.String()
}

type pkgInfo struct {
	path  string
	alias bool
	syms  []string
	types []string
}

// local names under which packages are referred to; none of them is ever used as an ordinary identifier
var pkgs = map[string]pkgInfo{
	"fmt":     {"fmt", false, []string{"Println", "Sprintf", "Errorf"}, []string{"Stringer"}},
	"os":      {"os", false, []string{"Args", "Exit", "Stdout"}, []string{"File"}},
	"strings": {"strings", false, []string{"Join", "Split"}, []string{"Builder"}},
	"rnd":     {"math/rand", true, []string{"Int", "Intn"}, []string{"Rand"}},
	"big":     {"math/big", false, []string{"NewInt"}, []string{"Int", "Float"}},
	"tmpl":    {"text/template", true, []string{"New", "Must"}, []string{"Template"}},
	"utf8":    {"unicode/utf8", false, []string{"RuneLen", "UTFMax"}, nil},
	// (the one importable std package whose name is not its last path element)
	"rand": {"math/rand/v2", false, []string{"IntN", "N", "Uint64"}, []string{"Rand", "PCG"}},
}

var pkgNames = []string{"fmt", "os", "strings", "rnd", "big", "tmpl", "utf8", "rand"}

var vars = []string{"a", "b", "c", "x", "y", "z", "i", "j", "n", "s", "v", "err", "ok", "_x", "α", "xs", "m", "ch", "p", "q"}
var typeNames = []string{"T", "U", "Node", "List", "int", "string", "bool", "float64", "byte", "rune", "error", "any", "uint8", "complex128"}
var fieldNames = []string{"F", "G", "name", "Next", "val", "X", "Y"}
var labels = []string{"L", "Loop", "out", "retry"}

type pg struct {
	t    *rapid.T
	used map[string]bool
	max  int
	// header > 0 while an if / for / switch / range header expression is being generated: a
	// composite literal of an instantiated generic type is not produced there (known finding
	// KF1: gofmt strips the parentheses that protect it); Excluded counts the avoided draws.
	header int
	dot    bool // a name of the dot-imported package was drawn
}

// ExcludedKnown counts, process-wide, how often Program steered away from the class of KF1.
var ExcludedKnown int64

func (g *pg) pick(label string, xs []string) string { return rapid.SampledFrom(xs).Draw(g.t, label) }
func (g *pg) n(label string, lo, hi int) int        { return rapid.IntRange(lo, hi).Draw(g.t, label) }
func (g *pg) flip(label string) bool                { return rapid.Bool().Draw(g.t, label) }

// arity is biased to small values but reaches 12.
func (g *pg) arity(label string) int {
	switch g.n(label+"bucket", 0, 9) {
	case 0:
		return 0
	case 1, 2, 3:
		return 1
	case 4, 5:
		return 2
	case 6:
		return 3
	case 7:
		return g.n(label, 4, 5)
	case 8:
		return g.n(label, 6, 8)
	}
	return g.n(label, 9, 12)
}

// dotSyms are names of package math, referred to bare through `import . "math"`; no other production uses them.
var dotSyms = []string{"Pi", "Sqrt", "MaxInt8", "Inf"}

func (g *pg) qual(typ bool) string {
	if !typ && g.n("dotimported", 0, 7) == 0 {
		g.dot = true
		return g.pick("dotsym", dotSyms)
	}
	n := g.pick("pkg", pkgNames)
	p := pkgs[n]
	g.used[n] = true
	if typ && len(p.types) > 0 {
		return n + "." + g.pick("ptype", p.types)
	}
	return n + "." + g.pick("psym", p.syms)
}

// ---- literals ----

var intLits = []string{"0", "1", "7", "42", "255", "1_000", "0x7f", "0XFF", "0o17", "017", "0b1011", "9223372036854775807", "9223372036854775808", "18446744073709551615", "340282366920938463463374607431768211456", "0x1p4", "00"}
var floatLits = []string{"0.0", "1.5", "3.14159", "1e6", "1e-7", "1E+21", "2.5e-3", ".5", "5.", "1_0.2_5", "0x1.8p1", "1e400", "123456789.123456789123456789", "0.1", "1e21", "1e20", "4.9e-324", "1.7976931348623157e308", "0.000001", "100000.0"}
var imagLits = []string{"1i", "2.5i", "0i", "1e3i", "0x10i",
	// complex constants the way fmt writes them (the translator may build these through Lit(complex128))
	"(1 + 2i)", "(0.5 - 0.25i)", "(1 + 3.141592653589793i)", "(0.1 + 0.30000000000000004i)", "(2 - 1.6777217e+07i)", "(0 + 1e+300i)", "(3 + 5e-324i)", "(1.7976931348623157e+308 + 0.3333333333333333i)", "(1e+06 - 1e-07i)"}
var charLits = []string{"'a'", "'\\n'", "'\\''", "'\\\\'", "'\\x41'", "'\\u00e9'", "'\\U0001F600'", "'日'", "'\\000'", "'\"'", "'\\t'", "'`'"}
var strLits = []string{`""`, `"a"`, `"hello, world"`, `"q\"uote"`, `"new\nline"`, `"\x00\xff"`, `"\u00e9\U0001F600"`, "`raw`", "`multi\nline`", "`back\\slash \"q\"`", `"tab\there"`, `"/* not a comment */"`, `"// nor this"`, "``", `"日本語"`, `"\\"`, `"%d %s"`, `"{}"`}

func (g *pg) lit() string {
	switch g.n("litkind", 0, 9) {
	case 0, 1, 2:
		return g.pick("int", intLits)
	case 3, 4:
		return g.pick("float", floatLits)
	case 5:
		return g.pick("imag", imagLits)
	case 6:
		return g.pick("char", charLits)
	case 7, 8:
		return g.pick("str", strLits)
	}
	return strconv.Itoa(g.n("smallint", 0, 100000))
}

// ---- types ----

func (g *pg) typ(d int) string {
	if d <= 0 {
		if g.n("qt", 0, 6) == 0 {
			return g.qual(true)
		}
		return g.pick("tname", typeNames)
	}
	switch g.n("typekind", 0, 13) {
	case 0:
		return "*" + g.typ(d-1)
	case 1:
		return "[]" + g.typ(d-1)
	case 2:
		return "[" + g.pick("alen", []string{"4", "N", "2*3", "len(x)", "0"}) + "]" + g.typ(d-1)
	case 3:
		return "map[" + g.typ(d-1) + "]" + g.typ(d-1)
	case 4:
		el := g.typ(d - 1)
		switch g.n("chandir", 0, 2) {
		case 0:
			if strings.HasPrefix(el, "<-") {
				el = "(" + el + ")"
			}
			return "chan " + el
		case 1:
			return "<-chan " + el
		}
		return "chan<- " + el
	case 5:
		return g.funcType(d-1, false)
	case 6:
		return g.structType(d - 1)
	case 7:
		return g.ifaceType(d-1, false)
	case 8: // generic instantiation
		k := g.n("ntargs", 1, 3)
		var as []string
		for i := 0; i < k; i++ {
			as = append(as, g.typ(d-1))
		}
		return g.pick("generic", []string{"List", "Map", "Pair", "Set"}) + "[" + strings.Join(as, ", ") + "]"
	case 9:
		return "(" + g.typ(d-1) + ")"
	}
	return g.typ(0)
}

func (g *pg) params(d int, allowVariadic bool) string {
	k := g.arity("nparams")
	if k > 6 {
		k = 6
	}
	named := g.flip("namedparams")
	var ps []string
	for i := 0; i < k; i++ {
		t := g.typ(d)
		if allowVariadic && i == k-1 && g.n("variadic", 0, 4) == 0 {
			t = "..." + t
		}
		if named {
			names := "p" + strconv.Itoa(i)
			if g.n("multiname", 0, 4) == 0 {
				names += ", q" + strconv.Itoa(i)
			}
			ps = append(ps, names+" "+t)
		} else {
			ps = append(ps, t)
		}
	}
	return "(" + strings.Join(ps, ", ") + ")"
}

func (g *pg) results(d int) string {
	switch g.n("results", 0, 4) {
	case 0, 1:
		return ""
	case 2:
		return " " + g.typ(d)
	case 3:
		return " (" + g.typ(d) + ", " + g.typ(0) + ")"
	}
	return " (r0 " + g.typ(d) + ", r1, r2 error)"
}

func (g *pg) funcType(d int, method bool) string {
	s := g.params(d, true) + g.results(d)
	if method {
		return s
	}
	return "func" + s
}

func (g *pg) structType(d int) string {
	k := g.arity("nfields")
	if k == 0 {
		return "struct{}"
	}
	var fs []string
	for i := 0; i < k; i++ {
		var f string
		switch g.n("fieldkind", 0, 5) {
		case 0: // embedded
			f = g.pick("embed", []string{"T", "*U", "Node"}) + strings.Repeat("x", i)
			if g.flip("embedq") {
				f = g.qual(true)
			}
		case 1:
			f = "A" + strconv.Itoa(i) + ", B" + strconv.Itoa(i) + " " + g.typ(d)
		default:
			f = g.pick("fname", fieldNames) + strconv.Itoa(i) + " " + g.typ(d)
		}
		if g.n("tag", 0, 3) == 0 {
			f += " " + g.pick("tagtext", []string{"`json:\"a\"`", "`json:\"name,omitempty\" xml:\"n\"`", "\"raw tag\"", "`db:\"x\" json:\"-\"`", "`a:\"b c\"`", "`yaml:\"q\\\"uote\"`", "`json:\"Ελλάδα\"`", "`k:\"色は匂へど\" é:\"ü\"`", "`json:\"tab\\there\" b:\"\"`", "`a:\"100%\" %:\"%d\"`", "`x:\"\u00a0\u2028\"`"})
		}
		fs = append(fs, f)
	}
	return "struct {\n" + strings.Join(fs, "\n") + "\n}"
}

func (g *pg) ifaceType(d int, constraint bool) string {
	k := g.arity("nmethods")
	if k > 5 {
		k = 5
	}
	if k == 0 {
		return "interface{}"
	}
	var ms []string
	for i := 0; i < k; i++ {
		switch g.n("elemkind", 0, 4) {
		case 0:
			ms = append(ms, g.pick("embediface", []string{"error", "fmtStringer", "comparable", "Reader"}))
		case 1:
			if constraint {
				var us []string
				for j := g.n("nunion", 1, 4); j > 0; j-- {
					u := g.pick("uterm", []string{"int", "string", "float64", "int8", "uint", "[]byte"})
					if g.flip("tilde") {
						u = "~" + u
					}
					us = append(us, u)
				}
				ms = append(ms, strings.Join(us, " | "))
				continue
			}
			fallthrough
		default:
			ms = append(ms, "M"+strconv.Itoa(i)+g.funcType(d, true))
		}
	}
	return "interface {\n" + strings.Join(ms, "\n") + "\n}"
}

// ---- expressions ----

var binOps = []struct {
	op   string
	prec int
}{{"||", 1}, {"&&", 2}, {"==", 3}, {"!=", 3}, {"<", 3}, {"<=", 3}, {">", 3}, {">=", 3}, {"+", 4}, {"-", 4}, {"|", 4}, {"^", 4}, {"*", 5}, {"/", 5}, {"%", 5}, {"<<", 5}, {">>", 5}, {"&", 5}, {"&^", 5}}

// expr returns an expression that can stand as an operand of a binary
// operator of precedence prec (0 = anywhere).
func (g *pg) expr(d, prec int) string {
	if d <= 0 {
		return g.primary(0)
	}
	switch g.n("exprkind", 0, 9) {
	case 0, 1, 2:
		op := binOps[g.n("binop", 0, len(binOps)-1)]
		s := g.expr(d-1, op.prec) + " " + op.op + " " + g.expr(d-1, op.prec+1)
		if op.prec < prec {
			return "(" + s + ")"
		}
		return s
	case 3:
		op := g.pick("unop", []string{"-", "+", "!", "^", "*", "&", "<-"})
		x := g.unaryOperand(d - 1)
		// `- -x` and `& &x` must not fuse into `--` / `&&`; `<- <-ch` is fine with a space
		return op + x
	}
	return g.primary(d)
}

func (g *pg) unaryOperand(d int) string {
	x := g.primary(d)
	if strings.HasPrefix(x, "-") || strings.HasPrefix(x, "+") || strings.HasPrefix(x, "&") || strings.HasPrefix(x, "<") {
		return "(" + x + ")"
	}
	return x
}

func (g *pg) args(d int) string {
	k := g.arity("nargs")
	var as []string
	for i := 0; i < k; i++ {
		as = append(as, g.expr(d, 0))
	}
	s := strings.Join(as, ", ")
	if k > 0 && g.n("ellipsis", 0, 7) == 0 {
		// `7...` would lex as the float `7.` followed by `..`
		if c := s[len(s)-1]; c >= '0' && c <= '9' || c == '.' || c >= 'a' && c <= 'f' || c >= 'A' && c <= 'F' || c == 'i' || c == 'p' || c == '_' {
			s += " "
		}
		s += "..."
	}
	return s
}

// primary returns a primary expression (usable as operand of selectors, calls, indexing).
func (g *pg) primary(d int) string {
	if d <= 0 {
		switch g.n("leaf", 0, 5) {
		case 0, 1:
			return g.pick("var", vars)
		case 2, 3:
			return g.lit()
		case 4:
			return g.qual(false)
		}
		return g.pick("const", []string{"nil", "true", "false", "iota"})
	}
	switch g.n("primarykind", 0, 15) {
	case 0:
		return g.operand(d-1) + "(" + g.args(d-1) + ")"
	case 1:
		return g.operand(d-1) + "[" + g.expr(d-1, 0) + "]"
	case 2: // slices with every subset of omitted operands
		x := g.operand(d - 1)
		lo, hi := "", ""
		if g.flip("lo") {
			lo = g.expr(d-1, 0)
		}
		if g.flip("hi") {
			hi = g.expr(d-1, 0)
		}
		if g.n("slice3", 0, 3) == 0 {
			return x + "[" + lo + ":" + g.expr(d-1, 0) + ":" + g.expr(d-1, 0) + "]"
		}
		return x + "[" + lo + ":" + hi + "]"
	case 3:
		return g.operand(d-1) + "." + g.pick("sel", fieldNames)
	case 4:
		return g.operand(d-1) + ".(" + g.typ(d-1) + ")"
	case 5:
		return g.compositeLit(d - 1)
	case 6:
		return "func" + g.params(d-1, true) + g.results(d-1) + " " + g.block(d-1)
	case 7: // conversion
		t := g.typ(d - 1)
		if strings.HasPrefix(t, "*") || strings.HasPrefix(t, "<-") || strings.Contains(t, "func") || strings.Contains(t, "chan") {
			t = "(" + t + ")"
		}
		return t + "(" + g.expr(d-1, 0) + ")"
	case 8:
		return "(" + g.expr(d-1, 0) + ")"
	case 9: // generic instantiation + call
		return g.pick("gfn", []string{"Map", "Filter", "Zero"}) + "[" + g.typ(0) + ", " + g.typ(d-1) + "](" + g.args(d-1) + ")"
	case 10:
		return g.pick("builtin", []string{"len", "cap", "new", "make", "append", "panic", "min", "max", "copy", "delete", "complex", "real", "imag", "clear", "close", "print", "println", "recover"}) + "(" + g.builtinArgs(d-1) + ")"
	case 11:
		return g.compositeLit(d-1) + g.pick("litsuffix", []string{"[0]", ".F", "[1:]", ""})
	}
	return g.primary(0)
}

func (g *pg) builtinArgs(d int) string {
	k := g.n("nbargs", 0, 3)
	var as []string
	for i := 0; i < k; i++ {
		if i == 0 && g.n("typearg", 0, 3) == 0 {
			as = append(as, g.typ(d))
			continue
		}
		as = append(as, g.expr(d, 0))
	}
	return strings.Join(as, ", ")
}

// operand is a primary expression that is safe in front of a selector / call / index.
func (g *pg) operand(d int) string {
	x := g.primary(d)
	if strings.ContainsAny(x[:1], "-+!^*&<") || strings.HasPrefix(x, "func") || isNumber(x) {
		return "(" + x + ")"
	}
	return x
}

func isNumber(s string) bool {
	return s != "" && (s[0] >= '0' && s[0] <= '9' || s[0] == '.')
}

func (g *pg) compositeLit(d int) string {
	var t string
	kind := g.n("clkind", 0, 5)
	switch kind {
	case 0:
		t = "[]" + g.typ(d)
	case 1:
		t = "map[string]" + g.typ(d)
	case 2:
		t = "[...]" + g.typ(0)
	case 3:
		t = g.pick("cltype", []string{"T", "Node", "Pair[int, string]"})
		if g.header > 0 && strings.Contains(t, "[") {
			atomic.AddInt64(&ExcludedKnown, 1)
			t = "T"
		}
		if g.flip("qualtype") {
			t = g.qual(true)
		}
	case 4:
		t = "struct{ X, Y int }"
	default:
		t = "[][]int"
	}
	k := g.arity("nelts")
	var es []string
	for i := 0; i < k; i++ {
		var v string
		if kind == 5 || (d > 0 && g.n("elided", 0, 4) == 0) {
			v = "{" + g.expr(0, 0) + ", " + g.expr(0, 0) + "}"
		} else {
			v = g.expr(d, 0)
		}
		switch kind {
		case 1:
			es = append(es, g.pick("mapkey", strLits)+": "+v)
		case 3, 4:
			if g.flip("keyed") {
				es = append(es, g.pick("fieldkey", []string{"X", "Y", "Name", "F"})+strconv.Itoa(i)+": "+v)
			} else {
				es = append(es, v)
			}
		case 0, 2:
			if g.n("indexed", 0, 4) == 0 {
				es = append(es, strconv.Itoa(i*2)+": "+v)
			} else {
				es = append(es, v)
			}
		default:
			es = append(es, v)
		}
	}
	if k > 2 && g.flip("multiline") {
		return t + "{\n" + strings.Join(es, ",\n") + ",\n}"
	}
	return t + "{" + strings.Join(es, ", ") + "}"
}

// hdr returns an expression usable in an if/for/switch header: a composite
// literal there must be parenthesised.
func (g *pg) hdr(d int) string {
	g.header++
	defer func() { g.header-- }()
	e := g.expr(d, 0)
	if strings.Contains(e, "{") {
		return "(" + e + ")"
	}
	return e
}

// ---- statements ----

func (g *pg) block(d int) string {
	k := g.arity("nstmts")
	if d <= 0 && k > 2 {
		k = 2
	}
	if k == 0 {
		return "{}"
	}
	var ss []string
	for i := 0; i < k; i++ {
		ss = append(ss, g.stmt(d))
	}
	if g.n("labelend", 0, 9) == 0 {
		ss = append(ss, g.pick("label", labels)+"e:")
	}
	return "{\n" + strings.Join(ss, "\n") + "\n}"
}

func (g *pg) simpleStmt(d int) string {
	switch g.n("simplekind", 0, 6) {
	case 0:
		return g.pick("lhs", vars) + " := " + g.expr(d, 0)
	case 1:
		return g.pick("lhs", vars) + ", " + g.pick("lhs2", vars) + " = " + g.expr(d, 0) + ", " + g.expr(d, 0)
	case 2:
		return g.pick("lhs", vars) + g.pick("incdec", []string{"++", "--"})
	case 3:
		return g.pick("lhs", vars) + " " + g.pick("asgop", []string{"+=", "-=", "*=", "/=", "%=", "&=", "|=", "^=", "<<=", ">>=", "&^="}) + " " + g.expr(d, 0)
	case 4:
		return g.pick("chan", []string{"ch", "done"}) + " <- " + g.expr(d, 0)
	case 5:
		return g.operand(d) + "(" + g.args(d) + ")"
	}
	return g.pick("lhs", vars) + "[" + g.expr(0, 0) + "] = " + g.expr(d, 0)
}

func (g *pg) hdrSimple(d int) string {
	g.header++
	defer func() { g.header-- }()
	s := g.simpleStmt(d)
	if strings.Contains(s, "{") {
		return g.pick("lhs", vars) + " := " + g.pick("var", vars)
	}
	return s
}

func (g *pg) stmt(d int) string {
	if d <= 0 {
		switch g.n("leafstmt", 0, 4) {
		case 0:
			return "return"
		case 1:
			return g.pick("branch", []string{"break", "continue", "fallthrough", "goto L", "break Loop", "continue Loop"})
		}
		return g.simpleStmt(0)
	}
	switch g.n("stmtkind", 0, 19) {
	case 0, 1:
		return g.simpleStmt(d - 1)
	case 2:
		s := "if "
		if g.n("ifinit", 0, 3) == 0 {
			s += g.hdrSimple(d-1) + "; "
		}
		s += g.hdr(d-1) + " " + g.block(d-1)
		for i := g.n("elseifs", 0, 2); i > 0; i-- {
			s += " else if " + g.hdr(d-1) + " " + g.block(d-1)
		}
		if g.flip("else") {
			s += " else " + g.block(d-1)
		}
		return s
	case 3: // for with every subset of clauses
		switch g.n("forkind", 0, 7) {
		case 0:
			return "for " + g.block(d-1)
		case 1:
			return "for " + g.hdr(d-1) + " " + g.block(d-1)
		case 2:
			init, cond, post := "", "", ""
			if g.flip("init") {
				init = g.hdrSimple(d - 1)
			}
			if g.flip("cond") {
				cond = " " + g.hdr(d-1)
			}
			if g.flip("post") {
				post = " " + g.pick("lhs", vars) + "++"
			}
			return "for " + init + ";" + cond + ";" + post + " " + g.block(d-1)
		case 3:
			return "for " + g.pick("k", vars) + ", " + g.pick("v", vars) + " := range " + g.hdr(d-1) + " " + g.block(d-1)
		case 4:
			return "for " + g.pick("k", vars) + " = range " + g.hdr(d-1) + " " + g.block(d-1)
		case 5:
			return "for range " + g.hdr(d-1) + " " + g.block(d-1)
		case 6:
			return "for " + g.pick("k", vars) + " := range " + g.pick("rangeint", []string{"10", "n", "ch"}) + " " + g.block(d-1)
		}
		return g.pick("label", labels) + ":\nfor " + g.block(d-1)
	case 4: // expression switch
		s := "switch "
		if g.n("swinit", 0, 3) == 0 {
			s += g.hdrSimple(d-1) + "; "
		}
		if g.flip("swtag") {
			s += g.hdr(d-1) + " "
		}
		return s + g.clauses(d-1, false)
	case 5: // type switch
		s := "switch "
		if g.n("tsinit", 0, 4) == 0 {
			s += g.hdrSimple(d-1) + "; "
		}
		if g.flip("tsbind") {
			s += g.pick("tsvar", vars) + " := "
		}
		return s + g.pick("tsx", vars) + ".(type) " + g.clauses(d-1, true)
	case 6: // select
		k := g.n("ncomm", 0, 4)
		var cs []string
		for i := 0; i < k; i++ {
			var c string
			switch g.n("commkind", 0, 3) {
			case 0:
				c = "case " + g.pick("chan", []string{"ch", "done"}) + " <- " + g.expr(d-1, 0) + ":"
			case 1:
				c = "case " + g.pick("v", vars) + " := <-" + g.pick("chan", []string{"ch", "done"}) + ":"
			case 2:
				c = "case " + g.pick("v", vars) + ", " + g.pick("ok", vars) + " = <-" + g.pick("chan", []string{"ch", "done"}) + ":"
			default:
				c = "case <-" + g.pick("chan", []string{"ch", "done"}) + ":"
			}
			cs = append(cs, c+g.caseBody(d-1))
		}
		if g.flip("seldefault") {
			cs = append(cs, "default:"+g.caseBody(d-1))
		}
		return "select {\n" + strings.Join(cs, "\n") + "\n}"
	case 7:
		k := g.arity("nresults")
		if k > 4 {
			k = 4
		}
		var rs []string
		for i := 0; i < k; i++ {
			rs = append(rs, g.expr(d-1, 0))
		}
		if k == 0 {
			return "return"
		}
		return "return " + strings.Join(rs, ", ")
	case 8:
		return g.pick("godefer", []string{"go ", "defer "}) + g.operand(d-1) + "(" + g.args(d-1) + ")"
	case 9:
		return g.pick("godefer", []string{"go ", "defer "}) + "func" + g.params(0, false) + " " + g.block(d-1) + "(" + g.args(0) + ")"
	case 10:
		return g.block(d - 1)
	case 11:
		return g.localDecl(d - 1)
	case 12:
		return g.pick("label", labels) + ":\n" + g.stmt(d-1)
	case 13:
		return g.pick("label", labels) + ": ;"
	case 14:
		return g.pick("branch", []string{"break", "continue", "goto L", "break Loop", "continue Loop", "fallthrough"})
	}
	return g.simpleStmt(d - 1)
}

func (g *pg) caseBody(d int) string {
	k := g.n("ncasestmts", 0, 3)
	if k == 0 {
		return "" // empty case body
	}
	var ss []string
	for i := 0; i < k; i++ {
		ss = append(ss, g.stmt(d))
	}
	return "\n" + strings.Join(ss, "\n")
}

func (g *pg) clauses(d int, types bool) string {
	k := g.n("nclauses", 0, 5)
	var cs []string
	def := g.n("defaultat", -1, k)
	for i := 0; i < k; i++ {
		if i == def {
			cs = append(cs, "default:"+g.caseBody(d))
		}
		m := g.arity("ncaseexprs")
		if m == 0 {
			m = 1
		}
		var es []string
		for j := 0; j < m; j++ {
			if types {
				es = append(es, g.typ(g.n("casetypedepth", 0, 1)))
			} else {
				es = append(es, g.expr(d, 0))
			}
		}
		cs = append(cs, "case "+strings.Join(es, ", ")+":"+g.caseBody(d))
	}
	if def == k {
		cs = append(cs, "default:"+g.caseBody(d))
	}
	if len(cs) == 0 {
		return "{}"
	}
	return "{\n" + strings.Join(cs, "\n") + "\n}"
}

// ---- declarations ----

func (g *pg) valueSpec(d int, kw string, idx int) string {
	name := g.pick("declname", []string{"A", "b", "Cc", "d_", "E"}) + strconv.Itoa(idx)
	switch g.n("speckind", 0, 5) {
	case 0:
		return name + " = " + g.expr(d, 0)
	case 1:
		return name + " " + g.typ(d) + " = " + g.expr(d, 0)
	case 2:
		if kw == "var" {
			return name + " " + g.typ(d)
		}
		return name + " = iota"
	case 3:
		return name + ", " + name + "b = " + g.expr(d, 0) + ", " + g.expr(0, 0)
	case 4:
		if kw == "const" {
			return name // implicit repetition
		}
		return name + ", " + name + "c " + g.typ(0)
	}
	return name + " = " + g.lit()
}

func (g *pg) typeSpec(d int, idx int) string {
	name := g.pick("typename", []string{"T", "U", "Node", "Opt"}) + strconv.Itoa(idx)
	tp := ""
	switch g.n("tparams", 0, 7) {
	case 0:
		tp = "[K comparable, V any]"
	case 1:
		tp = "[T any]"
	case 2:
		tp = "[T " + g.ifaceType(0, true) + "]"
	case 3:
		tp = "[P *T,]" // needs the comma: `[P *T]` would be an array length
	case 4:
		tp = "[A, B ~int | ~string, C interface{ M() }]"
	}
	if tp == "" && g.n("alias", 0, 4) == 0 {
		return name + " = " + g.typ(d)
	}
	return name + tp + " " + g.typ(d)
}

func (g *pg) genDecl(d int) string {
	kw := g.pick("declkw", []string{"var", "const", "type"})
	spec := func(i int) string {
		if kw == "type" {
			return g.typeSpec(d, i)
		}
		s := g.valueSpec(d, kw, i)
		if kw == "const" && i == 0 && !strings.Contains(s, "=") {
			s += " = iota"
		}
		return s
	}
	if g.n("grouped", 0, 2) == 0 {
		k := g.arity("nspecs")
		var ss []string
		for i := 0; i < k; i++ {
			ss = append(ss, spec(i))
		}
		if k == 0 {
			return kw + " ()"
		}
		return kw + " (\n" + strings.Join(ss, "\n") + "\n)"
	}
	s := spec(0)
	if kw == "const" && !strings.Contains(s, "=") {
		s += " = 1"
	}
	return kw + " " + s
}

func (g *pg) localDecl(d int) string { return g.genDecl(d) }

func (g *pg) funcDecl(d int) string {
	s := "func "
	switch g.n("recv", 0, 5) {
	case 0:
		s += "(r *T) "
	case 1:
		s += "(l List[T]) "
	case 2:
		s += "(_ " + g.qual(true) + ") "
	case 3:
		s += "(*Node[K, V]) "
	}
	s += g.pick("funcname", []string{"f", "Do", "String", "run_1", "init"})
	if !strings.Contains(s, "(") && g.n("ftparams", 0, 3) == 0 {
		s += "[T any, U " + g.ifaceType(0, true) + "]"
	}
	s += g.params(d, true) + g.results(d)
	if g.n("nobody", 0, 9) == 0 {
		return s
	}
	return s + " " + g.block(d)
}

func (g *pg) decl() string {
	d := g.n("depth", 1, g.max)
	switch g.n("declkind", 0, 4) {
	case 0, 1:
		return g.funcDecl(d)
	}
	return g.genDecl(d)
}
