// Package gen holds the rapid generators shared by several checks: random
// DSL trees over every exported construct (valid Go or not), plausible small
// programs, File settings, texts.
package gen

import (
	"fmt"
	"strings"

	"pgregory.net/rapid"

	"verif/internal/recipe"
)

var constructs = recipe.Constructs()

var idNames = []string{"x", "y", "foo", "T", "i", "err", "ok", "_", "a1", "é", "f", "v", "String", "len", "0XFF", "1E6", "0B1010", "0O17", "0X1P-2", "1_000", "0x1F", "017", "1i"}
var opNames = []string{"+", "-", "*", "/", ":=", "=", "==", "!=", "<", "&&", "||", "!", "&", "<-", "...", ":", ";", ".", ",", "++", "+=", "|", "~", "(", ")", "{", "}"}
var hostileStr = []string{"%d", "100%", "%%", "%!s(MISSING)", "", " ", "\n", "\"", "`", "//", "/*", "*/", "{", "}", "a b", "x\ny", "\x00", "\xff", "日本", "package", "func()", "1e", "0x", "'", "\\", "\t", ";"}
var paths = []string{"fmt", "os", "math/rand", "crypto/rand", "a/d", "b/d", "x.y/z", "github.com/u/pkg", "C", "", "strings", "a/b/v2", "x.y/api/2024", "x.y/7", "x.y/日本語", "x.y/-", "a/d/"}

// Str draws a string argument: mostly plausible for its role, sometimes arbitrary.
func Str(t *rapid.T, role string) string {
	k := rapid.IntRange(0, 9).Draw(t, "strkind")
	switch {
	case k == 0:
		return rapid.SampledFrom(hostileStr).Draw(t, "hostile")
	case k == 1:
		return rapid.String().Draw(t, "anystr")
	}
	switch role {
	case "Op":
		return rapid.SampledFrom(opNames).Draw(t, "op")
	case "Comment":
		return rapid.SampledFrom([]string{"a comment", "two\nlines", "with } brace", "trailing *", "// raw", "/* raw */", "x := 1", ""}).Draw(t, "comment")
	case "path":
		if rapid.IntRange(0, 9).Draw(t, "freshpath") == 4 {
			// a path this process has not seen before (what a first use computes must be what later uses get),
			// ending in an element the alias guesser can make nothing of, or in an ordinary one
			return fmt.Sprintf("n%d.example/%s", rapid.IntRange(0, 1<<30).Draw(t, "nonce"), rapid.SampledFrom([]string{"7", "2024", "日本語", "-", "d", "go", "int"}).Draw(t, "freshlast"))
		}
		return rapid.SampledFrom(paths).Draw(t, "path")
	}
	return rapid.SampledFrom(idNames).Draw(t, "id")
}

// Str2 draws the import path of a plausible program: the usual suspects, paths whose guessed alias needs
// help, and now and then a path this process has not seen before.
func Str2(t *rapid.T) string {
	if rapid.IntRange(0, 9).Draw(t, "freshqpath") == 4 {
		return fmt.Sprintf("n%d.example/%s", rapid.IntRange(0, 1<<30).Draw(t, "qnonce"), rapid.SampledFrom([]string{"7", "2024", "日本語", "-", "d", "go", "int"}).Draw(t, "qfreshlast"))
	}
	return rapid.SampledFrom([]string{"fmt", "os", "a/d", "b/d", "math/rand", "crypto/rand", "x.y/z", "x.y/api/2024", "x.y/7", "x.y/日本語"}).Draw(t, "qpath")
}

// Val draws a value of a type Lit supports.
func Val(t *rapid.T) *recipe.Value {
	switch rapid.IntRange(0, 11).Draw(t, "valkind") {
	case 0:
		return recipe.V(rapid.Bool().Draw(t, "b"))
	case 1:
		return recipe.V(Str(t, "lit"))
	case 2:
		return recipe.V(rapid.Int().Draw(t, "int"))
	case 3:
		return recipe.V(rapid.Float64Range(-1e6, 1e6).Draw(t, "f"))
	case 4:
		return recipe.V(int8(rapid.IntRange(-128, 127).Draw(t, "i8")))
	case 5:
		return recipe.V(uint16(rapid.IntRange(0, 65535).Draw(t, "u16")))
	case 6:
		return recipe.V(float32(rapid.Float64Range(-100, 100).Draw(t, "f32")))
	case 7:
		return recipe.V(complex(rapid.Float64Range(-9, 9).Draw(t, "re"), rapid.Float64Range(-9, 9).Draw(t, "im")))
	case 8:
		return recipe.V(uintptr(rapid.IntRange(0, 1<<20).Draw(t, "up")))
	case 9:
		return recipe.V(int64(rapid.Int64().Draw(t, "i64")))
	case 10:
		return recipe.V(uint64(rapid.Uint64().Draw(t, "u64")))
	}
	return recipe.V(rapid.IntRange(-5, 5).Draw(t, "small"))
}

// Tree draws a random statement node over every exported construct.
func Tree(t *rapid.T, depth, width int) *recipe.Node {
	n := recipe.S()
	ncalls := rapid.IntRange(1, 4).Draw(t, "ncalls")
	for i := 0; i < ncalls; i++ {
		n.Calls = append(n.Calls, call(t, depth, width))
	}
	return n
}

func items(t *rapid.T, depth, width, min int) []*recipe.Node {
	if depth <= 0 {
		width = min
	}
	k := min
	if width > min {
		k = rapid.IntRange(min, width).Draw(t, "nitems")
	}
	var out []*recipe.Node
	for i := 0; i < k; i++ {
		switch rapid.IntRange(0, 11).Draw(t, "itemkind") {
		case 0:
			out = append(out, recipe.Nil())
		case 1:
			out = append(out, recipe.Null())
		default:
			out = append(out, Tree(t, depth-1, width))
		}
	}
	return out
}

func call(t *rapid.T, depth, width int) recipe.Call {
	s := rapid.SampledFrom(constructs).Draw(t, "construct")
	return CallFor(t, s, depth, width)
}

// CallFor draws arguments for one given construct.
func CallFor(t *rapid.T, s recipe.Sig, depth, width int) recipe.Call {
	c := recipe.Call{Fn: s.Name}
	for _, p := range s.Params {
		switch p {
		case recipe.PString:
			role := s.Name
			if s.Name == "Qual" && len(c.Str) == 0 {
				role = "path"
			}
			if s.Name == "Commentf" {
				c.Str = append(c.Str, recipe.Text(rapid.SampledFrom([]string{"plain", "n=%d", "%s and %v", "100%%", "two\nlines %d"}).Draw(t, "fmt")))
				continue
			}
			c.Str = append(c.Str, recipe.Text(Str(t, role)))
		case recipe.PCode:
			c.Items = append(c.Items, items(t, depth, 1, 1)...)
		case recipe.PCodes:
			its := items(t, depth, width, 0)
			if s.Name == "Values" && rapid.IntRange(0, 3).Draw(t, "dict") == 0 {
				its = []*recipe.Node{Dict(t, depth-1, width)}
			}
			c.Items = append(c.Items, its...)
		case recipe.PAny:
			c.Val = Val(t)
		case recipe.PAnys:
			k := strings.Count(string(c.Str[0]), "%") - 2*strings.Count(string(c.Str[0]), "%%")
			for i := 0; i < k; i++ {
				c.Args = append(c.Args, recipe.V(rapid.IntRange(0, 99).Draw(t, "farg")))
			}
		case recipe.PRune:
			c.Val = recipe.Rune(rapid.Rune().Draw(t, "rune"))
			if rapid.IntRange(0, 7).Draw(t, "oddrune") == 3 {
				// values that are no code points (a rune is any int32): whatever LitRune makes of them, every form
				// of it makes the same
				c.Val = recipe.Rune(rapid.SampledFrom([]rune{0xD800, 0xDFFF, 0x110000, -1, 0x7fffffff, 0xFFFD, 0}).Draw(t, "oddrunevalue"))
			}
		case recipe.PByte:
			c.Val = recipe.Byte(rapid.Byte().Draw(t, "byte"))
		case recipe.PTagMap:
			k := rapid.IntRange(0, 3).Draw(t, "ntag")
			for i := 0; i < k; i++ {
				c.Tag = append(c.Tag, recipe.TagKV{K: recipe.Text(rapid.SampledFrom([]string{"json", "xml", "db", "a"}).Draw(t, "tagk") + strings.Repeat("x", i)), V: recipe.Text(Str(t, "tag"))})
			}
		case recipe.POptions:
			if rapid.IntRange(0, 5).Draw(t, "zerooptions") == 0 {
				c.Opts = &recipe.Opts{} // the zero Options: no delimiters, nothing between the items
				continue
			}
			c.Opts = &recipe.Opts{
				Open:      recipe.Text(rapid.SampledFrom([]string{"", "(", "[", "{", "<", "begin "}).Draw(t, "open")),
				Close:     recipe.Text(rapid.SampledFrom([]string{"", ")", "]", "}", ">", " end"}).Draw(t, "close")),
				Separator: recipe.Text(rapid.SampledFrom([]string{"", ",", ";", "|", " "}).Draw(t, "sep")),
				Multi:     rapid.Bool().Draw(t, "multi"),
			}
		case recipe.PFuncStmt: // Do(func(*Statement)): the callback applies the calls of Items[0]
			c.Items = []*recipe.Node{Tree(t, depth-1, width)}
		}
	}
	return c
}

// Dict draws a Dict node.
func Dict(t *rapid.T, depth, width int) *recipe.Node {
	k := rapid.IntRange(0, 4).Draw(t, "npairs")
	d := &recipe.Node{Kind: recipe.KDict, ViaFunc: rapid.Bool().Draw(t, "viafunc")}
	for i := 0; i < k; i++ {
		key := Tree(t, 0, 0)
		if rapid.IntRange(0, 5).Draw(t, "nullkey") == 0 {
			key = recipe.Null()
		}
		var v *recipe.Node
		switch rapid.IntRange(0, 5).Draw(t, "vk") {
		case 0:
			v = recipe.Null()
		case 1:
			v = recipe.Nil()
		default:
			v = Tree(t, depth-1, width)
		}
		d.Pairs = append(d.Pairs, recipe.Pair{K: key, V: v})
		if rapid.IntRange(0, 3).Draw(t, "samekeytext") == 0 {
			// a second pair whose key is another Code value that renders the same text, with a value of its own
			// (legal for non-constant keys; nonsense elsewhere — either way the rendering is a function of the pairs)
			d.Pairs = append(d.Pairs, recipe.Pair{K: key.Clone(), V: recipe.Lit(rapid.SampledFrom([]string{"primary", "fallback", "third"}).Draw(t, "samekeyvalue"))})
		}
	}
	return d
}

// ---- plausible programs: small, mostly valid Go built from the DSL ----

// UniqueKeys keeps the key texts of generated map literals distinct. Pairs whose keys render the same text
// are ordered by the rest of their content, so a check that changes that content (comments injected into the
// values) and expects the order to stay must switch the duplicates off.
var UniqueKeys bool

// Expr draws a plausible expression.
func Expr(t *rapid.T, depth int) *recipe.Node {
	if depth <= 0 {
		switch rapid.IntRange(0, 4).Draw(t, "leaf") {
		case 4: // a number spelled by the caller (gofmt normalises the spelling: 0XFF -> 0xFF, 1E6 -> 1e6)
			return recipe.S().C(rapid.SampledFrom([]string{"Id", "Op"}).Draw(t, "rawnum"), rapid.SampledFrom([]string{"0XFF", "1E6", "0B1010", "0O17", "0X1P-2", "0XABCp+3", "1E+2i", "0b1", "0o7"}).Draw(t, "num"))
		case 0:
			return recipe.Id(rapid.SampledFrom([]string{"x", "y", "z", "n"}).Draw(t, "var"))
		case 1:
			return recipe.S().C("Lit", Val(t))
		case 2:
			return recipe.Qual(Str2(t), rapid.SampledFrom([]string{"X", "Println", "Int"}).Draw(t, "qname"))
		}
		return recipe.S().C(rapid.SampledFrom([]string{"Nil", "True", "False", "Iota"}).Draw(t, "kw"))
	}
	switch rapid.IntRange(0, 9).Draw(t, "exprkind") {
	case 0:
		return Expr(t, depth-1).C("Op", rapid.SampledFrom([]string{"+", "-", "*", "==", "&&", "<", "%", "&^", "<<"}).Draw(t, "binop")).Add(Expr(t, depth-1))
	case 1:
		return Expr(t, 0).C("Call", exprs(t, depth-1, 0, 3))
	case 2:
		return recipe.S().C("Index").C("Int").C("Values", exprs(t, depth-1, 0, 4))
	case 3:
		return recipe.S().C("Parens", Expr(t, depth-1))
	case 4:
		return Expr(t, 0).C("Index", Expr(t, depth-1))
	case 5:
		return recipe.S().C("Op", rapid.SampledFrom([]string{"-", "!", "&", "*"}).Draw(t, "unop")).Add(Expr(t, depth-1))
	case 6:
		return recipe.S().C("Len", Expr(t, depth-1))
	case 7:
		var pairs []recipe.Pair
		k := rapid.IntRange(0, 3).Draw(t, "nkv")
		for i := 0; i < k; i++ {
			suffix := strings.Repeat("_", i)
			if rapid.IntRange(0, 2).Draw(t, "maydup") == 0 && !UniqueKeys {
				// (the key text may then repeat an earlier one: gofmt does not mind, and the output is still a
				// function of the pairs)
				suffix = ""
			}
			pairs = append(pairs, recipe.Pair{K: recipe.Lit(rapid.SampledFrom([]string{"a", "b", "c", "d"}).Draw(t, "k") + suffix), V: Expr(t, depth-1)})
		}
		return recipe.S().C("Map", recipe.S().C("String")).C("Interface").C("Values", recipe.Dict(pairs...))
	case 8:
		return recipe.S().C("Func").C("Params").C("Block", Stmts(t, depth-1, 2))
	}
	return Expr(t, 0).C("Dot", rapid.SampledFrom([]string{"F", "g", "Len"}).Draw(t, "sel"))
}

func exprs(t *rapid.T, depth, min, max int) []*recipe.Node {
	k := rapid.IntRange(min, max).Draw(t, "nexprs")
	var out []*recipe.Node
	for i := 0; i < k; i++ {
		out = append(out, Expr(t, depth))
	}
	return out
}

// Stmts draws a plausible statement list.
func Stmts(t *rapid.T, depth, max int) []*recipe.Node {
	k := rapid.IntRange(0, max).Draw(t, "nstmts")
	var out []*recipe.Node
	for i := 0; i < k; i++ {
		out = append(out, Stmt(t, depth))
	}
	return out
}

// Stmt draws a plausible statement.
func Stmt(t *rapid.T, depth int) *recipe.Node {
	if depth <= 0 {
		return recipe.Id("x").C("Op", "=").Add(Expr(t, 0))
	}
	switch rapid.IntRange(0, 9).Draw(t, "stmtkind") {
	case 0:
		return recipe.Id(rapid.SampledFrom([]string{"x", "y"}).Draw(t, "lhs")).C("Op", rapid.SampledFrom([]string{":=", "=", "+=", "%=", "&^="}).Draw(t, "asg")).Add(Expr(t, depth-1))
	case 1:
		return recipe.S().C("If", Expr(t, depth-1)).C("Block", Stmts(t, depth-1, 2))
	case 2:
		return recipe.S().C("If", Expr(t, depth-1)).C("Block", Stmts(t, depth-1, 2)).C("Else").C("Block", Stmts(t, depth-1, 2))
	case 3:
		return recipe.S().C("For", recipe.Id("i").C("Op", ":=").C("Lit", recipe.V(0)), recipe.Id("i").C("Op", "<").Add(Expr(t, 0)), recipe.Id("i").C("Op", "++")).C("Block", Stmts(t, depth-1, 2))
	case 4:
		return recipe.S().C("Return", exprs(t, depth-1, 0, 2))
	case 5:
		var clauses []*recipe.Node
		k := rapid.IntRange(0, 3).Draw(t, "nclauses")
		for i := 0; i < k; i++ {
			clauses = append(clauses, recipe.S().C("Case", exprs(t, 0, 1, 3)).C("Block", Stmts(t, depth-1, 2)))
		}
		if rapid.Bool().Draw(t, "default") {
			clauses = append(clauses, recipe.S().C("Default").C("Block", Stmts(t, depth-1, 1)))
		}
		return recipe.S().C("Switch", Expr(t, 0)).C("Block", clauses)
	case 6:
		return Expr(t, 0).C("Call", exprs(t, depth-1, 0, 3))
	case 7:
		return recipe.S().C("Var").C("Id", "v").C("Op", "=").Add(Expr(t, depth-1))
	case 8:
		return recipe.S().C("Defer").Add(Expr(t, 0).C("Call"))
	}
	return recipe.S().C("Go").Add(recipe.S().C("Func").C("Params").C("Block", Stmts(t, depth-1, 2)).C("Call"))
}

// Decl draws a plausible top-level declaration.
func Decl(t *rapid.T, depth int) *recipe.Node {
	switch rapid.IntRange(0, 4).Draw(t, "declkind") {
	case 0:
		return recipe.S().C("Var").C("Id", rapid.SampledFrom([]string{"A", "B", "c"}).Draw(t, "vname")).C("Op", "=").Add(Expr(t, depth))
	case 1:
		var fs []*recipe.Node
		k := rapid.IntRange(0, 4).Draw(t, "nfields")
		for i := 0; i < k; i++ {
			f := recipe.Id("F" + strings.Repeat("x", i)).Add(recipe.S().C(rapid.SampledFrom([]string{"Int", "String", "Bool"}).Draw(t, "ftype")))
			if rapid.Bool().Draw(t, "tagged") {
				tag := []recipe.TagKV{{K: "json", V: recipe.Text(Str(t, "tag"))}}
				if rapid.IntRange(0, 2).Draw(t, "casekeys") == 0 {
					// keys that differ in letter case only are different keys
					for _, k := range []string{"JSON", "Json", "xml", "XML"}[:rapid.IntRange(1, 4).Draw(t, "ncasekeys")] {
						tag = append(tag, recipe.TagKV{K: recipe.Text(k), V: recipe.Text(k + "-value")})
					}
				}
				f = f.C("Tag", tag)
			}
			fs = append(fs, f)
		}
		return recipe.S().C("Type").C("Id", "S").C("Struct", fs)
	case 2:
		var specs []*recipe.Node
		k := rapid.IntRange(0, 4).Draw(t, "nspecs")
		for i := 0; i < k; i++ {
			specs = append(specs, recipe.Id("c"+strings.Repeat("x", i)).C("Op", "=").Add(Expr(t, 0)))
		}
		return recipe.S().C("Const").C("Defs", specs)
	}
	return recipe.S().C("Func").C("Id", rapid.SampledFrom([]string{"f", "g", "Main"}).Draw(t, "fname")).C("Params", recipe.Id("x").C("Int")).C("Int").C("Block", Stmts(t, depth, 4))
}

// FileSettings draws constructor and configuration ops.
func FileSettings(t *rapid.T) *recipe.File {
	f := &recipe.File{}
	switch rapid.IntRange(0, 2).Draw(t, "ctor") {
	case 0:
		f.Ctor, f.Args = "NewFile", []recipe.Text{recipe.Text(rapid.SampledFrom([]string{"p", "main", "foo", "p", "main", "", "1x", "a b", "go", "ünï"}).Draw(t, "pkg"))}
	case 1:
		f.Ctor, f.Args = "NewFilePath", []recipe.Text{recipe.Text(rapid.SampledFrom([]string{"a/d", "x.y/z", "github.com/u/pkg", "mypkg"}).Draw(t, "lpath"))}
	case 2:
		f.Ctor, f.Args = "NewFilePathName", []recipe.Text{recipe.Text(rapid.SampledFrom([]string{"a/d", "x.y/z", "b/d"}).Draw(t, "lpath2")), recipe.Text(rapid.SampledFrom([]string{"p", "main", "p", "", "x-y"}).Draw(t, "pkg2"))}
	}
	op := func(name string, args ...string) {
		o := recipe.FileOp{Op: name}
		for _, a := range args {
			o.Args = append(o.Args, recipe.Text(a))
		}
		f.Ops = append(f.Ops, o)
	}
	n := rapid.IntRange(0, 5).Draw(t, "nsettings")
	for i := 0; i < n; i++ {
		switch rapid.IntRange(0, 8).Draw(t, "setting") {
		case 0:
			op("PackagePrefix", rapid.SampledFrom([]string{"", "pkg", "_"}).Draw(t, "pfx"))
		case 1:
			op("ImportName", rapid.SampledFrom(paths[:8]).Draw(t, "inp"), rapid.SampledFrom([]string{"d", "foo", "rand", "fmt"}).Draw(t, "inn"))
		case 2:
			op("ImportAlias", rapid.SampledFrom(paths[:8]).Draw(t, "iap"), rapid.SampledFrom([]string{"d", "foo", "rand", ".", "q"}).Draw(t, "ian"))
		case 3:
			op("HeaderComment", rapid.SampledFrom([]string{"Code generated. DO NOT EDIT.", "two\nlines", "// raw header", "trailing blanks   ", "// +build linux", "//go:build linux", "/* unterminated", "// a\nnot a comment", "\ttabbed", "", "//nospace", "/* a */ /* b */", "100% %d", "a */ b", "/*/", "/* closed */ /*/", "// x\n/* begin"}).Draw(t, "hdr"))
		case 4:
			op("PackageComment", rapid.SampledFrom([]string{"Package p does things.", "multi\nline doc", "// raw doc", "Deprecated:   spaced   ", "/* unterminated", "// a\nnot a comment", "", "# Heading\n\ttext", "%s", "/*/", "// x\n/* begin"}).Draw(t, "pc"))
		case 5:
			op("CanonicalPath", rapid.SampledFrom([]string{"example.com/p", "a b", "q\"r"}).Draw(t, "cp"))
		case 6:
			op("CgoPreamble", rapid.SampledFrom([]string{"#include <stdio.h>", "#include <a.h>\n#include <b.h>", "// #include <raw.h>", "/* unterminated", "#define M(a, b) ((a) % (b))   ", ""}).Draw(t, "cgo"))
		case 7:
			op("Anon", rapid.SampledFrom([]string{"embed", "x.y/anon", "C", "net/http/pprof"}).Draw(t, "anon"))
		case 8:
			m := map[string]string{}
			k := rapid.IntRange(1, 6).Draw(t, "nnames")
			for j := 0; j < k; j++ {
				m[rapid.SampledFrom(paths[:8]).Draw(t, "nmp")] = rapid.SampledFrom([]string{"d", "foo", "rand", "fmt", "z"}).Draw(t, "nmn")
			}
			delete(m, "")
			f.Ops = append(f.Ops, recipe.FileOp{Op: "ImportNames", Map: m})
		}
	}
	return f
}
