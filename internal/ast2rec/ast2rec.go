// Package ast2rec translates a parsed Go file into the recipe of jennifer
// calls that the documentation prescribes for each construct ("the documented
// element for each construct", DESIGN.md §5 C01).
package ast2rec

import (
	"fmt"
	"go/ast"
	"go/constant"
	"go/token"
	"math"
	"reflect"
	"sort"
	"strconv"
	"strings"

	"verif/internal/recipe"
)

// SkipError marks a file the translator cannot express (counted, never a violation).
type SkipError struct{ Why string }

func (s *SkipError) Error() string { return "skip: " + s.Why }

func skip(format string, a ...interface{}) { panic(&SkipError{fmt.Sprintf(format, a...)}) }

// Options configure the translation.
type Options struct {
	// RealName resolves the declared package name for an import path ("" = unknown).
	RealName func(path string) string
	// Std reports whether path is an importable package of the standard library (nil: unknown).
	Std func(path string) bool
	// Exported returns the exported top-level names of the package at path
	// (for dot-imports); nil, false when the directory cannot be found.
	Exported func(path string) (map[string]bool, bool)
	// Alt, when non-nil, lets the translator pick the documented alternative
	// forms: Values(Dict{...}) for keyed composite literals whose keys are
	// plain identifiers or string literals in strictly increasing order, and
	// Tag(map) for struct tags that re-join to the same text.
	Alt *recipe.Decisions
	// Stats, when non-nil, collects shape statistics for the evidence file.
	Stats *Stats
}

// Stats describes what a translated file contains.
type Stats struct {
	Nodes    map[string]int // AST node type -> occurrences
	Arity    map[string]int // list construct + bucket -> occurrences
	Shapes   map[string]int // named shapes (bare return, empty case body, ...)
	MaxDepth int
	Decls    int
	AltDict  int
	AltTag   int
	AltIdent int // predeclared names and built-in function calls through their own constructs
}

func NewStats() *Stats {
	return &Stats{Nodes: map[string]int{}, Arity: map[string]int{}, Shapes: map[string]int{}}
}

func bucket(n int) string {
	switch {
	case n <= 2:
		return strconv.Itoa(n)
	case n <= 4:
		return "3-4"
	case n <= 8:
		return "5-8"
	}
	return "9+"
}

type tr struct {
	o       Options
	imports map[string]string // local name -> path
	dot     map[*ast.Ident]string
	depth   int
	usedImp map[string]bool // paths referred to through a qualified identifier
}

func (t *tr) node(n ast.Node) {
	if t.o.Stats != nil && n != nil {
		name := reflect.TypeOf(n).Elem().Name()
		t.o.Stats.Nodes[name]++
	}
}

func (t *tr) arity(kind string, n int) {
	if t.o.Stats != nil {
		t.o.Stats.Arity[kind+"/"+bucket(n)]++
	}
}

func (t *tr) shape(name string) {
	if t.o.Stats != nil {
		t.o.Stats.Shapes[name]++
	}
}

func (t *tr) enter() {
	t.depth++
	if t.o.Stats != nil && t.depth > t.o.Stats.MaxDepth {
		t.o.Stats.MaxDepth = t.depth
	}
}
func (t *tr) leave() { t.depth-- }

type N = recipe.Node

func S() *N { return recipe.S() }

func (t *tr) exprs(es []ast.Expr) []*N {
	out := make([]*N, 0, len(es))
	for _, e := range es {
		out = append(out, t.expr(e))
	}
	return out
}

func (t *tr) listOf(es []ast.Expr) *N {
	if len(es) == 1 {
		return t.expr(es[0])
	}
	t.arity("List", len(es))
	return S().C("List", t.exprs(es))
}

func (t *tr) lit(b *ast.BasicLit) *N {
	switch b.Kind {
	case token.INT:
		v := constant.MakeFromLiteral(b.Value, b.Kind, 0)
		if i, ok := constant.Int64Val(v); ok && int64(int(i)) == i {
			return recipe.Lit(int(i))
		}
		t.shape("raw-token constant")
		return recipe.Op(b.Value)
	case token.FLOAT:
		v := constant.MakeFromLiteral(b.Value, b.Kind, 0)
		f, _ := constant.Float64Val(v)
		if !math.IsInf(f, 0) {
			// Lit(float64) is only the documented element when the shortest decimal of
			// the float64 denotes exactly the literal's value; otherwise the literal is
			// an arbitrary-precision constant with no Lit form.
			back := constant.MakeFromLiteral(strconv.FormatFloat(f, 'g', -1, 64), token.FLOAT, 0)
			if constant.Compare(back, token.EQL, v) {
				return recipe.Lit(f)
			}
		}
		t.shape("raw-token constant")
		return recipe.Op(b.Value)
	case token.IMAG:
		t.shape("raw-token constant")
		return recipe.Op(b.Value)
	case token.CHAR:
		r, _, _, err := strconv.UnquoteChar(b.Value[1:len(b.Value)-1], '\'')
		if err != nil {
			skip("bad char %s", b.Value)
		}
		return S().C("LitRune", recipe.Rune(r))
	case token.STRING:
		s, err := strconv.Unquote(b.Value)
		if err != nil {
			skip("bad string %s", b.Value)
		}
		return recipe.Lit(s)
	}
	skip("lit kind %v", b.Kind)
	return nil
}

func (t *tr) expr(e ast.Expr) *N {
	t.enter()
	defer t.leave()
	if e != nil {
		t.node(e)
	}
	switch e := e.(type) {
	case nil:
		return recipe.Null()
	case *ast.Ident:
		if p, ok := t.dot[e]; ok {
			return recipe.Qual(p, e.Name)
		}
		if c, ok := identConstructs[e.Name]; ok && t.o.Alt != nil && t.o.Alt.Choose(2) == 1 {
			// the documented element for a predeclared name: Int(), Error(), Nil(), True() ...
			if t.o.Stats != nil {
				t.o.Stats.AltIdent++
			}
			return S().C(c)
		}
		return recipe.Id(e.Name)
	case *ast.Ellipsis:
		if e.Elt == nil {
			return recipe.Op("...")
		}
		return recipe.Op("...").Add(t.expr(e.Elt))
	case *ast.BasicLit:
		return t.lit(e)
	case *ast.FuncLit:
		return t.funcType(S().C("Func"), e.Type).C("Block", t.stmts(e.Body.List))
	case *ast.CompositeLit:
		s := S()
		if e.Type != nil {
			s = t.expr(e.Type)
		}
		t.arity("Values", len(e.Elts))
		if d := t.dictAlt(e); d != nil {
			return s.C("Values", d)
		}
		return s.C("Values", t.exprs(e.Elts))
	case *ast.ParenExpr:
		if c, ok := complexLit(e); ok && t.o.Alt != nil && t.o.Alt.Choose(2) == 1 {
			// (re + imi), spelled the way strconv spells the two parts: the documented element is Lit(complex128)
			if t.o.Stats != nil {
				t.o.Stats.AltIdent++
			}
			return recipe.Lit(c)
		}
		return S().C("Parens", t.expr(e.X))
	case *ast.SelectorExpr:
		if id, ok := e.X.(*ast.Ident); ok && id.Obj == nil {
			if path, ok := t.imports[id.Name]; ok {
				t.usedImp[path] = true
				return recipe.Qual(path, e.Sel.Name)
			}
		}
		return t.expr(e.X).C("Dot", e.Sel.Name)
	case *ast.IndexExpr:
		return t.expr(e.X).C("Index", t.expr(e.Index))
	case *ast.IndexListExpr:
		t.arity("Types", len(e.Indices))
		return t.expr(e.X).C("Types", t.exprs(e.Indices))
	case *ast.SliceExpr:
		opt := func(x ast.Expr) *N {
			if x == nil {
				return recipe.Empty()
			}
			return t.expr(x)
		}
		items := []*N{opt(e.Low), opt(e.High)}
		if e.Slice3 {
			items = append(items, opt(e.Max))
			t.shape("3-index slice")
		}
		return t.expr(e.X).C("Index", items)
	case *ast.TypeAssertExpr:
		if e.Type == nil {
			return t.expr(e.X).C("Assert", S().C("Type"))
		}
		return t.expr(e.X).C("Assert", t.expr(e.Type))
	case *ast.CallExpr:
		args := t.exprs(e.Args)
		if e.Ellipsis.IsValid() {
			args[len(args)-1] = args[len(args)-1].C("Op", "...")
		}
		t.arity("Call", len(args))
		if id, ok := e.Fun.(*ast.Ident); ok && t.o.Alt != nil {
			if _, isDot := t.dot[id]; !isDot {
				if c, ok := callConstructs[id.Name]; ok && callFits(c, len(args)) && t.o.Alt.Choose(2) == 1 {
					// the documented element for a built-in function: Append(...), Len(x), Make(...) ...
					if t.o.Stats != nil {
						t.o.Stats.AltIdent++
					}
					return S().C(c, args)
				}
			}
		}
		return t.expr(e.Fun).C("Call", args)
	case *ast.StarExpr:
		return recipe.Op("*").Add(t.expr(e.X))
	case *ast.UnaryExpr:
		return recipe.Op(e.Op.String()).Add(t.expr(e.X))
	case *ast.BinaryExpr:
		return t.expr(e.X).C("Op", e.Op.String()).Add(t.expr(e.Y))
	case *ast.KeyValueExpr:
		return t.expr(e.Key).C("Op", ":").Add(t.expr(e.Value))
	case *ast.ArrayType:
		if e.Len == nil {
			return S().C("Index").Add(t.expr(e.Elt))
		}
		return S().C("Index", t.expr(e.Len)).Add(t.expr(e.Elt))
	case *ast.StructType:
		t.arity("Struct", len(e.Fields.List))
		return S().C("Struct", t.structFields(e.Fields))
	case *ast.FuncType:
		return t.funcType(S().C("Func"), e)
	case *ast.InterfaceType:
		t.arity("Interface", len(e.Methods.List))
		return S().C("Interface", t.ifaceElems(e.Methods))
	case *ast.MapType:
		return S().C("Map", t.expr(e.Key)).Add(t.expr(e.Value))
	case *ast.ChanType:
		switch e.Dir {
		case ast.SEND:
			return S().C("Chan").C("Op", "<-").Add(t.expr(e.Value))
		case ast.RECV:
			return S().C("Op", "<-").C("Chan").Add(t.expr(e.Value))
		default:
			return S().C("Chan").Add(t.expr(e.Value))
		}
	}
	skip("expr %T", e)
	return nil
}

// dictAlt returns the Dict form of a keyed composite literal when the
// documented alternative applies and the policy picks it.
func (t *tr) dictAlt(e *ast.CompositeLit) *N {
	if t.o.Alt == nil || len(e.Elts) == 0 {
		return nil
	}
	prev := ""
	for i, el := range e.Elts {
		kv, ok := el.(*ast.KeyValueExpr)
		if !ok {
			return nil
		}
		var text string
		switch k := kv.Key.(type) {
		case *ast.Ident:
			if _, isDot := t.dot[k]; isDot {
				return nil
			}
			text = k.Name
		case *ast.BasicLit:
			if k.Kind != token.STRING {
				return nil
			}
			s, err := strconv.Unquote(k.Value)
			if err != nil {
				return nil
			}
			// Lit(string) renders with %#v, i.e. strconv.Quote
			text = strconv.Quote(s)
		default:
			return nil
		}
		if i > 0 && !(prev < text) {
			return nil
		}
		prev = text
	}
	if t.o.Alt.Choose(2) == 0 {
		return nil
	}
	if t.o.Stats != nil {
		t.o.Stats.AltDict++
	}
	var pairs []recipe.Pair
	for _, el := range e.Elts {
		kv := el.(*ast.KeyValueExpr)
		pairs = append(pairs, recipe.Pair{K: t.expr(kv.Key), V: t.expr(kv.Value)})
	}
	return recipe.Dict(pairs...)
}

func (t *tr) names(ids []*ast.Ident) *N {
	if len(ids) == 1 {
		return recipe.Id(ids[0].Name)
	}
	cs := []*N{}
	for _, id := range ids {
		cs = append(cs, recipe.Id(id.Name))
	}
	t.arity("List", len(cs))
	return S().C("List", cs)
}

func (t *tr) params(fl *ast.FieldList) []*N {
	out := []*N{}
	if fl == nil {
		return out
	}
	for _, f := range fl.List {
		t.node(f)
		if len(f.Names) == 0 {
			out = append(out, t.expr(f.Type))
		} else {
			out = append(out, t.names(f.Names).Add(t.expr(f.Type)))
		}
	}
	return out
}

func (t *tr) funcType(s *N, ft *ast.FuncType) *N {
	if ft.TypeParams != nil {
		tp := t.typeParams(ft.TypeParams)
		t.arity("Types", len(tp))
		s = s.C("Types", tp)
	}
	ps := t.params(ft.Params)
	t.arity("Params", len(ps))
	s = s.C("Params", ps)
	return t.results(s, ft.Results)
}

func (t *tr) results(s *N, r *ast.FieldList) *N {
	if r == nil || len(r.List) == 0 {
		return s
	}
	if len(r.List) == 1 && len(r.List[0].Names) == 0 && !r.Opening.IsValid() {
		// a single unnamed result written without parentheses; a parenthesised one keeps its
		// parentheses (the parser is more lenient inside them: `func() (A[0])`)
		return s.Add(t.expr(r.List[0].Type))
	}
	ps := t.params(r)
	t.arity("Params", len(ps))
	return s.C("Params", ps)
}

func (t *tr) typeParams(fl *ast.FieldList) []*N {
	out := t.params(fl)
	if len(fl.List) == 1 && len(fl.List[0].Names) == 1 && ambiguousConstraint(fl.List[0].Type) {
		// `type T[P *C,] ...`: the trailing comma go/printer needs to keep this a type
		// parameter list is the separator of a trailing Empty()
		out = append(out, recipe.Empty())
	}
	return out
}

// ambiguousConstraint mirrors go/printer's combinesWithName, conservatively.
func ambiguousConstraint(x ast.Expr) bool {
	switch x := x.(type) {
	case *ast.StarExpr:
		return true
	case *ast.BinaryExpr:
		return ambiguousConstraint(x.X)
	case *ast.ParenExpr:
		return true
	}
	return false
}

// complexLit recognises a parenthesised sum or difference of a non-negative real literal and an imaginary
// literal whose spellings are the shortest decimal texts of float64 values: what Lit(complex128) renders.
func complexLit(p *ast.ParenExpr) (complex128, bool) {
	b, ok := p.X.(*ast.BinaryExpr)
	if !ok || (b.Op != token.ADD && b.Op != token.SUB) {
		return 0, false
	}
	re, ok1 := b.X.(*ast.BasicLit)
	im, ok2 := b.Y.(*ast.BasicLit)
	if !ok1 || !ok2 || (re.Kind != token.INT && re.Kind != token.FLOAT) || im.Kind != token.IMAG {
		return 0, false
	}
	r, err1 := strconv.ParseFloat(re.Value, 64)
	i, err2 := strconv.ParseFloat(strings.TrimSuffix(im.Value, "i"), 64)
	if err1 != nil || err2 != nil || math.IsInf(r, 0) || math.IsInf(i, 0) {
		return 0, false
	}
	// fmt prints the parts of a complex128 with %g; only texts that fmt would print itself come back unchanged
	if fmt.Sprintf("%g", r) != re.Value || fmt.Sprintf("%g", i)+"i" != im.Value || i == 0 {
		return 0, false
	}
	if b.Op == token.SUB {
		i = -i
	}
	return complex(r, i), true
}

func (t *tr) tag(b *ast.BasicLit) *N {
	if t.o.Alt != nil {
		if s, err := strconv.Unquote(b.Value); err == nil {
			if kvs, ok := parseTag(s); ok && t.o.Alt.Choose(2) == 1 {
				if t.o.Stats != nil {
					t.o.Stats.AltTag++
				}
				return S().C("Tag", kvs)
			}
		}
	}
	return t.lit(b)
}

// identConstructs: predeclared names that have a construct of their own (the table is the
// harness's own reading of the documentation, not jennifer's).
var identConstructs = map[string]string{
	"bool": "Bool", "byte": "Byte", "complex64": "Complex64", "complex128": "Complex128", "error": "Error",
	"float32": "Float32", "float64": "Float64", "int": "Int", "int8": "Int8", "int16": "Int16", "int32": "Int32", "int64": "Int64",
	"rune": "Rune", "string": "String", "uint": "Uint", "uint8": "Uint8", "uint16": "Uint16", "uint32": "Uint32", "uint64": "Uint64",
	"uintptr": "Uintptr", "true": "True", "false": "False", "iota": "Iota", "nil": "Nil", "err": "Err", "any": "Any", "comparable": "Comparable",
}

// callConstructs: built-in functions that have a construct of their own.
var callConstructs = map[string]string{
	"append": "Append", "cap": "Cap", "clear": "Clear", "close": "Close", "complex": "Complex", "copy": "Copy", "delete": "Delete",
	"imag": "Imag", "len": "Len", "make": "Make", "max": "Max", "min": "Min", "new": "New", "panic": "Panic", "print": "Print",
	"println": "Println", "real": "Real", "recover": "Recover",
}

var sigs = func() map[string]recipe.Sig {
	m := map[string]recipe.Sig{}
	for _, s := range recipe.Constructs() {
		m[s.Name] = s
	}
	return m
}()

// callFits: the construct takes n Code arguments (variadic, or exactly n).
func callFits(construct string, n int) bool {
	s, ok := sigs[construct]
	if !ok {
		return false
	}
	fixed := 0
	for _, p := range s.Params {
		switch p {
		case recipe.PCodes:
			return true
		case recipe.PCode:
			fixed++
		default:
			return false
		}
	}
	return fixed == n
}

// parseTag splits a conventional struct tag into pairs, and reports ok only
// when re-joining the sorted key:"quoted value" pairs reproduces it exactly.
func parseTag(tag string) ([]recipe.TagKV, bool) {
	orig := tag
	var kvs []recipe.TagKV
	for tag != "" {
		i := 0
		for i < len(tag) && tag[i] == ' ' {
			i++
		}
		tag = tag[i:]
		if tag == "" {
			break
		}
		i = 0
		for i < len(tag) && tag[i] > ' ' && tag[i] != ':' && tag[i] != '"' && tag[i] != 0x7f {
			i++
		}
		if i == 0 || i+1 >= len(tag) || tag[i] != ':' || tag[i+1] != '"' {
			return nil, false
		}
		name := tag[:i]
		tag = tag[i+1:]
		i = 1
		for i < len(tag) && tag[i] != '"' {
			if tag[i] == '\\' {
				i++
			}
			i++
		}
		if i >= len(tag) {
			return nil, false
		}
		q := tag[:i+1]
		tag = tag[i+1:]
		v, err := strconv.Unquote(q)
		if err != nil {
			return nil, false
		}
		kvs = append(kvs, recipe.TagKV{K: recipe.Text(name), V: recipe.Text(v)})
	}
	if len(kvs) == 0 {
		return nil, false
	}
	seen := map[recipe.Text]bool{}
	for _, kv := range kvs {
		if seen[kv.K] {
			return nil, false
		}
		seen[kv.K] = true
	}
	sorted := append([]recipe.TagKV{}, kvs...)
	sort.Slice(sorted, func(i, j int) bool { return sorted[i].K < sorted[j].K })
	var parts []string
	for _, kv := range sorted {
		parts = append(parts, fmt.Sprintf("%s:%q", string(kv.K), string(kv.V)))
	}
	if strings.Join(parts, " ") != orig {
		return nil, false
	}
	return sorted, true
}

func (t *tr) structFields(fl *ast.FieldList) []*N {
	out := []*N{}
	for _, f := range fl.List {
		t.node(f)
		var s *N
		if len(f.Names) == 0 {
			s = t.expr(f.Type)
		} else {
			s = t.names(f.Names).Add(t.expr(f.Type))
		}
		if f.Tag != nil {
			s = s.Add(t.tag(f.Tag))
		}
		out = append(out, s)
	}
	return out
}

func (t *tr) ifaceElems(fl *ast.FieldList) []*N {
	out := []*N{}
	for _, f := range fl.List {
		t.node(f)
		if len(f.Names) == 0 {
			out = append(out, t.expr(f.Type))
			continue
		}
		ft, ok := f.Type.(*ast.FuncType)
		if !ok {
			skip("iface method type %T", f.Type)
		}
		ps := t.params(ft.Params)
		t.arity("Params", len(ps))
		s := recipe.Id(f.Names[0].Name).C("Params", ps)
		out = append(out, t.results(s, ft.Results))
	}
	return out
}

func (t *tr) stmts(list []ast.Stmt) []*N {
	out := []*N{}
	for _, s := range list {
		out = append(out, t.stmt(s)...)
	}
	t.arity("Block", len(out))
	if n := len(list); n > 0 {
		if _, ok := list[n-1].(*ast.LabeledStmt); ok {
			if ls := list[n-1].(*ast.LabeledStmt); isEmpty(ls.Stmt) {
				t.shape("label before }")
			}
		}
	}
	return out
}

func isEmpty(s ast.Stmt) bool { _, ok := s.(*ast.EmptyStmt); return ok }

func (t *tr) simple(s ast.Stmt) *N {
	if s == nil {
		return recipe.Empty()
	}
	cs := t.stmt(s)
	if len(cs) != 1 {
		skip("simple stmt expands to %d items (%T)", len(cs), s)
	}
	return cs[0]
}

func (t *tr) stmt(s ast.Stmt) []*N {
	t.enter()
	defer t.leave()
	t.node(s)
	one := func(c *N) []*N { return []*N{c} }
	switch s := s.(type) {
	case *ast.DeclStmt:
		return one(t.decl(s.Decl))
	case *ast.EmptyStmt:
		return nil
	case *ast.LabeledStmt:
		if es, ok := s.Stmt.(*ast.EmptyStmt); ok && !es.Implicit {
			return one(recipe.Id(s.Label.Name).C("Op", ":").C("Op", ";"))
		}
		return append([]*N{recipe.Id(s.Label.Name).C("Op", ":")}, t.stmt(s.Stmt)...)
	case *ast.ExprStmt:
		return one(t.expr(s.X))
	case *ast.SendStmt:
		return one(t.expr(s.Chan).C("Op", "<-").Add(t.expr(s.Value)))
	case *ast.IncDecStmt:
		return one(t.expr(s.X).C("Op", s.Tok.String()))
	case *ast.AssignStmt:
		return one(t.listOf(s.Lhs).C("Op", s.Tok.String()).Add(t.listOf(s.Rhs)))
	case *ast.GoStmt:
		return one(S().C("Go").Add(t.expr(s.Call)))
	case *ast.DeferStmt:
		return one(S().C("Defer").Add(t.expr(s.Call)))
	case *ast.ReturnStmt:
		t.arity("Return", len(s.Results))
		if len(s.Results) == 0 {
			t.shape("bare return")
		}
		return one(S().C("Return", t.exprs(s.Results)))
	case *ast.BranchStmt:
		var st *N
		switch s.Tok {
		case token.BREAK:
			st = S().C("Break")
		case token.CONTINUE:
			st = S().C("Continue")
		case token.GOTO:
			st = S().C("Goto")
		case token.FALLTHROUGH:
			st = S().C("Fallthrough")
		}
		if s.Label != nil {
			st = st.C("Id", s.Label.Name)
		}
		return one(st)
	case *ast.BlockStmt:
		return one(S().C("Block", t.stmts(s.List)))
	case *ast.IfStmt:
		return one(t.ifStmt(s))
	case *ast.CaseClause:
		if len(s.Body) == 0 {
			t.shape("empty case body")
		}
		if s.List == nil {
			return one(S().C("Default").C("Block", t.stmts(s.Body)))
		}
		t.arity("Case", len(s.List))
		return one(S().C("Case", t.exprs(s.List)).C("Block", t.stmts(s.Body)))
	case *ast.SwitchStmt:
		conds := []*N{}
		if s.Init != nil {
			conds = append(conds, t.simple(s.Init))
			if s.Tag != nil {
				conds = append(conds, t.expr(s.Tag))
			} else {
				conds = append(conds, recipe.Empty())
			}
		} else if s.Tag != nil {
			conds = append(conds, t.expr(s.Tag))
		}
		t.arity("Switch", len(conds))
		return one(S().C("Switch", conds).C("Block", t.clauses(s.Body.List)))
	case *ast.TypeSwitchStmt:
		conds := []*N{}
		if s.Init != nil {
			conds = append(conds, t.simple(s.Init))
		}
		conds = append(conds, t.simple(s.Assign))
		t.arity("Switch", len(conds))
		return one(S().C("Switch", conds).C("Block", t.clauses(s.Body.List)))
	case *ast.CommClause:
		if len(s.Body) == 0 {
			t.shape("empty case body")
		}
		if s.Comm == nil {
			return one(S().C("Default").C("Block", t.stmts(s.Body)))
		}
		return one(S().C("Case", t.simple(s.Comm)).C("Block", t.stmts(s.Body)))
	case *ast.SelectStmt:
		return one(S().C("Select").C("Block", t.clauses(s.Body.List)))
	case *ast.ForStmt:
		var conds []*N
		if s.Init == nil && s.Post == nil {
			if s.Cond != nil {
				conds = []*N{t.expr(s.Cond)}
			}
		} else {
			cond := recipe.Empty()
			if s.Cond != nil {
				cond = t.expr(s.Cond)
			}
			conds = []*N{t.simple(s.Init), cond, t.simple(s.Post)}
		}
		t.arity("For", len(conds))
		return one(S().C("For", conds).C("Block", t.stmts(s.Body.List)))
	case *ast.RangeStmt:
		var c *N
		if s.Key == nil {
			c = S().C("Range").Add(t.expr(s.X))
		} else {
			lhs := []ast.Expr{s.Key}
			if s.Value != nil {
				lhs = append(lhs, s.Value)
			}
			c = t.listOf(lhs).C("Op", s.Tok.String()).C("Range").Add(t.expr(s.X))
		}
		return one(S().C("For", c).C("Block", t.stmts(s.Body.List)))
	}
	skip("stmt %T", s)
	return nil
}

func (t *tr) clauses(list []ast.Stmt) []*N {
	out := []*N{}
	for _, s := range list {
		out = append(out, t.stmt(s)...)
	}
	t.arity("Block", len(out))
	return out
}

func (t *tr) ifStmt(s *ast.IfStmt) *N {
	conds := []*N{}
	if s.Init != nil {
		conds = append(conds, t.simple(s.Init))
	}
	conds = append(conds, t.expr(s.Cond))
	t.arity("If", len(conds))
	st := S().C("If", conds).C("Block", t.stmts(s.Body.List))
	switch e := s.Else.(type) {
	case nil:
	case *ast.IfStmt:
		st = st.C("Else").Add(t.ifStmt(e))
	case *ast.BlockStmt:
		st = st.C("Else").C("Block", t.stmts(e.List))
	default:
		skip("else %T", e)
	}
	return st
}

func (t *tr) spec(sp ast.Spec) *N {
	t.node(sp)
	switch sp := sp.(type) {
	case *ast.ValueSpec:
		s := t.names(sp.Names)
		if sp.Type != nil {
			s = s.Add(t.expr(sp.Type))
		}
		if len(sp.Values) > 0 {
			s = s.C("Op", "=").Add(t.listOf(sp.Values))
		}
		return s
	case *ast.TypeSpec:
		s := recipe.Id(sp.Name.Name)
		if sp.TypeParams != nil {
			tp := t.typeParams(sp.TypeParams)
			t.arity("Types", len(tp))
			s = s.C("Types", tp)
		}
		if sp.Assign.IsValid() {
			s = s.C("Op", "=")
		}
		return s.Add(t.expr(sp.Type))
	}
	skip("spec %T", sp)
	return nil
}

func (t *tr) decl(d ast.Decl) *N {
	t.enter()
	defer t.leave()
	t.node(d)
	switch d := d.(type) {
	case *ast.GenDecl:
		var s *N
		switch d.Tok {
		case token.CONST:
			s = S().C("Const")
		case token.VAR:
			s = S().C("Var")
		case token.TYPE:
			s = S().C("Type")
		default:
			skip("gendecl %v in body", d.Tok)
		}
		if d.Lparen.IsValid() {
			specs := []*N{}
			for _, sp := range d.Specs {
				specs = append(specs, t.spec(sp))
			}
			t.arity("Defs", len(specs))
			return s.C("Defs", specs)
		}
		return s.Add(t.spec(d.Specs[0]))
	case *ast.FuncDecl:
		s := S().C("Func")
		if d.Recv != nil {
			s = s.C("Params", t.params(d.Recv))
		}
		s = s.C("Id", d.Name.Name)
		s = t.funcType(s, d.Type)
		if d.Body != nil {
			s = s.C("Block", t.stmts(d.Body.List))
		}
		return s
	}
	skip("decl %T", d)
	return nil
}

var universe = map[string]bool{}

func init() {
	for _, n := range []string{"bool", "byte", "complex64", "complex128", "error", "float32", "float64", "int", "int8", "int16", "int32", "int64", "rune", "string", "uint", "uint8", "uint16", "uint32", "uint64", "uintptr", "true", "false", "iota", "nil", "append", "cap", "close", "clear", "min", "max", "complex", "copy", "delete", "imag", "len", "make", "new", "panic", "print", "println", "real", "recover", "any", "comparable", "_"} {
		universe[n] = true
	}
}

// File translates af. siblings are the top-level names declared in the other
// files of the same package (needed only to resolve dot-imported names).
func File(af *ast.File, o Options, siblings map[string]bool) (fr *recipe.File, err error) {
	defer func() {
		if r := recover(); r != nil {
			if se, ok := r.(*SkipError); ok {
				err = se
				return
			}
			panic(r)
		}
	}()
	fr = &recipe.File{Ctor: "NewFile", Args: []recipe.Text{recipe.Text(af.Name.Name)}}
	t := &tr{o: o, imports: map[string]string{}, dot: map[*ast.Ident]string{}, usedImp: map[string]bool{}}
	op := func(name string, args ...string) {
		fo := recipe.FileOp{Op: name}
		for _, a := range args {
			fo.Args = append(fo.Args, recipe.Text(a))
		}
		fr.Ops = append(fr.Ops, fo)
	}
	seen := map[string]bool{}
	var dots []string
	for _, d := range af.Decls {
		gd, ok := d.(*ast.GenDecl)
		if !ok || gd.Tok != token.IMPORT {
			continue
		}
		for _, sp := range gd.Specs {
			is := sp.(*ast.ImportSpec)
			path, _ := strconv.Unquote(is.Path.Value)
			if path == "" {
				skip("empty-import-path") // for a NewFile file "" is the local path
			}
			if seen[path] {
				skip("duplicate-import-path %s", path)
			}
			seen[path] = true
			if path == "C" {
				if is.Name != nil {
					skip("named import of C")
				}
				t.imports["C"] = "C"
				// `import "C"` without any C.x reference must still be emitted
				op("Anon", "C")
				doc := is.Doc
				if doc == nil && len(gd.Specs) == 1 {
					doc = gd.Doc
				}
				if doc != nil {
					for _, c := range doc.List {
						op("CgoPreamble", c.Text)
					}
				}
				continue
			}
			switch {
			case is.Name == nil:
				n := ""
				if o.RealName != nil {
					n = o.RealName(path)
				}
				if n == "" {
					skip("unknown-package-name %s", path)
				}
				if _, dup := t.imports[n]; dup {
					skip("duplicate-import-name %s", n) // two imports under one name: does not compile, has no DSL form
				}
				t.imports[n] = path
				if o.Alt != nil && o.Std != nil && o.Std(path) && o.Alt.Choose(2) == 1 {
					// a standard library package needs no name hint: jennifer knows what it declares
					if o.Stats != nil {
						o.Stats.AltIdent++
					}
					continue
				}
				op("ImportName", path, n)
			case is.Name.Name == "_":
				op("Anon", path)
			case is.Name.Name == ".":
				dots = append(dots, path)
				op("ImportAlias", path, ".")
			default:
				if _, dup := t.imports[is.Name.Name]; dup {
					skip("duplicate-import-name %s", is.Name.Name)
				}
				t.imports[is.Name.Name] = path
				op("ImportAlias", path, is.Name.Name)
			}
		}
	}
	if len(dots) > 0 {
		// resolve dot-imported names syntactically: an unresolved bare identifier that
		// a dot-imported package exports and no sibling file declares
		declared := map[string]bool{}
		for k := range siblings {
			declared[k] = true
		}
		for _, d := range af.Decls {
			switch d := d.(type) {
			case *ast.FuncDecl:
				if d.Recv == nil {
					declared[d.Name.Name] = true
				}
			case *ast.GenDecl:
				for _, sp := range d.Specs {
					switch sp := sp.(type) {
					case *ast.ValueSpec:
						for _, n := range sp.Names {
							declared[n.Name] = true
						}
					case *ast.TypeSpec:
						declared[sp.Name.Name] = true
					}
				}
			}
		}
		exp := map[string]map[string]bool{}
		for _, p := range dots {
			if o.Exported == nil {
				skip("dot-import-unresolved %s", p)
			}
			names, ok := o.Exported(p)
			if !ok {
				skip("dot-import-unresolved %s", p)
			}
			exp[p] = names
		}
		used := map[string]bool{}
		for _, id := range af.Unresolved {
			if declared[id.Name] || universe[id.Name] {
				continue
			}
			owner := ""
			for _, p := range dots {
				if exp[p][id.Name] {
					if owner != "" {
						skip("dot-import-unresolved ambiguous %s", id.Name)
					}
					owner = p
				}
			}
			if owner != "" {
				t.dot[id] = owner
				used[owner] = true
			}
		}
		for _, p := range dots {
			if !used[p] {
				skip("dot-import-unresolved no reference to %s found", p)
			}
		}
	}
	for _, d := range af.Decls {
		if gd, ok := d.(*ast.GenDecl); ok && gd.Tok == token.IMPORT {
			continue
		}
		fr.Body = append(fr.Body, t.decl(d))
		if o.Stats != nil {
			o.Stats.Decls++
		}
	}
	// The DSL imports exactly what is referenced (C04), so a file with an import that nothing
	// refers to — which does not compile — has no DSL form.
	for name, path := range t.imports {
		if path != "C" && !t.usedImp[path] {
			skip("unused-import %s (%s)", path, name)
		}
	}
	return fr, nil
}
