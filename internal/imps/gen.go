package imps

import (
	"fmt"
	"go/token"
	"go/types"
	"sort"
	"strconv"
	"strings"

	"pgregory.net/rapid"

	"verif/internal/recipe"
	"verif/internal/stdpkg"
)

// Profile biases the scenario generator.
type Profile struct {
	MaxPaths    int
	Std         bool // include colliding standard library paths
	Cgo         bool // include "C"
	Dots        int  // up to this many dot imports
	LocalCtor   bool // use NewFilePath / NewFilePathName and reference the local path and near misses
	Anon        bool
	BigHints    bool // large, mostly unused hint tables
	NullRefs    bool // references inside Dict pairs that render nothing
	ReservedMix bool // reserved words as hints / last elements more often
	ArbPaths    bool // arbitrary (parser-valid) path strings
	Compete     bool // several paths competing for one base name
}

var prefixes = []string{"", "x.y/", "github.com/u/", "a/b/", "a/b/v2/", "gopkg.in/"}

var lastElems = []string{"a", "d", "D", "fmt", "rand", "go", "int", "err", "any", "comparable", "pkg", "1x", "123", "x-y", "x.y", "ünï", "日本", "c", "v2", "d/", "d1", "d2", "D1", "template", "min", "pkg1", "C", "_", "d_1",
	// long names: 33 bytes and more, two of them equal in their first 32 bytes and in length
	"organizationslocationsrepositoriespackages", "organizationslocationsrepositoriespackagez", "averyveryverylongpackagenameof33by", strings.Repeat("longname", 9)}

var stdCollide = []string{"math/rand", "crypto/rand", "math/rand/v2", "text/template", "html/template", "fmt", "os", "io", "net/http", "net/url", "strings", "bytes", "errors", "path", "path/filepath", "go/ast", "go/token", "go/types", "text/scanner", "go/scanner", "encoding/json", "encoding/xml", "io/fs", "testing/fstest", "container/list", "container/heap", "crypto/md5", "hash/crc32", "unicode/utf8", "unicode/utf16", "time", "sort", "sync", "sync/atomic", "math", "math/big", "math/bits", "os/exec", "os/signal", "runtime/debug", "debug/elf", "image/color", "go/build/constraint", "go/constant", "unsafe", "unsafe", "embed"}

var hintNames = []string{"a", "d", "d1", "d2", "fmt", "rand", "foo", "ünï", "X", "pkg", "pkg_d", "pkg_d1", "p_d", "template", "c", "v2", "xy", "go1", "Rand", "q", "C", "_", "_",
	"realnameofthirtythreebytesexactlyy", "realnameofthirtythreebytesexactlyz", strings.Repeat("name", 20)}

var prefixChoices = []string{"", "", "pkg", "p", "_", "ü", "pkg_d", "a_prefix_of_thirty_bytes_length"}

// Reserved is every keyword and universe-scope identifier (independent of jennifer's list).
func Reserved() []string {
	var out []string
	for t := token.BREAK; t <= token.VAR; t++ {
		out = append(out, t.String())
	}
	out = append(out, types.Universe.Names()...)
	sort.Strings(out)
	return out
}

func genPathPool(t *rapid.T, pr Profile) string {
	kinds := []int{0, 0, 0}
	if pr.Std {
		kinds = append(kinds, 1, 1)
	}
	if pr.Cgo {
		kinds = append(kinds, 2)
	}
	if pr.ReservedMix {
		kinds = append(kinds, 3)
	}
	if pr.ArbPaths {
		kinds = append(kinds, 4, 4)
	}
	if pr.Compete {
		kinds = append(kinds, 5, 5, 5)
	}
	switch rapid.SampledFrom(kinds).Draw(t, "pathkind") {
	case 1:
		return rapid.SampledFrom(stdCollide).Draw(t, "std")
	case 2:
		return "C"
	case 3:
		return rapid.SampledFrom(prefixes).Draw(t, "prefix") + rapid.SampledFrom(Reserved()).Draw(t, "reserved")
	case 4:
		return genArbPath(t)
	case 5:
		base := rapid.SampledFrom([]string{"d", "D", "d1", "d-1", "d.1", "1d", "d/", "D/", "d_", "dd", "d2"}).Draw(t, "base")
		return rapid.SampledFrom([]string{"a/", "b/", "c/", "x/", "y/", "z/", "q.r/", "a/b/"}).Draw(t, "cprefix") + base
	}
	p := rapid.SampledFrom(prefixes).Draw(t, "prefix") + rapid.SampledFrom(lastElems).Draw(t, "last")
	if p == "unsafe" {
		p = "x/unsafe"
	}
	return p
}

// genArbPath draws an arbitrary import path that go/parser accepts: graphic
// characters without spaces and without the characters the Go spec lets
// implementations reject (go/parser rejects them, so format.Source would fail
// on a file containing one — such strings cannot be import paths at all).
func genArbPath(t *rapid.T) string {
	alphabet := []string{"a", "b", "d", "D", "Z", "0", "1", "9", "-", ".", "_", "~", "+", "@", "/", "/", "ü", "日", "Ω", "٣", "é", "ß", "İ", "ǅ", "go", "int", "v2", "²", "½", "Ⅷ", "①", "ⅷ", "x²", "๓", "〇", "ª", "ʰ", "e\u0301", "l\u00b7l", "a\u0308", "\u0301"}
	n := rapid.IntRange(1, 12).Draw(t, "arblen")
	sb := strings.Builder{}
	for i := 0; i < n; i++ {
		sb.WriteString(rapid.SampledFrom(alphabet).Draw(t, "arbch"))
	}
	p := sb.String()
	if p == "unsafe" || p == "" {
		p = "x/" + p
	}
	return p
}

func genHintName(t *rapid.T, pr Profile, allowDot bool) string {
	k := rapid.IntRange(0, 9).Draw(t, "hintkind")
	switch {
	case k == 0 && allowDot:
		return "."
	case k == 1 || (pr.ReservedMix && k <= 4):
		return rapid.SampledFrom(Reserved()).Draw(t, "hintreserved")
	case k == 2:
		return rapid.SampledFrom([]string{"Ünï", "日本", "_x", "x_", "a1", "ǅ", "éa"}).Draw(t, "hintuni")
	}
	return rapid.SampledFrom(hintNames).Draw(t, "hintname")
}

// safeLocal are paths usable with NewFilePath (the guessed package name is a legal, non-reserved identifier).
var safeLocal = []string{"x.y/a", "a/b/d", "github.com/u/foo", "mypkg", "a/b/v2/d", "x.y/D", "x/d-1", "x.y/fmt", "q/rand", "a/b/template"}

// Gen draws a scenario.
func Gen(pr Profile) func(t *rapid.T) Scenario {
	return func(t *rapid.T) Scenario {
		sc := Scenario{}
		if pr.MaxPaths == 0 {
			pr.MaxPaths = 8
		}
		// paths
		np := rapid.IntRange(1, pr.MaxPaths).Draw(t, "npaths")
		seen := map[string]bool{}
		for len(sc.Paths) < np {
			p := genPathPool(t, pr)
			if seen[p] {
				np--
				continue
			}
			seen[p] = true
			sc.Paths = append(sc.Paths, p)
		}
		// constructor
		local := ""
		if pr.LocalCtor {
			if rapid.Bool().Draw(t, "pathname") {
				local = genPathPool(t, pr)
				if local == "C" {
					local = "x/C"
				}
				sc.File.Ctor = "NewFilePathName"
				sc.File.Args = []recipe.Text{recipe.Text(local), recipe.Text(rapid.SampledFrom([]string{"p", "main", "foo", "d", "d_test", "main_test", "x_test", "_test", "testing", "P", "ünï"}).Draw(t, "pkgname"))}
			} else {
				local = rapid.SampledFrom(safeLocal).Draw(t, "local")
				sc.File.Ctor = "NewFilePath"
				sc.File.Args = []recipe.Text{recipe.Text(local)}
			}
			// the local path itself and near misses join the referenced paths
			cands := []string{local, local + "/", local + "x", "x" + local, strings.ToUpper(local), strings.ToLower(local), "v/" + local, local + "/sub", "vendor/" + local, "d.e/f/vendor/" + local, local + "/vendor/q", local + ".v1", local + ".x"}
			if i := strings.LastIndex(local, "/"); i > 0 {
				cands = append(cands, local[:i], local[i+1:])
			}
			if rs := []rune(local); len(rs) > 1 {
				cands = append(cands, string(rs[:len(rs)-1]))
			}
			k := rapid.IntRange(1, 4).Draw(t, "nnear")
			for i := 0; i < k; i++ {
				c := rapid.SampledFrom(cands).Draw(t, "near")
				if i == 0 {
					c = local
				}
				if !seen[c] && c != "" && c != "C" {
					seen[c] = true
					sc.Paths = append(sc.Paths, c)
				}
			}
		} else {
			sc.File.Ctor = "NewFile"
			sc.File.Args = []recipe.Text{recipe.Text(rapid.SampledFrom([]string{"p", "main", "foo", "d", "fmt"}).Draw(t, "pkgname"))}
			if rapid.IntRange(0, 7).Draw(t, "emptylocal") == 0 && !seen[""] {
				// Qual("", x) on a NewFile file is a local reference
				sc.Paths = append(sc.Paths, "")
				seen[""] = true
			}
		}
		if pr.Dots > 0 && rapid.IntRange(0, 3).Draw(t, "dottedtwin") == 2 {
			// a path that continues one of the others behind a dot (gopkg.in/yaml and gopkg.in/yaml.v3)
			base := rapid.SampledFrom(sc.Paths).Draw(t, "dottedof")
			if v := base + rapid.SampledFrom([]string{".v1", ".v3", ".x", ".go"}).Draw(t, "dottedsuffix"); base != "" && base != "C" && !strings.HasSuffix(base, "/") && !seen[v] {
				seen[v] = true
				sc.Paths = append(sc.Paths, v)
			}
		}
		if pr.Dots > 0 && rapid.IntRange(0, 3).Draw(t, "vendortwin") == 2 {
			// a second path that ends like one of the others, behind a vendor element: another package
			base := rapid.SampledFrom(sc.Paths).Draw(t, "vendorof")
			if base != "" && base != "C" {
				for _, v := range []string{"vendor/" + base, "q.r/s/vendor/" + base} {
					if !seen[v] && rapid.Bool().Draw(t, "vendorkeep") {
						seen[v] = true
						sc.Paths = append(sc.Paths, v)
					}
				}
			}
		}
		// file ops: a history of hints and settings
		var ops []recipe.FileOp
		dots := 0
		nops := rapid.IntRange(0, 6).Draw(t, "nops")
		anonOnly := []string{}
		anonLocal := false
		for i := 0; i < nops; i++ {
			kind := rapid.SampledFrom([]string{"ImportName", "ImportAlias", "ImportNames", "Anon", "PackagePrefix", "ImportAlias"}).Draw(t, "opkind")
			var target string
			if rapid.IntRange(0, 4).Draw(t, "hintused") > 0 {
				target = rapid.SampledFrom(sc.Paths).Draw(t, "target")
			} else {
				target = genPathPool(t, pr) // a hint for a path that is never referenced
				if seen[target] {
					continue
				}
			}
			if target == "" || (target == local && !pr.LocalCtor) {
				continue
			}
			switch kind {
			case "ImportName":
				n := genHintName(t, pr, false)
				ops = append(ops, recipe.FileOp{Op: "ImportName", Args: []recipe.Text{recipe.Text(target), recipe.Text(n)}})
			case "ImportAlias":
				n := genHintName(t, pr, dots < pr.Dots)
				if n == "." {
					dots++
				}
				ops = append(ops, recipe.FileOp{Op: "ImportAlias", Args: []recipe.Text{recipe.Text(target), recipe.Text(n)}})
			case "ImportNames":
				m := map[string]string{target: genHintName(t, pr, false)}
				extra := rapid.IntRange(0, 3).Draw(t, "nnames")
				if pr.BigHints {
					extra = rapid.IntRange(20, 120).Draw(t, "nnamesbig")
				}
				for j := 0; j < extra; j++ {
					if pr.BigHints {
						// mostly unused entries
						m[fmt.Sprintf("unused.example/%d/%s", j, rapid.SampledFrom(lastElems).Draw(t, "unusedlast"))] = rapid.SampledFrom(hintNames).Draw(t, "unusedname")
					} else {
						m[rapid.SampledFrom(sc.Paths).Draw(t, "namespath")] = genHintName(t, pr, false)
					}
				}
				delete(m, "")
				ops = append(ops, recipe.FileOp{Op: "ImportNames", Map: m})
			case "Anon":
				if !pr.Anon {
					continue
				}
				if target == local {
					// an anonymous import of the File's own path (an external test package importing the package
					// under test for its side effects): it is written, as `_`, and changes nothing else
					if pr.LocalCtor && !anonLocal {
						anonLocal = true
						ops = append(ops, recipe.FileOp{Op: "Anon", Args: []recipe.Text{recipe.Text(target)}})
					}
					continue
				}
				if rapid.Bool().Draw(t, "anonref") {
					args := []recipe.Text{recipe.Text(target)}
					if rapid.IntRange(0, 2).Draw(t, "anonmulti") == 0 {
						// several paths in one Anon call
						extra := "anon.example/" + rapid.SampledFrom(lastElems).Draw(t, "anonextra")
						args = append(args, recipe.Text(extra))
						if rapid.Bool().Draw(t, "anonextrafirst") {
							args[0], args[1] = args[1], args[0]
						}
					}
					ops = append(ops, recipe.FileOp{Op: "Anon", Args: args})
				} else {
					a := "anon.example/" + rapid.SampledFrom(lastElems).Draw(t, "anonlast")
					args := []recipe.Text{recipe.Text(a)}
					switch rapid.IntRange(0, 5).Draw(t, "anonlist") {
					case 0:
						// one call whose list starts with a path an earlier call has imported already
						if len(anonOnly) > 0 {
							args = append([]recipe.Text{recipe.Text(rapid.SampledFrom(anonOnly).Draw(t, "anonagain"))}, args...)
						}
					case 2:
						// a long list in one call (nine paths and more), after whatever was imported before
						for j := rapid.IntRange(8, 20).Draw(t, "anonmany"); j > 0; j-- {
							b := fmt.Sprintf("anon.example/many/%d/%s", j, rapid.SampledFrom(lastElems).Draw(t, "anonmanylast"))
							args = append(args, recipe.Text(b))
							anonOnly = append(anonOnly, b)
						}
					case 1:
						// a path repeated within one call, others behind it
						b := "anon.example/second/" + rapid.SampledFrom(lastElems).Draw(t, "anonlast2")
						args = []recipe.Text{recipe.Text(a), recipe.Text(a), recipe.Text(b)}
						anonOnly = append(anonOnly, b)
					}
					anonOnly = append(anonOnly, a)
					ops = append(ops, recipe.FileOp{Op: "Anon", Args: args})
				}
			case "PackagePrefix":
				ops = append(ops, recipe.FileOp{Op: "PackagePrefix", Args: []recipe.Text{recipe.Text(rapid.SampledFrom(prefixChoices).Draw(t, "pkgprefix"))}})
			}
		}
		// extra dot imports on referenced paths
		if pr.Dots > 0 {
			nd := rapid.IntRange(0, pr.Dots).Draw(t, "ndots")
			for i := 0; i < nd; i++ {
				target := rapid.SampledFrom(sc.Paths).Draw(t, "dottarget")
				if target == "" || target == "C" {
					continue
				}
				ops = append(ops, recipe.FileOp{Op: "ImportAlias", Args: []recipe.Text{recipe.Text(target), "."}})
			}
		}
		if rapid.IntRange(0, 3).Draw(t, "noformat") == 0 {
			// unformatted output: nothing downstream (gofmt) tidies the import block
			ops = append(ops, recipe.FileOp{Op: "NoFormat"})
		}
		if rapid.IntRange(0, 3).Draw(t, "lateprefix") == 0 {
			ops = append(ops, recipe.FileOp{Op: "PackagePrefix", Args: []recipe.Text{recipe.Text(rapid.SampledFrom(prefixChoices).Draw(t, "pkgprefix2"))}})
		}
		_ = anonOnly
		if rapid.IntRange(0, 3).Draw(t, "canonical") == 0 {
			// a vanity import path: the package clause gains an import comment, nothing else may change
			cp := "vanity.example/pkg"
			switch rapid.IntRange(0, 3).Draw(t, "canonicalkind") {
			case 0:
				if local != "" {
					cp = local
				}
			case 1:
				cp = rapid.SampledFrom(sc.Paths).Draw(t, "canonicalpath")
			case 2:
				if local != "" {
					cp = "vanity.example/" + local
				}
			}
			clean := cp != ""
			for _, r := range cp {
				if r < 0x21 || r > 0x7e || r == '"' || r == '\\' || r == '`' {
					clean = false
				}
			}
			if !clean {
				cp = "vanity.example/pkg"
			}
			ops = append(ops, recipe.FileOp{Op: "CanonicalPath", Args: []recipe.Text{recipe.Text(cp)}})
		}
		if pr.Cgo && rapid.IntRange(0, 3).Draw(t, "preamble") == 0 {
			// a cgo preamble, whether or not "C" is referenced or anonymous-imported
			ops = append(ops, recipe.FileOp{Op: "CgoPreamble", Args: []recipe.Text{recipe.Text(rapid.SampledFrom([]string{"#include <stdio.h>", "#include <a.h>\n#include <b.h>", "// #include <raw.h>", "\n#include <lead.h>\n", "\n#include <lead.h>"}).Draw(t, "preambletext"))}})
		}
		sc.File.Body = GenBody(t, sc.Paths, pr)
		// paths that only occur inside pairs that render nothing may carry hints of every kind:
		// none of them may produce an import
		for _, n := range sc.File.Body {
			recipe.Walk(n, func(x *recipe.Node) {
				if x == nil || x.Kind != recipe.KDict {
					return
				}
				for _, pair := range x.Pairs {
					for _, side := range []*recipe.Node{pair.K, pair.V} {
						if side != nil && len(side.Calls) == 1 && side.Calls[0].Fn == "Qual" && strings.HasPrefix(string(side.Calls[0].Str[0]), "hidden.example/") {
							h := side.Calls[0].Str[0]
							switch rapid.IntRange(0, 4).Draw(t, "hiddenhint") {
							case 0:
								ops = append(ops, recipe.FileOp{Op: "ImportAlias", Args: []recipe.Text{h, "."}})
							case 1:
								ops = append(ops, recipe.FileOp{Op: "ImportAlias", Args: []recipe.Text{h, "hid"}})
							case 2:
								ops = append(ops, recipe.FileOp{Op: "ImportName", Args: []recipe.Text{h, "hidden"}})
							}
						}
					}
				}
			})
		}
		if rapid.IntRange(0, 5).Draw(t, "sibling") == 2 {
			// the caller's one names table, handed first to a sibling File (see Scenario.Sibling): this File's
			// first hint is then an ImportNames call too
			sc.Sibling = true
			if len(ops) == 0 || ops[0].Op != "ImportNames" {
				m := map[string]string{}
				for j := rapid.IntRange(1, 5).Draw(t, "siblingtable"); j > 0; j-- {
					m[fmt.Sprintf("unused.example/table/%d", j)] = rapid.SampledFrom(hintNames).Draw(t, "siblingname")
				}
				ops = append([]recipe.FileOp{{Op: "ImportNames", Map: m}}, ops...)
			}
		}
		sc.File.Ops = ops
		if rapid.IntRange(0, 24).Draw(t, "nobody") == 0 {
			// a File without code (tools.go, driver registration): only its settings speak
			sc.File.Body = nil
			return sc
		}
		if rapid.IntRange(0, 3).Draw(t, "staged") == 0 {
			// settings that arrive after a first render (see Scenario.Split); an anonymous import of a path the
			// body references is not made late: it un-registers the path, which is then named afresh
			k := rapid.IntRange(0, len(ops)).Draw(t, "split")
			kept := append([]recipe.FileOp{}, ops[:k]...)
			for _, op := range ops[k:] {
				if op.Op == "Anon" {
					ref := false
					for _, a := range op.Args {
						ref = ref || seen[string(a)]
					}
					if ref {
						continue
					}
				}
				kept = append(kept, op)
			}
			sc.File.Ops = kept
			sc.Split = k + 1
			if rapid.Bool().Draw(t, "preview") {
				sc.Preview = rapid.IntRange(1, len(sc.File.Body)).Draw(t, "npreview")
			}
			if rapid.IntRange(0, 2).Draw(t, "latebody") == 0 {
				// every setting is made up front; part of the body reaches the File after its first render
				sc.File.Ops = ops
				sc.Split = len(ops) + 1
				sc.LateBody = rapid.IntRange(1, len(sc.File.Body)).Draw(t, "nlatebody")
			}
		}
		return sc
	}
}

var anyT = func() *recipe.Node { return recipe.S().C("Interface") }

// GenBody draws declarations that reference every path 1..4 times through
// marker symbols, in shapes that type-check by construction.
func GenBody(t *rapid.T, paths []string, pr Profile) []*recipe.Node {
	type leaf struct {
		id   int
		kind string
	}
	var leaves []leaf
	for i := range paths {
		k := rapid.IntRange(1, 4).Draw(t, "nrefs")
		for j := 0; j < k; j++ {
			leaves = append(leaves, leaf{i, rapid.SampledFrom([]string{"S", "S", "S", "F", "T"}).Draw(t, "leafkind")})
		}
	}
	perm := rapid.Permutation(leaves).Draw(t, "order")
	var vals []*recipe.Node // expressions of type interface{}-assignable
	var typs []*recipe.Node
	for _, l := range perm {
		q := recipe.Qual(paths[l.id], l.kind+strconv.Itoa(l.id))
		switch l.kind {
		case "S":
			vals = append(vals, q)
		case "F":
			// F(args...) consumes some earlier values as arguments
			k := rapid.IntRange(0, min(3, len(vals))).Draw(t, "nargs")
			args := append([]*recipe.Node{}, vals[len(vals)-k:]...)
			vals = vals[:len(vals)-k]
			vals = append(vals, q.C("Call", args))
		case "T":
			typs = append(typs, q)
		}
	}
	var body []*recipe.Node
	// pack values into declarations
	for len(vals) > 0 {
		k := rapid.IntRange(1, min(5, len(vals))).Draw(t, "pack")
		chunk := vals[:k]
		vals = vals[k:]
		switch rapid.IntRange(0, 4).Draw(t, "shape") {
		case 0: // var _ = []interface{}{...}
			body = append(body, recipe.S().C("Var").C("Id", "_").C("Op", "=").C("Index").C("Interface").C("Values", chunk))
		case 1: // var _ = map[interface{}]interface{}{k: v, ...}
			var pairs []recipe.Pair
			for i := 0; i < len(chunk); i += 2 {
				v := recipe.Lit(i)
				if i+1 < len(chunk) {
					v = chunk[i+1]
				}
				pairs = append(pairs, recipe.Pair{K: chunk[i], V: v})
			}
			if pr.NullRefs && rapid.Bool().Draw(t, "nullpair") {
				// a pair that renders nothing: its key references a path that must then not be imported because of it
				hidden := recipe.Qual("hidden.example/h"+strconv.Itoa(len(body)), "Hidden")
				if rapid.Bool().Draw(t, "nullside") {
					pairs = append(pairs, recipe.Pair{K: hidden, V: recipe.Null()})
				} else {
					pairs = append(pairs, recipe.Pair{K: recipe.Null(), V: hidden})
				}
			}
			if rapid.IntRange(0, 3).Draw(t, "bigdict") == 0 {
				// a table: the pairs that refer to packages among 8..30 that do not
				for j := rapid.IntRange(8, 30).Draw(t, "npad"); j > 0; j-- {
					pairs = append(pairs, recipe.Pair{K: recipe.Lit(fmt.Sprintf("pad%d-%d", len(body), j)), V: recipe.Lit(j)})
				}
			}
			body = append(body, recipe.S().C("Var").C("Id", "_").C("Op", "=").C("Map", anyT()).C("Interface").C("Values", recipe.Dict(pairs...)))
		case 2: // func _() { switch interface{}(nil) { case a, b: _ = c } }
			cases := chunk
			var rest []*recipe.Node
			if len(chunk) > 1 {
				cases, rest = chunk[:len(chunk)-1], chunk[len(chunk)-1:]
			}
			var stmts []*recipe.Node
			for _, r := range rest {
				stmts = append(stmts, recipe.Id("_").C("Op", "=").Add(r))
			}
			sw := recipe.S().C("Switch", recipe.S().C("Interface").C("Parens", recipe.S().C("Nil"))).C("Block",
				recipe.S().C("Case", cases).C("Block", stmts),
				recipe.S().C("Default").C("Block"))
			body = append(body, recipe.S().C("Func").C("Id", "_").C("Params").C("Block", sw))
		case 3: // func _() interface{} { return []interface{}{...} }
			body = append(body, recipe.S().C("Func").C("Id", "_").C("Params").C("Interface").C("Block",
				recipe.S().C("Return", recipe.S().C("Index").C("Interface").C("Values", chunk))))
		case 4: // var ( _ = a; _ = b )
			var defs []*recipe.Node
			for _, c := range chunk {
				defs = append(defs, recipe.Id("_").C("Op", "=").Add(c))
			}
			body = append(body, recipe.S().C("Var").C("Defs", defs))
		}
	}
	for len(typs) > 0 {
		k := rapid.IntRange(1, min(3, len(typs))).Draw(t, "packt")
		chunk := typs[:k]
		typs = typs[k:]
		switch rapid.IntRange(0, 2).Draw(t, "tshape") {
		case 0: // var _ T
			for _, c := range chunk {
				body = append(body, recipe.S().C("Var").C("Id", "_").Add(c))
			}
		case 1: // func _(a T, b T) {}
			var ps []*recipe.Node
			for i, c := range chunk {
				ps = append(ps, recipe.Id("a"+strconv.Itoa(i)).Add(c))
			}
			body = append(body, recipe.S().C("Func").C("Id", "_").C("Params", ps).C("Block"))
		case 2: // var _ struct { F0 T; F1 map[string]T }
			var fs []*recipe.Node
			for i, c := range chunk {
				if i%2 == 0 {
					fs = append(fs, recipe.Id("F"+strconv.Itoa(i)+"x").Add(c))
				} else {
					fs = append(fs, recipe.Id("F"+strconv.Itoa(i)+"x").C("Map", recipe.S().C("String")).Add(c))
				}
			}
			body = append(body, recipe.S().C("Var").C("Id", "_").C("Struct", fs))
		}
	}
	return body
}

// GuessBase approximates the base name jennifer derives from a path. It is
// used ONLY to classify generated cases (collision or not) for the evidence
// histogram, never for a verdict.
func GuessBase(path string) string {
	a := strings.TrimSuffix(path, "/")
	if i := strings.LastIndex(a, "/"); i >= 0 {
		a = a[i+1:]
	}
	a = strings.ToLower(a)
	sb := strings.Builder{}
	for _, r := range a {
		if r >= 'a' && r <= 'z' || r >= '0' && r <= '9' {
			sb.WriteRune(r)
		}
	}
	a = strings.TrimLeft(sb.String(), "0123456789")
	if a == "" {
		a = "pkg"
	}
	return a
}

// Features classifies a scenario for the evidence histogram.
type Features struct {
	Paths, Collisions, ReservedCand, Dots, Anons, Hints, UnusedHints                    int
	Prefix, Std, NonStd, Local, NearMiss, Cgo, HintLosesCollision, AnonThenRef, NullRef bool
}

func (sc *Scenario) Features() Features {
	m := ModelOf(&sc.File)
	f := Features{Paths: len(sc.Paths), Prefix: m.Prefix != "", Dots: len(m.Dot), Anons: len(m.Anon), Hints: len(m.Hint)}
	res := map[string]bool{}
	for _, r := range Reserved() {
		res[r] = true
	}
	cands := map[string]int{}
	ref := map[string]bool{}
	for _, p := range sc.Paths {
		ref[p] = true
		if m.HasLocal && p == m.Local || !m.HasLocal && p == "" {
			f.Local = true
			continue
		}
		if m.HasLocal && p != m.Local && (strings.Contains(p, m.Local) || strings.Contains(m.Local, p) || strings.EqualFold(p, m.Local)) {
			f.NearMiss = true
		}
		if p == "C" {
			f.Cgo = true
			continue
		}
		c := ""
		if h, ok := m.Hint[p]; ok {
			c = string(h.Args[1])
		} else if n := stdpkg.Name(p); n != "" {
			c = n
			f.Std = true
		} else {
			c = GuessBase(p)
			f.NonStd = true
		}
		if c == "." {
			continue
		}
		cands[c]++
		if res[c] {
			f.ReservedCand++
		}
		if m.Anon[p] {
			f.AnonThenRef = true
		}
	}
	for c, n := range cands {
		if n > 1 {
			f.Collisions += n - 1
			for p, h := range m.Hint {
				if ref[p] && string(h.Args[1]) == c {
					f.HintLosesCollision = true
				}
			}
		}
	}
	for p := range m.Hint {
		if !ref[p] {
			f.UnusedHints++
		}
	}
	for _, n := range sc.File.Body {
		recipe.Walk(n, func(x *recipe.Node) {
			if x != nil && x.Kind == recipe.KDict {
				for _, p := range x.Pairs {
					if len(p.K.Calls) == 1 && p.K.Calls[0].Fn == "Null" || len(p.V.Calls) == 1 && p.V.Calls[0].Fn == "Null" {
						f.NullRef = true
					}
				}
			}
		})
	}
	return f
}
