// Package imps generates import scenarios (a File constructor, a history of
// hint calls and settings, and a body that references packages through marker
// symbols) and checks the rendered file with the go/types import oracle.
// It serves C03, C04, C05, C06, C18 and C19, which differ in generator bias
// and in which facts they assert.
package imps

import (
	"bytes"
	"fmt"
	"go/token"
	"go/types"
	"regexp"
	"sort"
	"strconv"
	"strings"

	"github.com/dave/jennifer/jen"

	"verif/internal/impcheck"
	"verif/internal/recipe"
	"verif/internal/stdpkg"
)

// Scenario is one generated case.
type Scenario struct {
	File  recipe.File `json:"file"`
	Paths []string    `json:"paths"` // Paths[i] is the package that declares markers S<i>, T<i>, F<i>
	Note  string      `json:"note,omitempty"`
	// Split > 0: staged use of one File. The File is built with the first Split-1 settings and the whole body and
	// rendered once (result discarded); the remaining settings are applied afterwards and the File is rendered
	// again. The first render registered every path of the body, so the later hints, prefix and dot aliases can
	// no longer rename anything: the model is that of the early settings (plus the late anonymous imports,
	// preambles and NoFormat).
	Split int `json:"split,omitempty"`
	// Preview (staged scenarios only): before the File's first render the last Preview body statements are
	// rendered as fragments with RenderWithFile(w, file), last one first — the File meets the paths in another
	// order than its body has them.
	Preview int `json:"preview,omitempty"`
	// LateBody (staged scenarios whose settings are all early): the last LateBody body statements are added
	// to the File only after it has been rendered once.
	LateBody int `json:"latebody,omitempty"`
	// Sibling: the caller keeps ONE names table (a Go map object) for all its Files. Before this File is
	// built another File gets that same map object through ImportNames as its first hint, is then given dot
	// aliases, aliases and names of its own for this scenario's paths, and is rendered. This File's
	// ImportNames calls receive the same map object (refilled). What the sibling was told is its own business.
	Sibling bool `json:"sibling,omitempty"`
}

// prelude does what happens in the process before the scenario's File is built (see Scenario.Sibling) and
// builds — never renders, never adds to anything — look-alike references: for every dot in a referenced path
// P = Q + "." + R, a Qual(Q, R + "." + name) for the names the body uses with P. It returns the function
// that restores the harness' switches.
func (sc *Scenario) prelude() func() {
	// other Files of the same process whose renders failed just before (the writer refused the bytes; the
	// formatter rejected the source): nothing of them shows in this scenario's File
	func() {
		defer func() { _ = recover() }()
		d := jen.NewFile("zzfailed")
		d.Var().Id("ZZFAILEDFILE").Op("=").Qual("failed.example/util", "ZZFailed").Call()
		_ = d.Render(failingWriter{})
		d2 := jen.NewFile("zzfailed2")
		d2.Var().Id("ZZFAILEDFILE2").Op("=").Qual("failed.example/other/util", "ZZFailed2").Op(")")
		_ = d2.Render(&bytes.Buffer{})
	}()
	for _, n := range sc.File.Body {
		recipe.Walk(n, func(x *recipe.Node) {
			if x == nil {
				return
			}
			for i := range x.Calls {
				c := &x.Calls[i]
				if c.Fn != "Qual" || len(c.Str) < 2 {
					continue
				}
				path, name := string(c.Str[0]), string(c.Str[1])
				for j := 0; j < len(path); j++ {
					if path[j] == '.' && j > 0 && j+1 < len(path) {
						_ = jen.Qual(path[:j], path[j+1:]+"."+name)
					}
				}
				// and the other way round: a path that continues this one behind a dot
				_ = jen.Qual(path+"."+name, name)
			}
		})
	}
	if !sc.Sibling {
		return func() {}
	}
	table := map[string]string{}
	recipe.CallerTable = table
	sib := jen.NewFile("sibling")
	for i := range sc.File.Ops {
		if sc.File.Ops[i].Op == "ImportNames" {
			// the same map object, the same paths (so the same size), the sibling's own names for them
			op := sc.File.Ops[i]
			op.Map = map[string]string{}
			for p := range sc.File.Ops[i].Map {
				op.Map[p] = "zzsibname" + strconv.Itoa(len(op.Map))
			}
			recipe.ApplyFileOp(sib, &op)
			break
		}
	}
	for i, p := range sc.Paths {
		if p == "" || p == "C" {
			continue
		}
		switch i % 3 {
		case 0:
			sib.ImportAlias(p, ".")
		case 1:
			sib.ImportName(p, "zzsib"+strconv.Itoa(i))
		default:
			sib.ImportAlias(p, "zzsibal"+strconv.Itoa(i))
		}
		sib.Var().Id("_").Op("=").Qual(p, "X"+strconv.Itoa(i))
	}
	_ = sib.Render(&bytes.Buffer{})
	return func() { recipe.CallerTable = nil }
}

// StagedModel is the model of a staged scenario (see Scenario.Split).
func (sc *Scenario) StagedModel() *Model {
	k := sc.Split - 1
	if k > len(sc.File.Ops) {
		k = len(sc.File.Ops)
	}
	early := sc.File
	early.Ops = sc.File.Ops[:k]
	m := ModelOf(&early)
	referenced := map[string]bool{}
	for _, p := range sc.Paths {
		referenced[p] = true
	}
	for _, op := range sc.File.Ops[k:] {
		switch op.Op {
		case "Anon":
			for _, a := range op.Args {
				m.Anon[string(a)] = true
			}
		case "CgoPreamble":
			m.Preamble = append(m.Preamble, string(op.Args[0]))
		case "NoFormat":
			m.NoFormat = true
		}
	}
	return m
}

type failingWriter struct{}

func (failingWriter) Write(p []byte) (int, error) { return 0, fmt.Errorf("writer fails") }

// RenderStaged performs the staged use described at Scenario.Split.
func (sc *Scenario) RenderStaged() ([]byte, error) {
	out, _, err := sc.renderStaged()
	return out, err
}

// renderStaged also returns the outputs of the fragment previews.
func (sc *Scenario) renderStaged() ([]byte, []string, error) {
	defer sc.prelude()()
	k := sc.Split - 1
	if k > len(sc.File.Ops) {
		k = len(sc.File.Ops)
	}
	early := sc.File.Clone()
	late := early.Ops[k:]
	early.Ops = early.Ops[:k]
	var lateBody []*recipe.Node
	if n := sc.LateBody; n > 0 && n <= len(early.Body) {
		lateBody = early.Body[len(early.Body)-n:]
		early.Body = early.Body[:len(early.Body)-n]
	}
	b := &recipe.Builder{}
	f := b.File(early)
	var previews []string
	all := append(append([]*recipe.Node{}, early.Body...), lateBody...)
	for i, k := len(all)-1, 0; i >= 0 && k < sc.Preview; i, k = i-1, k+1 {
		if n := all[i]; n != nil && n.Kind == recipe.KStmt {
			func() {
				defer func() { _ = recover() }()
				buf := &bytes.Buffer{}
				st := (&recipe.Builder{}).Stmt(n)
				if k%2 == 1 {
					// every other fragment is a group (the one a ...Func callback was handed) holding the statement
					var grp *jen.Group
					jen.CustomFunc(jen.Options{Multi: true}, func(g *jen.Group) { grp = g; g.Add(st) })
					if grp.RenderWithFile(buf, f) == nil {
						previews = append(previews, buf.String())
					}
					return
				}
				if st.RenderWithFile(buf, f) == nil {
					previews = append(previews, buf.String())
				}
			}()
		}
	}
	// the first use of the File: a render into a writer that fails (nothing of it may stick), then a good one
	_ = f.Render(failingWriter{})
	_ = f.Render(&bytes.Buffer{})
	for i := range late {
		recipe.ApplyFileOp(f, &late[i])
	}
	for _, n := range lateBody {
		b.AddToFile(f, n)
	}
	buf := &bytes.Buffer{}
	if err := f.Render(buf); err != nil {
		return nil, previews, err
	}
	return buf.Bytes(), previews, nil
}

// Model is what the scenario's File configuration means, computed
// independently of jennifer.
type Model struct {
	Local    string
	HasLocal bool // false for NewFile: then the local path is "" (Qual("", x) is local)
	Prefix   string
	Hint     map[string]recipe.FileOp // final hint per path
	Dot      map[string]bool
	Anon     map[string]bool
	Preamble []string
	NoFormat bool
}

// ModelOf interprets the file recipe.
func ModelOf(f *recipe.File) *Model {
	m := &Model{Hint: map[string]recipe.FileOp{}, Dot: map[string]bool{}, Anon: map[string]bool{}}
	switch f.Ctor {
	case "NewFilePath", "NewFilePathName":
		m.HasLocal = true
		m.Local = string(f.Args[0])
	}
	for _, op := range f.Ops {
		switch op.Op {
		case "ImportName", "ImportAlias":
			m.Hint[string(op.Args[0])] = op
		case "ImportNames":
			for p, n := range op.Map {
				m.Hint[p] = recipe.FileOp{Op: "ImportName", Args: []recipe.Text{recipe.Text(p), recipe.Text(n)}}
			}
		case "Anon":
			for _, a := range op.Args {
				m.Anon[string(a)] = true
			}
		case "PackagePrefix":
			m.Prefix = string(op.Args[0])
		case "CgoPreamble":
			m.Preamble = append(m.Preamble, string(op.Args[0]))
		case "NoFormat":
			m.NoFormat = true
		}
	}
	for p, h := range m.Hint {
		if h.Op == "ImportAlias" && string(h.Args[1]) == "." && p != "C" && !(m.HasLocal && p == m.Local) {
			m.Dot[p] = true
		}
	}
	return m
}

// IsLocal reports whether a reference to path is a reference to the file's own package.
func (m *Model) IsLocal(path string) bool { return path == m.Local }

// LegalPkgName reports whether s can be the declared name of a package.
func LegalPkgName(s string) bool {
	return token.IsIdentifier(s) && s != "_"
}

// Real returns the declared name of the fabricated package at path: the name
// the user asserted with ImportName, else the standard library's real name,
// else a name nothing could guess.
func (sc *Scenario) Real(m *Model) func(string) string {
	idx := map[string]int{}
	for i, p := range sc.Paths {
		if _, ok := idx[p]; !ok {
			idx[p] = i
		}
	}
	return func(path string) string {
		if path == "C" {
			return "C"
		}
		if h, ok := m.Hint[path]; ok && h.Op == "ImportName" && LegalPkgName(string(h.Args[1])) {
			return string(h.Args[1])
		}
		if n := stdpkg.Name(path); n != "" {
			return n
		}
		if i, ok := idx[path]; ok {
			return "zzreal" + strconv.Itoa(i)
		}
		return "zzother"
	}
}

// Outcome is a rendered and analysed scenario.
type Outcome struct {
	Src       []byte
	RenderErr error
	Rep       *impcheck.Report
	Model     *Model
	Markers   map[string]string
	// Previews: outputs of the fragment renders made against the File before its first render (staged scenarios)
	Previews []string
}

// Render builds the scenario's File with the baseline builder and renders it.
func (sc *Scenario) Render() ([]byte, error) {
	defer sc.prelude()()
	return recipe.RenderFile(recipe.BuildFile(&sc.File))
}

// Markers returns marker -> path.
func (sc *Scenario) Markers() map[string]string {
	mk := map[string]string{}
	for i, p := range sc.Paths {
		for _, k := range []string{"S", "T", "F"} {
			mk[k+strconv.Itoa(i)] = p
		}
	}
	return mk
}

// RenderAfterWarmup builds the body once, renders it inside another File first (different
// name, no hints), and then adds the very same Code values to the scenario's File.
func (sc *Scenario) RenderAfterWarmup() ([]byte, error) { return sc.RenderAfterWarmupIn(nil) }

// RenderAfterWarmupIn is RenderAfterWarmup with a given warm-up File (constructor and settings).
func (sc *Scenario) RenderAfterWarmupIn(warmFile *recipe.File) ([]byte, error) {
	shared := sc.File.Clone()
	ref := 1
	for _, n := range shared.Body {
		if n != nil && (n.Kind == recipe.KStmt || n.Kind == recipe.KDict) {
			n.Ref = ref
			ref++
		}
	}
	b := &recipe.Builder{}
	if warmFile == nil {
		warmFile = &recipe.File{Ctor: "NewFile", Args: []recipe.Text{"warmup"}}
	}
	wf := warmFile.Clone()
	wf.Body = shared.Body
	warm := b.File(wf)
	_ = warm.Render(&bytes.Buffer{})
	f := b.File(shared)
	buf := &bytes.Buffer{}
	if err := f.Render(buf); err != nil {
		return nil, err
	}
	return buf.Bytes(), nil
}

// Run renders and analyses.
func (sc *Scenario) Run() (*Outcome, error) { return sc.run(false) }

// RunAfterWarmup is Run with the body's Code values rendered in another File beforehand.
func (sc *Scenario) RunAfterWarmup() (*Outcome, error) { return sc.run(true) }

// RunAfterWarmupIn: the body's Code values are first rendered inside the given File.
func (sc *Scenario) RunAfterWarmupIn(warmFile *recipe.File) (*Outcome, error) {
	return sc.runWith(true, warmFile)
}

func (sc *Scenario) run(warm bool) (*Outcome, error) { return sc.runWith(warm, nil) }

func (sc *Scenario) runWith(warm bool, warmFile *recipe.File) (*Outcome, error) {
	m := ModelOf(&sc.File)
	if sc.Split > 0 && !warm {
		m = sc.StagedModel()
	}
	o := &Outcome{Model: m, Markers: sc.Markers()}
	var src []byte
	var err error
	switch {
	case warm:
		src, err = sc.RenderAfterWarmupIn(warmFile)
	case sc.Split > 0:
		src, o.Previews, err = sc.renderStaged()
	default:
		src, err = sc.Render()
	}
	if err != nil {
		o.RenderErr = err
		return o, nil
	}
	o.Src = src
	rep, err := analyse(sc, m, o, src)
	if err != nil {
		return o, err
	}
	o.Rep = rep
	return o, nil
}

func analyse(sc *Scenario, m *Model, o *Outcome, src []byte) (*impcheck.Report, error) {
	w := &impcheck.World{Real: sc.Real(m), Markers: o.Markers, LocalPath: m.Local, HasLocal: true}
	rep, err := impcheck.Analyze(src, w)
	if err != nil {
		return nil, fmt.Errorf("%v\n--- output ---\n%s", err, src)
	}
	return rep, nil
}

func (o *Outcome) fail(format string, a ...interface{}) error {
	return fmt.Errorf("%s\n--- output ---\n%s", fmt.Sprintf(format, a...), o.Src)
}

// AssertRendered: the scenario is inside the documented domain, so the File must render.
func (o *Outcome) AssertRendered() error {
	if o.RenderErr != nil {
		msg := o.RenderErr.Error()
		if len(msg) > 1500 {
			msg = msg[:1500] + "…"
		}
		return fmt.Errorf("File.Render failed for a scenario inside the domain: %s", msg)
	}
	return nil
}

// AssertResolution (C03): every marker occurrence resolves to the package it
// was built with, through one qualifier per path, and the file type-checks.
func (o *Outcome) AssertResolution() error {
	if err := o.AssertRendered(); err != nil {
		return err
	}
	quals := map[string]map[string]bool{}
	for _, u := range o.Rep.Uses {
		want := o.Markers[u.Marker]
		if u.Path != want {
			return o.fail("marker %s was built with path %q but %q resolves to %q", u.Marker, want, render(u), u.Path)
		}
		local := o.Model.IsLocal(want)
		dot := o.Model.Dot[want]
		if (local || dot) != (u.Qualifier == "") {
			// qualified although local/dot, or bare although neither
			return o.fail("marker %s (path %q, local=%v dot=%v) appears as %q", u.Marker, want, local, dot, render(u))
		}
		if quals[want] == nil {
			quals[want] = map[string]bool{}
		}
		quals[want][u.Qualifier] = true
	}
	for p, qs := range quals {
		if len(qs) > 1 {
			return o.fail("path %q is referred to by %d different qualifiers %v", p, len(qs), keys(qs))
		}
	}
	if len(o.Rep.TypeErrors) > 0 {
		return o.fail("output does not type-check against the fabricated packages: %s", strings.Join(o.Rep.TypeErrors, "; "))
	}
	return o.assertPreviews()
}

var markerRe = regexp.MustCompile(`(?:([\pL_][\pL\pN_]*)\s*\.\s*)?\b([STF][0-9]+)\b`)

// assertPreviews: what a fragment rendered against the File showed before the File's first render is
// what the File itself shows: local and dot-imported paths bare, every other path under the name the
// File's import block gives it.
func (o *Outcome) assertPreviews() error {
	if len(o.Previews) == 0 || o.Rep == nil {
		return nil
	}
	final := map[string]string{} // path -> qualifier in the File's output
	for _, u := range o.Rep.Uses {
		final[o.Markers[u.Marker]] = u.Qualifier
	}
	for _, pv := range o.Previews {
		for _, m := range markerRe.FindAllStringSubmatch(pv, -1) {
			q, marker := m[1], m[2]
			p, ok := o.Markers[marker]
			if !ok {
				continue
			}
			bare := o.Model.IsLocal(p) || o.Model.Dot[p]
			if bare {
				if q != "" {
					return o.fail("a fragment rendered with RenderWithFile(w, file) before the File's first render shows the local / dot-imported path %q as %s.%s\n--- fragment ---\n%s", p, q, marker, pv)
				}
				continue
			}
			if q == "" {
				return o.fail("a fragment rendered with RenderWithFile(w, file) shows path %q (neither local nor dot-imported) bare: %s\n--- fragment ---\n%s", p, marker, pv)
			}
			if fq, used := final[p]; used && fq != q {
				return o.fail("a fragment rendered with RenderWithFile(w, file) before the File's first render called path %q %q; the File's own output calls it %q\n--- fragment ---\n%s", p, q, fq, pv)
			}
		}
	}
	return nil
}

func render(u impcheck.Use) string {
	if u.Qualifier == "" {
		return u.Marker
	}
	return u.Qualifier + "." + u.Marker
}

func keys(m map[string]bool) []string {
	var out []string
	for k := range m {
		out = append(out, k)
	}
	sort.Strings(out)
	return out
}

// AssertExactImports (C04): imports = referenced paths ∪ anonymous imports, once each.
func (o *Outcome) AssertExactImports() error {
	if err := o.AssertRendered(); err != nil {
		return err
	}
	seen := map[string]int{}
	for _, imp := range o.Rep.Imports {
		seen[imp.Path]++
	}
	for p, n := range seen {
		if n > 1 {
			return o.fail("path %q is imported %d times", p, n)
		}
	}
	used := map[string]bool{}
	for _, u := range o.Rep.Uses {
		p := o.Markers[u.Marker]
		if !o.Model.IsLocal(p) {
			used[p] = true
		}
	}
	for p := range used {
		if seen[p] == 0 {
			return o.fail("path %q is referenced in the body but not imported", p)
		}
	}
	cgo := len(o.Model.Preamble) > 0
	for _, imp := range o.Rep.Imports {
		p := imp.Path
		switch {
		case used[p]:
			if imp.Name == "_" {
				return o.fail("path %q is referenced but imported as _", p)
			}
		case o.Model.Anon[p]:
			if p == "C" {
				if imp.Name != "" {
					return o.fail("anonymous import of \"C\" has name %q", imp.Name)
				}
			} else if imp.Name != "_" {
				return o.fail("path %q was only added with Anon but is imported as %q", p, imp.Name)
			}
		case p == "C" && cgo:
		default:
			return o.fail("path %q is imported but neither referenced by rendered code nor anonymous", p)
		}
	}
	for p := range o.Model.Anon {
		if seen[p] == 0 {
			return o.fail("anonymous import %q is missing", p)
		}
	}
	for _, imp := range o.Rep.Imports {
		if imp.Name != "_" && imp.Path != "C" && !imp.Used {
			return o.fail("import %q (%s) is unused", imp.Path, imp.Name)
		}
	}
	return o.assertPreviews()
}

// AssertLegalNames (C05): names are pairwise distinct legal identifiers.
func (o *Outcome) AssertLegalNames() error {
	if err := o.AssertRendered(); err != nil {
		return err
	}
	real := map[string]string{}
	byName := map[string]string{}
	w := o.Rep
	for _, imp := range w.Imports {
		name := imp.Name
		if name == "_" || name == "." {
			continue
		}
		if name != "" {
			if !token.IsIdentifier(name) {
				return o.fail("import alias %q for %q is not a valid identifier", name, imp.Path)
			}
			if token.IsKeyword(name) {
				return o.fail("import alias %q for %q is a keyword", name, imp.Path)
			}
			if types.Universe.Lookup(name) != nil {
				return o.fail("import alias %q for %q is a predeclared identifier", name, imp.Path)
			}
			if name == "C" && imp.Path != "C" {
				return o.fail("import alias C used for %q", imp.Path)
			}
		}
		real[imp.Path] = name
	}
	// effective names (alias, or the declared name when no alias is written) must be pairwise distinct
	for _, u := range w.Uses {
		if u.Qualifier == "" {
			continue
		}
		if prev, ok := byName[u.Qualifier]; ok && prev != o.Markers[u.Marker] {
			return o.fail("qualifier %q is used for both %q and %q", u.Qualifier, prev, o.Markers[u.Marker])
		}
		byName[u.Qualifier] = o.Markers[u.Marker]
		if token.IsKeyword(u.Qualifier) || types.Universe.Lookup(u.Qualifier) != nil {
			return o.fail("qualifier %q (for %q) is a keyword or predeclared identifier", u.Qualifier, o.Markers[u.Marker])
		}
	}
	names := map[string]string{}
	for _, imp := range w.Imports {
		if imp.Name == "_" || imp.Name == "." {
			continue
		}
		eff := imp.Name
		if eff == "" {
			// no alias written: the effective name is whatever the body uses for this path
			for q, p := range byName {
				if p == imp.Path {
					eff = q
				}
			}
		}
		if eff == "" {
			continue
		}
		if prev, ok := names[eff]; ok && prev != imp.Path {
			return o.fail("imports %q and %q share the name %q", prev, imp.Path, eff)
		}
		names[eff] = imp.Path
	}
	return o.assertPreviews()
}

// AssertLocalDot (C06).
func (o *Outcome) AssertLocalDot() error {
	if err := o.AssertRendered(); err != nil {
		return err
	}
	for _, imp := range o.Rep.Imports {
		if o.Model.IsLocal(imp.Path) && o.Model.HasLocal && !(o.Model.Anon[imp.Path] && imp.Name == "_") {
			return o.fail("the file's own package path %q is imported", imp.Path)
		}
	}
	dotSpecs := map[string]int{}
	referenced := map[string]bool{}
	for _, u := range o.Rep.Uses {
		referenced[o.Markers[u.Marker]] = true
	}
	for _, imp := range o.Rep.Imports {
		if imp.Name == "." {
			dotSpecs[imp.Path]++
		}
		// (a dot hint for a path that is only imported anonymously and never referenced produces
		// no dot import: hints for unreferenced paths produce nothing, and Anon gives `_`)
		if o.Model.Dot[imp.Path] && imp.Name != "." && referenced[imp.Path] {
			return o.fail("path %q was declared a dot-import but is imported as %q", imp.Path, imp.Name)
		}
		if !o.Model.Dot[imp.Path] && imp.Name == "." {
			return o.fail("path %q is dot-imported but was never declared so", imp.Path)
		}
	}
	for _, u := range o.Rep.Uses {
		p := o.Markers[u.Marker]
		switch {
		case o.Model.IsLocal(p):
			if u.Qualifier != "" {
				return o.fail("reference to the local package %q is qualified: %s", p, render(u))
			}
		case o.Model.Dot[p]:
			if u.Qualifier != "" {
				return o.fail("reference to dot-imported %q is qualified: %s", p, render(u))
			}
			if dotSpecs[p] != 1 {
				return o.fail("dot-imported path %q has %d `. \"path\"` specs", p, dotSpecs[p])
			}
		default:
			if u.Qualifier == "" {
				return o.fail("reference to %q (neither local nor dot-imported) is bare", p)
			}
		}
		if u.Path != p {
			return o.fail("marker %s built with %q resolves to %q", u.Marker, p, u.Path)
		}
	}
	return o.assertPreviews()
}
