package imps

import (
	"bytes"
	"context"
	"encoding/hex"
	"encoding/json"
	"fmt"
	"io"
	"os"
	"os/exec"
	"strings"
	"time"

	"github.com/dave/jennifer/jen"

	"verif/internal/recipe"
)

// FreshJob is what a re-executed, fresh process does: optionally a few first uses of the package's exported
// helpers (a generator that sanitises identifiers before it builds any File), then the scenario's File is
// built and rendered — the first File that process ever sees.
type FreshJob struct {
	First    []string `json:"first,omitempty"` // words handed to jen.IsReservedWord before anything else
	Scenario Scenario `json:"scenario"`
}

// RenderFresh re-executes the test binary (its TestImpsFreshChild must call FreshChild) and returns what the
// scenario's File renders there. ok=false: the process could not be re-executed (nothing to compare).
func RenderFresh(job FreshJob) (out []byte, renderErr string, ok bool) {
	in, _ := json.Marshal(job)
	ctx, cancel := context.WithTimeout(context.Background(), 2*time.Minute)
	defer cancel()
	cmd := exec.CommandContext(ctx, os.Args[0], "-test.run=^TestImpsFreshChild$")
	cmd.Env = append(os.Environ(), "VERIF_IMPS_CHILD=1", "VERIF_OUT=", "VERIF_REPLAY=", "GORACE=atexit_sleep_ms=0")
	cmd.Stdin = bytes.NewReader(in)
	raw, err := cmd.Output()
	if err != nil {
		return nil, "", false
	}
	i := bytes.Index(raw, []byte("RESULT:"))
	if i < 0 {
		return nil, "", false
	}
	hs := strings.TrimSpace(string(raw[i+len("RESULT:"):]))
	if j := strings.IndexAny(hs, "\n "); j >= 0 {
		hs = hs[:j]
	}
	b, err := hex.DecodeString(hs)
	if err != nil {
		return nil, "", false
	}
	if bytes.HasPrefix(b, []byte("ERROR:")) {
		return nil, string(b[6:]), true
	}
	return bytes.TrimPrefix(b, []byte("OK:")), "", true
}

// FreshChild is the re-executed half; it returns false when the process is no child.
func FreshChild() bool {
	if os.Getenv("VERIF_IMPS_CHILD") == "" {
		return false
	}
	in, _ := io.ReadAll(os.Stdin)
	job := FreshJob{}
	if err := json.Unmarshal(in, &job); err != nil {
		fmt.Println("bad input:", err)
		return true
	}
	for _, w := range job.First {
		_ = jen.IsReservedWord(w)
	}
	res := ""
	func() {
		defer func() {
			if p := recover(); p != nil {
				res = fmt.Sprintf("ERROR:panic: %v", p)
			}
		}()
		buf := &bytes.Buffer{}
		if err := recipe.BuildFile(&job.Scenario.File).Render(buf); err != nil {
			res = "ERROR:" + err.Error()
			return
		}
		res = "OK:" + buf.String()
	}()
	fmt.Printf("RESULT:%s\n", hex.EncodeToString([]byte(res)))
	return true
}

// RunFresh renders the scenario in a fresh process and analyses the output like Run does.
func (sc *Scenario) RunFresh(first []string) (*Outcome, bool, error) {
	m := ModelOf(&sc.File)
	o := &Outcome{Model: m, Markers: sc.Markers()}
	src, rerr, ok := RenderFresh(FreshJob{First: first, Scenario: *sc})
	if !ok {
		return nil, false, nil
	}
	if rerr != "" {
		o.RenderErr = fmt.Errorf("%s", rerr)
		return o, true, nil
	}
	o.Src = src
	rep, err := analyse(sc, m, o, src)
	if err != nil {
		return o, true, err
	}
	o.Rep = rep
	return o, true, nil
}
