// Package stdpkg reads the real package names of the installed toolchain's
// standard library straight from the package clauses under GOROOT/src — an
// oracle independent both of jennifer's table and of `go list` (which
// gennames uses).
package stdpkg

import (
	"go/build"
	"go/parser"
	"go/token"
	"os"
	"path/filepath"
	"runtime"
	"sort"
	"strings"
	"sync"
)

type Pkg struct {
	Path       string
	Name       string
	Importable bool // not internal / vendor / cmd: importable from user code
	Buildable  bool // go/build finds buildable Go files for the default context (GOOS/GOARCH/tags of this toolchain)
}

var (
	once sync.Once
	all  []Pkg
	byP  map[string]Pkg
	root string
)

// Root returns GOROOT/src with symlinks resolved.
func Root() string {
	load()
	return root
}

func load() {
	once.Do(func() {
		r := filepath.Join(runtime.GOROOT(), "src")
		if rr, err := filepath.EvalSymlinks(r); err == nil {
			r = rr
		}
		root = r
		byP = map[string]Pkg{}
		_ = filepath.WalkDir(r, func(p string, d os.DirEntry, err error) error {
			if err != nil {
				return nil
			}
			if !d.IsDir() {
				return nil
			}
			base := d.Name()
			if p != r && (base == "testdata" || strings.HasPrefix(base, ".") || strings.HasPrefix(base, "_")) {
				return filepath.SkipDir
			}
			rel, _ := filepath.Rel(r, p)
			rel = filepath.ToSlash(rel)
			if rel == "." {
				return nil
			}
			if rel == "cmd" {
				return filepath.SkipDir
			}
			name := clause(p)
			if name == "" || name == "main" {
				return nil
			}
			imp := true
			for _, part := range strings.Split(rel, "/") {
				if part == "internal" || part == "vendor" {
					imp = false
				}
			}
			path := rel
			if i := strings.Index(rel, "vendor/"); i >= 0 {
				// vendored packages are imported by the path below vendor/
				path = rel[i+len("vendor/"):]
				if _, dup := byP[path]; dup {
					return nil
				}
			}
			pk := Pkg{Path: path, Name: name, Importable: imp}
			if bp, err := build.Default.ImportDir(p, 0); err == nil && len(bp.GoFiles)+len(bp.CgoFiles) > 0 {
				pk.Buildable = true
			}
			all = append(all, pk)
			byP[path] = pk
			return nil
		})
		sort.Slice(all, func(i, j int) bool { return all[i].Path < all[j].Path })
	})
}

// clause returns the package name declared by the non-test files of dir
// (ignoring build constraints: every non-test file of a directory must agree,
// apart from `package main` helper programs guarded by "ignore" tags).
func clause(dir string) string {
	ents, err := os.ReadDir(dir)
	if err != nil {
		return ""
	}
	counts := map[string]int{}
	fset := token.NewFileSet()
	for _, e := range ents {
		n := e.Name()
		if e.IsDir() || !strings.HasSuffix(n, ".go") || strings.HasSuffix(n, "_test.go") {
			continue
		}
		f, err := parser.ParseFile(fset, filepath.Join(dir, n), nil, parser.PackageClauseOnly)
		if err != nil {
			continue
		}
		counts[f.Name.Name]++
	}
	best, bn := "", 0
	for n, c := range counts {
		if n == "main" && len(counts) > 1 {
			continue
		}
		if c > bn || c == bn && n < best {
			best, bn = n, c
		}
	}
	return best
}

// All lists every package directory found (sorted by path).
func All() []Pkg { load(); return all }

// Name returns the declared name of a std package path ("" if not found).
func Name(path string) string { load(); return byP[path].Name }

// Has reports whether path is a package of the installed standard library.
func Has(path string) bool { load(); _, ok := byP[path]; return ok }
