package stdpkg

import "testing"

func TestLoad(t *testing.T) {
	n, imp := 0, 0
	for _, p := range All() {
		n++
		if p.Importable {
			imp++
		}
	}
	t.Logf("root=%s n=%d importable=%d fmt=%s rand=%s v2=%s", Root(), n, imp, Name("fmt"), Name("math/rand"), Name("math/rand/v2"))
	if Name("fmt") != "fmt" || n < 200 {
		t.Fatal("scan failed")
	}
}
