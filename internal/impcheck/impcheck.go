// Package impcheck is the import oracle: it type-checks a rendered file with
// go/types against fabricated packages and reports, for every marker symbol,
// which package it actually resolves to. Nothing here looks at jennifer's
// internals or at compiler message texts.
package impcheck

import (
	"fmt"
	"go/ast"
	"go/parser"
	"go/token"
	"go/types"
	"sort"
	"strconv"
	"strings"
)

// World describes the fabricated packages.
type World struct {
	// Real returns the declared name of the package at path.
	Real func(path string) string
	// Markers maps a marker symbol (S12 variable, T12 type, F12 function) to
	// the path of the package that declares it. A marker whose path equals
	// LocalPath is declared in the file's own package.
	Markers   map[string]string
	LocalPath string
	HasLocal  bool
}

// Import is one import spec of the output.
type Import struct {
	Name   string // "" when the spec has no name
	Path   string
	Decl   int    // index of the import declaration in the file
	Parens bool   // the declaration is parenthesised
	Doc    string // doc comment text of the spec (or of an unparenthesised single-spec decl)
	Used   bool
}

// Use is one occurrence of a marker.
type Use struct {
	Marker    string
	Qualifier string // "" for a bare identifier
	Path      string // package the occurrence resolves to ("" unresolved)
}

// Report is the analysis result.
type Report struct {
	Package    string
	Imports    []Import
	Uses       []Use
	TypeErrors []string
	File       *ast.File
	Fset       *token.FileSet
}

type importer struct {
	w    *World
	pkgs map[string]*types.Package
}

func markerObj(pkg *types.Package, name string) types.Object {
	switch name[0] {
	case 'T':
		tn := types.NewTypeName(token.NoPos, pkg, name, nil)
		types.NewNamed(tn, types.NewStruct(nil, nil), nil)
		return tn
	case 'F':
		any := types.NewInterfaceType(nil, nil)
		params := types.NewTuple(types.NewVar(token.NoPos, pkg, "a", types.NewSlice(any)))
		res := types.NewTuple(types.NewVar(token.NoPos, pkg, "", any))
		return types.NewFunc(token.NoPos, pkg, name, types.NewSignatureType(nil, nil, nil, params, res, true))
	default:
		return types.NewVar(token.NoPos, pkg, name, types.Typ[types.Int])
	}
}

func (im *importer) Import(path string) (*types.Package, error) {
	if p, ok := im.pkgs[path]; ok {
		return p, nil
	}
	name := im.w.Real(path)
	p := types.NewPackage(path, name)
	for m, mp := range im.w.Markers {
		if mp == path {
			p.Scope().Insert(markerObj(p, m))
		}
	}
	p.MarkComplete()
	im.pkgs[path] = p
	return p, nil
}

// Analyze parses and type-checks src.
func Analyze(src []byte, w *World) (*Report, error) {
	fset := token.NewFileSet()
	f, err := parser.ParseFile(fset, "out.go", src, parser.ParseComments)
	if err != nil {
		return nil, fmt.Errorf("output does not parse: %v", err)
	}
	rep := &Report{Package: f.Name.Name, File: f, Fset: fset}
	files := []*ast.File{f}
	// companion file: local markers
	var local []string
	if w.HasLocal {
		for m, mp := range w.Markers {
			if mp == w.LocalPath {
				local = append(local, m)
			}
		}
		sort.Strings(local)
	}
	if len(local) > 0 {
		sb := &strings.Builder{}
		fmt.Fprintf(sb, "package %s\n", f.Name.Name)
		for _, m := range local {
			switch m[0] {
			case 'T':
				fmt.Fprintf(sb, "type %s struct{}\n", m)
			case 'F':
				fmt.Fprintf(sb, "func %s(a ...interface{}) interface{} { return nil }\n", m)
			default:
				fmt.Fprintf(sb, "var %s int\n", m)
			}
		}
		cf, err := parser.ParseFile(fset, "companion.go", sb.String(), 0)
		if err != nil {
			return nil, fmt.Errorf("companion: %v", err)
		}
		files = append(files, cf)
	}
	info := &types.Info{Uses: map[*ast.Ident]types.Object{}, Defs: map[*ast.Ident]types.Object{}, Implicits: map[ast.Node]types.Object{}}
	conf := types.Config{
		Importer: &importer{w: w, pkgs: map[string]*types.Package{}},
		// "C" is served by the fabricated importer like any other path (with FakeImportC go/types
		// treats every C.x operand as invalid and stops visiting the expressions around it)
		Error: func(err error) {
			if te, ok := err.(types.Error); ok {
				// an `import "C"` that nothing refers to is normal for cgo (Anon("C"), or a
				// preamble only); the fabricated "C" package makes go/types flag it as
				// unused. Skip errors positioned on that import spec.
				for _, d := range f.Decls {
					if gd, ok := d.(*ast.GenDecl); ok && gd.Tok == token.IMPORT {
						for _, sp := range gd.Specs {
							is := sp.(*ast.ImportSpec)
							if is.Path.Value == `"C"` && is.Name == nil && te.Pos >= is.Pos() && te.Pos <= is.End() {
								return
							}
						}
					}
				}
			}
			rep.TypeErrors = append(rep.TypeErrors, err.Error())
		},
	}
	localPath := w.LocalPath
	if localPath == "" {
		localPath = "local/" + f.Name.Name
	}
	_, _ = conf.Check(localPath, fset, files, info)

	// imports
	pkgNames := map[*types.PkgName]int{}
	for di, d := range f.Decls {
		gd, ok := d.(*ast.GenDecl)
		if !ok || gd.Tok != token.IMPORT {
			continue
		}
		for _, sp := range gd.Specs {
			is := sp.(*ast.ImportSpec)
			path, _ := strconv.Unquote(is.Path.Value)
			imp := Import{Path: path, Decl: di, Parens: gd.Lparen.IsValid()}
			if is.Name != nil {
				imp.Name = is.Name.Name
			}
			doc := is.Doc
			if doc == nil && !gd.Lparen.IsValid() {
				doc = gd.Doc
			}
			if doc != nil {
				var parts []string
				for _, c := range doc.List {
					parts = append(parts, c.Text)
				}
				imp.Doc = strings.Join(parts, "\n")
			}
			var obj types.Object
			if is.Name != nil {
				obj = info.Defs[is.Name]
			} else {
				obj = info.Implicits[is]
			}
			if pn, ok := obj.(*types.PkgName); ok {
				pkgNames[pn] = len(rep.Imports)
			}
			rep.Imports = append(rep.Imports, imp)
		}
	}
	// uses
	isMarker := func(name string) bool {
		_, ok := w.Markers[name]
		return ok
	}
	dotPath := map[string]int{}
	for i, imp := range rep.Imports {
		if imp.Name == "." {
			dotPath[imp.Path] = i
		}
	}
	seenSel := map[*ast.Ident]bool{}
	cImport := -1
	for i, imp := range rep.Imports {
		if imp.Path == "C" && imp.Name == "" {
			cImport = i
		}
	}
	ast.Inspect(f, func(n ast.Node) bool {
		switch n := n.(type) {
		case *ast.SelectorExpr:
			q, ok := n.X.(*ast.Ident)
			if !ok {
				return true
			}
			if pn, ok := info.Uses[q].(*types.PkgName); ok {
				if i, ok := pkgNames[pn]; ok {
					rep.Imports[i].Used = true
				}
				seenSel[n.Sel] = true
				if isMarker(n.Sel.Name) {
					rep.Uses = append(rep.Uses, Use{Marker: n.Sel.Name, Qualifier: q.Name, Path: pn.Imported().Path()})
				}
			} else if isMarker(n.Sel.Name) {
				seenSel[n.Sel] = true
				u := Use{Marker: n.Sel.Name, Qualifier: q.Name, Path: ""}
				if q.Name == "C" && cImport >= 0 && info.Uses[q] == nil {
					// go/types stops descending into expressions that involve the fake "C"
					// package (a C.x operand is "invalid"), so later C.x occurrences are not
					// recorded; an unshadowed C with `import "C"` present is that import.
					u.Path = "C"
					rep.Imports[cImport].Used = true
				}
				rep.Uses = append(rep.Uses, u)
			}
		case *ast.Ident:
			if seenSel[n] {
				return true
			}
			obj := info.Uses[n]
			if obj != nil && obj.Pkg() != nil {
				if i, ok := dotPath[obj.Pkg().Path()]; ok && obj.Parent() == obj.Pkg().Scope() {
					rep.Imports[i].Used = true
				}
			}
			if isMarker(n.Name) {
				u := Use{Marker: n.Name}
				if obj != nil && obj.Pkg() != nil {
					u.Path = obj.Pkg().Path()
					if u.Path == localPath && w.HasLocal {
						u.Path = w.LocalPath
					}
				} else if obj == nil {
					if _, isDef := info.Defs[n]; isDef {
						return true
					}
				}
				rep.Uses = append(rep.Uses, u)
			}
		}
		return true
	})
	return rep, nil
}
