package mutate

import (
	"verif/internal/recipe"
)

// Damage applies one structured damage to a deep copy of fr: delete /
// duplicate / swap a call or an item, or rename a construct. It returns the
// damaged file and a description.
func Damage(fr *recipe.File, d *recipe.Decisions, replacement func() *recipe.Node) (*recipe.File, string) {
	out := fr.Clone()
	type site struct {
		n *recipe.Node
		i int
	}
	var sites []site
	for _, b := range out.Body {
		recipe.Walk(b, func(n *recipe.Node) {
			if n == nil || n.Kind != recipe.KStmt {
				return
			}
			for i := range n.Calls {
				sites = append(sites, site{n, i})
			}
		})
	}
	if len(sites) == 0 {
		return out, "nothing to damage"
	}
	s := sites[d.Choose(len(sites))]
	n, i := s.n, s.i
	c := &n.Calls[i]
	switch d.Choose(8) {
	case 0:
		n.Calls = append(n.Calls[:i:i], n.Calls[i+1:]...)
		return out, "delete call " + c.Fn
	case 1:
		dup := *c
		n.Calls = append(n.Calls[:i+1:i+1], append([]recipe.Call{dup}, n.Calls[i+1:]...)...)
		return out, "duplicate call " + dup.Fn
	case 2:
		if i+1 < len(n.Calls) {
			n.Calls[i], n.Calls[i+1] = n.Calls[i+1], n.Calls[i]
			return out, "swap calls"
		}
		n.Calls = n.Calls[:i]
		return out, "truncate statement"
	case 3:
		if ListFns[c.Fn] {
			alts := []string{"Block", "Values", "Call", "Params", "Index", "List", "Defs", "Case", "Types", "Return", "If", "Struct", "Interface", "Union"}
			old := c.Fn
			c.Fn = alts[d.Choose(len(alts))]
			for _, it := range c.Items {
				if it != nil && it.Kind == recipe.KDict && c.Fn != "Values" {
					c.Fn = "Values"
				}
			}
			return out, "rename " + old + " to " + c.Fn
		}
		fallthrough
	case 4:
		if len(c.Items) > 0 {
			j := d.Choose(len(c.Items))
			c.Items = append(c.Items[:j:j], c.Items[j+1:]...)
			return out, "delete item of " + c.Fn
		}
		fallthrough
	case 5:
		if len(c.Items) > 0 && ListFns[c.Fn] {
			j := d.Choose(len(c.Items))
			if c.Items[j] == nil || c.Items[j].Kind != recipe.KDict {
				c.Items = append(c.Items[:j+1:j+1], append([]*recipe.Node{c.Items[j].Clone()}, c.Items[j+1:]...)...)
				return out, "duplicate item of " + c.Fn
			}
		}
		fallthrough
	case 6:
		if len(c.Items) > 0 && replacement != nil {
			j := d.Choose(len(c.Items))
			if c.Items[j] == nil || c.Items[j].Kind != recipe.KDict {
				c.Items[j] = replacement()
				return out, "replace item of " + c.Fn
			}
		}
		fallthrough
	default:
		if len(c.Str) > 0 {
			c.Str[0] = c.Str[0] + " "
			return out, "append a space to the string argument of " + c.Fn
		}
		n.Calls = append(n.Calls[:i:i], n.Calls[i+1:]...)
		return out, "delete call"
	}
}
