package mutate

import (
	"strings"

	"verif/internal/recipe"
)

// CommentHosts are the multi-line constructs whose items may carry comments (C15).
var CommentHosts = map[string]bool{"Block": true, "Defs": true, "Struct": true, "Interface": true}

// Placed describes one injected comment.
type Placed struct {
	Text string
	Host string // Block, case-body, Defs, Struct, Interface, File
	Pos  string // own-item | end-of-item | end-of-last-item
}

// Rendered returns the comment token(s) jennifer must emit for text in the
// automatic style: line style for one-line text, block style otherwise.
func Rendered(text string) string {
	if strings.Contains(text, "\n") {
		s := "/*\n" + text
		if !strings.HasSuffix(text, "\n") {
			s += "\n"
		}
		return s + "*/"
	}
	return "// " + text
}

// endsInCaseBody reports whether the item's output ends on the line of the
// last statement of a non-empty case body (a case block has no closer, hence
// no line of its own): an end-of-item comment there would share its line with
// a comment on that statement, and the property is about one comment per line.
func endsInCaseBody(n *recipe.Node) bool {
	if n == nil || n.Kind != recipe.KStmt || len(n.Calls) < 2 {
		return false
	}
	last := n.Calls[len(n.Calls)-1]
	prev := n.Calls[len(n.Calls)-2]
	if last.Fn == "Block" && (prev.Fn == "Case" || prev.Fn == "Default") {
		return len(last.Items) > 0
	}
	return false
}

// endsWithOpenLine reports whether the last call of the item can itself end
// with a comment or otherwise makes an end-of-item comment ambiguous.
func endsWithComment(n *recipe.Node) bool {
	if n == nil || n.Kind != recipe.KStmt || len(n.Calls) == 0 {
		return false
	}
	last := n.Calls[len(n.Calls)-1]
	return last.Fn == "Comment" || last.Fn == "Commentf"
}

// InjectComments returns a deep copy of fr with comments inserted as items of
// their own (before / between / after items) and at the end of items of every
// Block, Defs, Struct, Interface, case body and of the File, about one
// position in `rate`; texts come from text(). The placed comments are
// returned in output order.
func InjectComments(fr *recipe.File, d *recipe.Decisions, rate int, text func() string) (*recipe.File, []Placed) {
	out := fr.Clone()
	var placed []Placed
	// a comment is added with Comment(text), with Commentf(format) where format is the text with
	// its percent signs doubled (no operands), or with Commentf("%s", text)
	commentCall := func(t string) recipe.Call {
		switch d.Choose(4) {
		case 1:
			return recipe.Call{Fn: "Commentf", Str: []recipe.Text{recipe.Text(strings.ReplaceAll(t, "%", "%%"))}}
		case 2:
			return recipe.Call{Fn: "Commentf", Str: []recipe.Text{"%s"}, Args: []*recipe.Value{recipe.V(t)}}
		}
		return recipe.Call{Fn: "Comment", Str: []recipe.Text{recipe.Text(t)}}
	}
	var visit func(n *recipe.Node)
	inject := func(items []*recipe.Node, host string) []*recipe.Node {
		res := make([]*recipe.Node, 0, len(items)+2)
		for i := 0; i <= len(items); i++ {
			if d.Choose(rate) == 0 {
				t := text()
				own := recipe.S()
				own.Calls = append(own.Calls, commentCall(t))
				res = append(res, own)
				placed = append(placed, Placed{Text: t, Host: host, Pos: "own-item"})
			}
			if i == len(items) {
				break
			}
			it := items[i]
			visit(it)
			if it != nil && it.Kind == recipe.KStmt && len(it.Calls) > 0 && !endsInCaseBody(it) && !endsWithComment(it) && d.Choose(rate) == 0 {
				t := text()
				it.Calls = append(it.Calls, commentCall(t))
				pos := "end-of-item"
				if i == len(items)-1 {
					pos = "end-of-last-item"
				}
				placed = append(placed, Placed{Text: t, Host: host, Pos: pos})
			}
			res = append(res, it)
		}
		return res
	}
	visit = func(n *recipe.Node) {
		if n == nil {
			return
		}
		for i := range n.Calls {
			c := &n.Calls[i]
			if CommentHosts[c.Fn] {
				host := c.Fn
				if c.Fn == "Block" && i > 0 && (n.Calls[i-1].Fn == "Case" || n.Calls[i-1].Fn == "Default") {
					host = "case-body"
				}
				c.Items = inject(c.Items, host)
				continue
			}
			for _, it := range c.Items {
				visit(it)
			}
		}
		for _, p := range n.Pairs {
			visit(p.K)
			visit(p.V)
		}
	}
	out.Body = inject(out.Body, "File")
	return out, placed
}
