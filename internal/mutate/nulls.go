// Package mutate holds recipe-to-recipe transformations used as metamorphic
// relations: null injection (C13) and comment injection (C15).
package mutate

import (
	"verif/internal/recipe"
)

// ListFns are the list-like constructs (variadic item lists) named by C13.
var ListFns = map[string]bool{
	"List": true, "Values": true, "Index": true, "Block": true, "Defs": true, "Call": true, "Params": true,
	"If": true, "Return": true, "For": true, "Switch": true, "Interface": true, "Struct": true, "Case": true,
	"Append": true, "Min": true, "Max": true, "Make": true, "Print": true, "Println": true, "Types": true,
	"Union": true, "Custom": true,
}

// NullKinds enumerates the null-like items of C13: nil, Null(), and items
// built only from such items.
var NullKinds = []string{"nil", "nilstmt", "nilgroup", "Null", "emptystmt", "Add()", "List()", "Union()", "Tag(nil)", "Tag(map{})", "Null.Null", "stmt-of-nulls", "List(nil,Null)", "Add(List())", "Union(nil)", "Custom(nulls)", "CustomMulti(nulls)", "CustomMulti()", "List(CustomMulti(nil))", "CustomFunc(nulls)", "deepAdd(24)", "deepMixed(18)", "deepList(40)"}

// NullItem builds the null-like item of the given kind.
func NullItem(kind string) *recipe.Node {
	switch kind {
	case "nil":
		return recipe.Nil()
	case "nilstmt":
		return &recipe.Node{Kind: recipe.KNilStmt}
	case "nilgroup":
		return &recipe.Node{Kind: recipe.KNilGroup}
	case "Null":
		return recipe.Null()
	case "emptystmt":
		return recipe.S()
	case "Add()":
		return recipe.S().C("Add")
	case "List()":
		return recipe.S().C("List")
	case "Union()":
		return recipe.S().C("Union")
	case "Tag(nil)":
		n := recipe.S()
		n.Calls = append(n.Calls, recipe.Call{Fn: "Tag", NoTag: true})
		return n
	case "Tag(map{})":
		return recipe.S().C("Tag")
	case "Null.Null":
		return recipe.S().C("Null").C("Null")
	case "stmt-of-nulls":
		return recipe.S().C("Add", recipe.Null(), recipe.Nil(), recipe.S())
	case "List(nil,Null)":
		return recipe.S().C("List", recipe.Nil(), recipe.Null())
	case "Add(List())":
		return recipe.S().C("Add", recipe.S().C("List"))
	case "Union(nil)":
		return recipe.S().C("Union", recipe.Nil())
	// delimiter-less groups made only of nulls
	case "Custom(nulls)":
		return recipe.S().C("Custom", &recipe.Opts{Separator: ","}, recipe.Nil(), recipe.Null())
	case "CustomMulti(nulls)":
		return recipe.S().C("Custom", &recipe.Opts{Multi: true}, recipe.Nil(), recipe.Null(), recipe.S())
	case "CustomMulti()":
		return recipe.S().C("Custom", &recipe.Opts{Multi: true, Separator: ";"})
	case "List(CustomMulti(nil))":
		return recipe.S().C("List", recipe.S().C("Custom", &recipe.Opts{Multi: true}, recipe.Nil()))
	case "deepAdd(24)", "deepMixed(18)", "deepList(40)":
		// nulls nested many levels deep are still nulls
		depth := map[string]int{"deepAdd(24)": 24, "deepMixed(18)": 18, "deepList(40)": 40}[kind]
		n := recipe.Null()
		for i := 0; i < depth; i++ {
			switch {
			case kind == "deepAdd(24)":
				n = recipe.S().C("Add", n)
			case kind == "deepList(40)":
				n = recipe.S().C("List", n, recipe.Nil())
			case i%3 == 0:
				n = recipe.S().C("Add", recipe.Nil(), n)
			case i%3 == 1:
				n = recipe.S().C("List", n)
			default:
				n = recipe.S().C("Union", n, recipe.S())
			}
		}
		return n
	case "CustomFunc(nulls)":
		n := recipe.S()
		n.Calls = append(n.Calls, recipe.Call{Fn: "CustomFunc", Opts: &recipe.Opts{Multi: true}, Items: []*recipe.Node{recipe.Null(), recipe.Nil()}})
		return n
	}
	panic("unknown null kind " + kind)
}

// InjectNulls returns a deep copy of fr with null-like items inserted at
// positions of list constructs chosen by d (about one position in `rate`),
// and the number of items inserted. A Dict stays alone in its Values, and
// nothing is ever spliced into a statement's call chain.
func InjectNulls(fr *recipe.File, d *recipe.Decisions, rate int) (*recipe.File, int) {
	out := fr.Clone()
	n := 0
	inject := func(items []*recipe.Node) []*recipe.Node {
		for _, it := range items {
			if it != nil && it.Kind == recipe.KDict {
				return items
			}
		}
		res := make([]*recipe.Node, 0, len(items)+2)
		for i := 0; i <= len(items); i++ {
			for d.Choose(rate) == 0 {
				res = append(res, NullItem(NullKinds[d.Choose(len(NullKinds))]))
				n++
			}
			if i < len(items) {
				res = append(res, items[i])
			}
		}
		return res
	}
	var visit func(nd *recipe.Node)
	visit = func(nd *recipe.Node) {
		if nd == nil {
			return
		}
		for i := range nd.Calls {
			c := &nd.Calls[i]
			for _, it := range c.Items {
				visit(it)
			}
			if ListFns[c.Fn] {
				c.Items = inject(c.Items)
			}
		}
		for _, p := range nd.Pairs {
			visit(p.K)
			visit(p.V)
		}
	}
	for _, b := range out.Body {
		visit(b)
	}
	out.Body = inject(out.Body)
	return out, n
}
