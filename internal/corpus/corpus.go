// Package corpus enumerates the Go source files the corpus-driven checks
// translate: the src tree of the default toolchain, the src tree of the newer
// toolchain installed beside it, and /verif/corpus.
package corpus

import (
	"go/ast"
	"go/parser"
	"go/token"
	"os"
	"path/filepath"
	"sort"
	"strings"
	"sync"

	"verif/internal/stdpkg"
)

// NewerRoot is the src tree of the second toolchain present in this sandbox.
const NewerRoot = "/opt/veriftools/go1.26.8/src"

// Files lists every .go file under root (sorted).
func Files(root string) []string {
	if rr, err := filepath.EvalSymlinks(root); err == nil {
		root = rr
	}
	var files []string
	_ = filepath.WalkDir(root, func(p string, d os.DirEntry, err error) error {
		if err != nil {
			return nil
		}
		if !d.IsDir() && strings.HasSuffix(p, ".go") {
			files = append(files, p)
		}
		return nil
	})
	sort.Strings(files)
	return files
}

// Root describes one source tree.
type Root struct {
	Dir string
	mu  sync.Mutex
	nm  map[string]string
	ex  map[string]map[string]bool
	sib map[string]map[string]bool
}

func NewRoot(dir string) *Root {
	if rr, err := filepath.EvalSymlinks(dir); err == nil {
		dir = rr
	}
	return &Root{Dir: dir, nm: map[string]string{}, ex: map[string]map[string]bool{}, sib: map[string]map[string]bool{}}
}

// Default is GOROOT/src of the toolchain running the check.
func Default() *Root { return NewRoot(stdpkg.Root()) }

func (r *Root) dirsFor(path string) []string {
	return []string{filepath.Join(r.Dir, path), filepath.Join(r.Dir, "vendor", path), filepath.Join(r.Dir, "cmd", "vendor", path), filepath.Join(r.Dir, "cmd", path)}
}

// RealName returns the declared name of the package at import path, read from its package clauses.
func (r *Root) RealName(path string) string {
	r.mu.Lock()
	if n, ok := r.nm[path]; ok {
		r.mu.Unlock()
		return n
	}
	r.mu.Unlock()
	name := ""
	for _, dir := range r.dirsFor(path) {
		ents, err := os.ReadDir(dir)
		if err != nil {
			continue
		}
		for _, e := range ents {
			if !strings.HasSuffix(e.Name(), ".go") || strings.HasSuffix(e.Name(), "_test.go") {
				continue
			}
			f, err := parser.ParseFile(token.NewFileSet(), filepath.Join(dir, e.Name()), nil, parser.PackageClauseOnly)
			if err == nil && f.Name.Name != "main" {
				name = f.Name.Name
				break
			}
		}
		if name != "" {
			break
		}
	}
	r.mu.Lock()
	r.nm[path] = name
	r.mu.Unlock()
	return name
}

func topLevel(dir string, exportedOnly bool, except, pkg string) (map[string]bool, bool) {
	ents, err := os.ReadDir(dir)
	if err != nil {
		return nil, false
	}
	names := map[string]bool{}
	found := false
	for _, e := range ents {
		if !strings.HasSuffix(e.Name(), ".go") || filepath.Join(dir, e.Name()) == except {
			continue
		}
		if exportedOnly && strings.HasSuffix(e.Name(), "_test.go") {
			continue
		}
		f, err := parser.ParseFile(token.NewFileSet(), filepath.Join(dir, e.Name()), nil, parser.SkipObjectResolution)
		if err != nil {
			continue
		}
		if pkg != "" && f.Name.Name != pkg {
			continue
		}
		found = true
		add := func(n string) {
			if !exportedOnly || ast.IsExported(n) {
				names[n] = true
			}
		}
		for _, d := range f.Decls {
			switch d := d.(type) {
			case *ast.FuncDecl:
				if d.Recv == nil {
					add(d.Name.Name)
				}
			case *ast.GenDecl:
				for _, sp := range d.Specs {
					switch sp := sp.(type) {
					case *ast.ValueSpec:
						for _, n := range sp.Names {
							add(n.Name)
						}
					case *ast.TypeSpec:
						add(sp.Name.Name)
					}
				}
			}
		}
	}
	return names, found
}

// Exported returns the exported top-level names of the package at path.
func (r *Root) Exported(path string) (map[string]bool, bool) {
	r.mu.Lock()
	if n, ok := r.ex[path]; ok {
		r.mu.Unlock()
		return n, n != nil
	}
	r.mu.Unlock()
	var names map[string]bool
	for _, dir := range r.dirsFor(path) {
		if n, ok := topLevel(dir, true, "", ""); ok {
			names = n
			break
		}
	}
	r.mu.Lock()
	r.ex[path] = names
	r.mu.Unlock()
	return names, names != nil
}

// Siblings returns the top-level names declared by the other files of package pkg in file's directory.
func (r *Root) Siblings(file, pkg string) map[string]bool {
	n, _ := topLevel(filepath.Dir(file), false, file, pkg)
	return n
}
