package recipe

import (
	"fmt"
	"reflect"
	"strings"
	"sync"

	"github.com/dave/jennifer/jen"
)

// Decisions is the stream of choices a build policy makes. With Draw set the
// choices are drawn (from rapid) and recorded; without, they are replayed from
// Rec (0 once exhausted).
type Decisions struct {
	Rec  []int           `json:"rec,omitempty"`
	Draw func(n int) int `json:"-"`
	pos  int
}

// Choose returns a number in [0,n).
func (d *Decisions) Choose(n int) int {
	if d == nil || n <= 1 {
		return 0
	}
	if d.Draw != nil {
		v := d.Draw(n)
		d.Rec = append(d.Rec, v)
		return v
	}
	if d.pos < len(d.Rec) {
		v := d.Rec[d.pos]
		d.pos++
		if v >= 0 && v < n {
			return v
		}
		return 0
	}
	return 0
}

// Rewind restarts replaying from the first recorded decision.
func (d *Decisions) Rewind() {
	if d != nil {
		d.pos = 0
		d.Draw = nil
	}
}

// Builder executes recipes against the real jennifer API.
type Builder struct {
	// Forms enables the form policy: at every call choose between the
	// *Statement method, the package function + Add, the ...Func variant and,
	// inside callbacks, the *Group method. Nil/false = method form everywhere.
	Forms *Decisions
	// Callbacks counts invocations of every callback handed to jennifer, in
	// creation order.
	Callbacks []*Callback
	// NonBaseline counts calls that took a non-baseline form.
	NonBaseline int
	// Groups are the *jen.Group values handed to ...Func callbacks, in order.
	Groups []*jen.Group
	refs   map[int]jen.Code
	depth  int
	after  []func() // run when the outermost statement being built is complete
}

// Callback records how often a user callback ran, and whether it ran before
// the constructing call returned.
type Callback struct {
	Fn       string
	Runs     int
	Returned bool // set when the constructing call has returned
	Late     int  // runs after the constructing call returned
}

func (b *Builder) newCallback(fn string) *Callback {
	cb := &Callback{Fn: fn}
	b.Callbacks = append(b.Callbacks, cb)
	return cb
}

func (cb *Callback) hit() {
	cb.Runs++
	if cb.Returned {
		cb.Late++
	}
}

var (
	stmtType  = reflect.TypeOf((*jen.Statement)(nil))
	groupType = reflect.TypeOf((*jen.Group)(nil))
	codeType  = reflect.TypeOf((*jen.Code)(nil)).Elem()
	optsType  = reflect.TypeOf(jen.Options{})
	dictType  = reflect.TypeOf(jen.Dict{})
	methodIdx sync.Map // reflect.Type.String()+"."+name -> int (-1: absent)
)

func methodOf(v reflect.Value, name string) (reflect.Value, bool) {
	key := v.Type().String() + "." + name
	if i, ok := methodIdx.Load(key); ok {
		if i.(int) < 0 {
			return reflect.Value{}, false
		}
		return v.Method(i.(int)), true
	}
	m, ok := v.Type().MethodByName(name)
	if !ok {
		methodIdx.Store(key, -1)
		return reflect.Value{}, false
	}
	methodIdx.Store(key, m.Index)
	return v.Method(m.Index), true
}

// HasFunc reports whether the ...Func variant of a construct exists.
func HasFunc(fn string) bool {
	_, ok := Funcs[fn+"Func"]
	return ok
}

// Code builds a node.
func (b *Builder) Code(n *Node) jen.Code {
	if n == nil {
		return nil
	}
	if n.Ref > 0 {
		if c, ok := b.refs[n.Ref]; ok {
			return c
		}
	}
	var c jen.Code
	switch n.Kind {
	case KNil:
		return nil
	case KNilStmt:
		c = (*jen.Statement)(nil)
	case KNilGroup:
		c = (*jen.Group)(nil)
	case KDict:
		c = b.dict(n)
	case KStmt:
		c = b.Stmt(n)
	case KNest:
		// Depth groups of the construct named by Calls[0].Fn nested in one another around a leaf
		inner := jen.Id("leaf")
		fn := "List"
		if len(n.Calls) > 0 {
			fn = n.Calls[0].Fn
		}
		switch f := Funcs[fn].(type) {
		case func(...jen.Code) *jen.Statement:
			for i := 0; i < n.Depth; i++ {
				inner = f(inner)
			}
		case func(jen.Code) *jen.Statement:
			for i := 0; i < n.Depth; i++ {
				inner = f(inner)
			}
		default:
			panic("recipe: nest: construct does not take Code items: " + fn)
		}
		c = inner
	default:
		panic("recipe: unknown node kind " + n.Kind)
	}
	if n.Ref > 0 {
		if b.refs == nil {
			b.refs = map[int]jen.Code{}
		}
		b.refs[n.Ref] = c
	}
	return c
}

func (b *Builder) dict(n *Node) jen.Dict {
	fill := func(d jen.Dict) {
		for _, p := range n.Pairs {
			k := b.Code(p.K)
			if k == nil {
				// a nil interface is a legal map key, but two of them collide; the generators never ask for it
				k = jen.Null()
			}
			d[k] = b.Code(p.V)
		}
	}
	if n.ViaFunc {
		cb := b.newCallback("DictFunc")
		d := jen.DictFunc(func(d jen.Dict) { cb.hit(); fill(d) })
		cb.Returned = true
		return d
	}
	d := jen.Dict{}
	fill(d)
	return d
}

// Stmt builds a statement node.
func (b *Builder) Stmt(n *Node) *jen.Statement {
	// a statement with room to grow (a caller may well allocate one like this): appends then write into
	// the existing backing array, so storage shared by mistake between two statements shows at once
	b.depth++
	defer b.leave()
	st := make(jen.Statement, 0, 16)
	s := &st
	k := cloneAt(n.Calls)
	if k < 0 || NoCloneForm {
		b.applyAll(s, n.Calls, 0)
		return s
	}
	// The chain is continued on a clone from call k on: base.A().B() and base.Clone().A().B() render the
	// same (a clone shows its original followed by its own tokens). A second clone of the same base gets
	// other tokens once the first has received its first one: whatever is appended to one clone is no
	// business of the other.
	b.applyUpTo(s, n.Calls, 0, k)
	real := s.Clone()
	b.applyUpTo(real, n.Calls, k, k+1)
	decoy := s.Clone()
	decoy.Id("ZZDECOY").Op("=").Lit(424242).Id("ZZDECOY2")
	b.applyUpTo(real, n.Calls, k+1, len(n.Calls))
	return real
}

// leave ends one level of statement building; at the outermost level what was put off until the statement
// is complete happens.
func (b *Builder) leave() {
	b.depth--
	if b.depth > 0 {
		return
	}
	for len(b.after) > 0 {
		todo := b.after
		b.after = nil
		for _, f := range todo {
			f()
		}
	}
}

// Partial builds the statement of n with its first k calls only and returns it together with a function
// that applies the remaining calls to the same object (a caller that keeps a statement in a variable,
// hands it on, and finishes it later).
func (b *Builder) Partial(n *Node, k int) (*jen.Statement, func()) {
	st := make(jen.Statement, 0, 16)
	s := &st
	if k > len(n.Calls) {
		k = len(n.Calls)
	}
	b.depth++
	b.applyUpTo(s, n.Calls, 0, k)
	b.depth--
	return s, func() {
		b.depth++
		defer b.leave()
		b.applyUpTo(s, n.Calls, k, len(n.Calls))
	}
}

// NoCloneForm switches the clone form of Stmt off (for checks that count the items of a statement).
var NoCloneForm bool

// cloneAt picks, as a function of the call chain alone, the call from which Stmt continues on a clone
// (-1: not at all; one chain in three). Never in a chain that holds Case / Default: a Block that follows
// one of them in the same statement renders without braces (adjacency is the documented trigger), and a
// clone boundary in between would change that.
func cloneAt(calls []Call) int {
	if len(calls) < 2 {
		return -1
	}
	h := uint32(2166136261)
	for _, c := range calls {
		for i := 0; i < len(c.Fn); i++ {
			h = (h ^ uint32(c.Fn[i])) * 16777619
		}
		h = (h ^ uint32(len(c.Items))) * 16777619
		// (the texts and values count too: a chain of one shape is cloned for some identifiers and literals and
		// built plainly for others)
		for _, t := range c.Str {
			for i := 0; i < len(t); i++ {
				h = (h ^ uint32(t[i])) * 16777619
			}
		}
		if c.Val != nil {
			for i := 0; i < len(c.Val.V); i++ {
				h = (h ^ uint32(c.Val.V[i])) * 16777619
			}
		}
		for _, kv := range c.Tag {
			for i := 0; i < len(kv.K); i++ {
				h = (h ^ uint32(kv.K[i])) * 16777619
			}
			h = (h ^ uint32(len(kv.V))) * 16777619
		}
		for _, it := range c.Items {
			if it != nil && len(it.Calls) > 0 {
				f := it.Calls[0]
				for i := 0; i < len(f.Fn); i++ {
					h = (h ^ uint32(f.Fn[i])) * 16777619
				}
				for _, t := range f.Str {
					h = (h ^ uint32(len(t))) * 16777619
					if len(t) > 0 {
						h = (h ^ uint32(t[0])) * 16777619
					}
				}
			}
		}
	}
	h ^= h >> 15
	if h%3 != 0 {
		return -1
	}
	k := 1 + int(h/3)%(len(calls)-1)
	// (not only directly before the Block: calls that append nothing — Add() without items, a Do whose
	// callback does the Case or the Block — may stand between the two)
	if mentionsCase(calls) {
		return -1
	}
	return k
}

// applyUpTo applies calls[from:to] (prev / next for the adjacency rules come from the whole chain).
func (b *Builder) applyUpTo(s *jen.Statement, calls []Call, from, to int) {
	for i := from; i < to; i++ {
		var prev, next *Call
		if i > 0 {
			prev = &calls[i-1]
		}
		if i+1 < len(calls) {
			next = &calls[i+1]
		}
		b.apply(s, &calls[i], prev, next)
	}
}

func (b *Builder) applyAll(s *jen.Statement, calls []Call, from int) {
	for i := from; i < len(calls); i++ {
		if b.Forms != nil && i > from && len(calls)-i >= 1 && b.Forms.Choose(12) == 1 {
			// the rest of the chain is applied inside a Do callback: Do hands the statement itself to the
			// callback, so s.A().Do(func(s){ s.B().C() }) is s.A().B().C()
			b.NonBaseline++
			cb := b.newCallback("Do")
			rest := i
			s.Do(func(s2 *jen.Statement) {
				cb.hit()
				b.applyAll(s2, calls, rest)
			})
			cb.Returned = true
			return
		}
		var prev, next *Call
		if i > 0 {
			prev = &calls[i-1]
		}
		if i+1 < len(calls) {
			next = &calls[i+1]
		}
		b.apply(s, &calls[i], prev, next)
	}
}

// mentionsCase: the chain, or the chain of a Do callback in it, holds a Case / Default.
func mentionsCase(calls []Call) bool {
	for i := range calls {
		if isCaseHead(&calls[i]) {
			return true
		}
		if calls[i].Fn == "Do" && len(calls[i].Items) > 0 && calls[i].Items[0] != nil && mentionsCase(calls[i].Items[0].Calls) {
			return true
		}
	}
	return false
}

// endsInCaseHead looks at the statement as it is: its last item is a Case group or the default keyword
// (then a Block appended next renders as a case body). Read through reflection: the fields are unexported.
func endsInCaseHead(s *jen.Statement) bool {
	if s == nil || len(*s) == 0 {
		return false
	}
	last := (*s)[len(*s)-1]
	if last == nil {
		return false
	}
	v := reflect.ValueOf(last)
	if v.Kind() == reflect.Ptr {
		if v.IsNil() {
			return false
		}
		v = v.Elem()
	}
	if v.Kind() != reflect.Struct {
		return false
	}
	if f := v.FieldByName("name"); f.IsValid() && f.Kind() == reflect.String {
		return f.String() == "case"
	}
	if f := v.FieldByName("content"); f.IsValid() && f.Kind() == reflect.Interface && !f.IsNil() && f.Elem().Kind() == reflect.String {
		return f.Elem().String() == "default"
	}
	return false
}

func isCaseHead(c *Call) bool {
	return c != nil && (c.Fn == "Case" || c.Fn == "CaseFunc" || c.Fn == "Default")
}

// apply performs one call on s, in the form the policy picks.
func (b *Builder) apply(s *jen.Statement, c *Call, prev, next *Call) {
	fn := c.Fn
	form := 0
	if b.Forms != nil {
		// 0 method, 1 Add(function form), 2 method Func variant, 3 Add(function Func variant)
		// The case-block format is triggered by a Block directly following Case / Default in the
		// same statement: neither of the two may be wrapped into Add (documented adjacency).
		// (a Case / Default is never wrapped at all: what follows it may be a Block further down the chain or
		// inside a Do callback; and a Block is not wrapped when the statement, as it is now, ends in one)
		canAdd := !(strings.HasPrefix(fn, "Block") && (isCaseHead(prev) || endsInCaseHead(s))) && !isCaseHead(c) && fn != "Add" && fn != "Do"
		canFunc := HasFunc(fn)
		opts := []int{0}
		if canAdd {
			opts = append(opts, 1)
		}
		if canFunc {
			opts = append(opts, 2)
			if canAdd {
				opts = append(opts, 3)
			}
		}
		form = opts[b.Forms.Choose(len(opts))]
		if form != 0 {
			b.NonBaseline++
		}
	}
	name := fn
	if form >= 2 {
		name = fn + "Func"
	}
	switch form {
	case 0, 2:
		m, ok := methodOf(reflect.ValueOf(s), name)
		if !ok {
			panic("recipe: *Statement has no method " + name)
		}
		b.invoke(m, name, c)
	case 1, 3:
		f, ok := Funcs[name]
		if !ok {
			panic("recipe: no package function " + name)
		}
		out := b.invoke(reflect.ValueOf(f), name, c)
		s.Add(out[0].Interface().(jen.Code))
	}
}

// fillGroup adds items to g inside a ...Func callback, using the *Group
// method form for an item's first call when the policy says so.
func (b *Builder) fillGroup(g *jen.Group, items []*Node) {
	for _, it := range items {
		if b.Forms != nil && it != nil && it.Kind == KStmt && it.Ref == 0 && len(it.Calls) > 0 && it.Calls[0].Fn != "Add" && it.Calls[0].Fn != "Do" && b.Forms.Choose(2) == 1 {
			first := &it.Calls[0]
			name := first.Fn
			if m, ok := methodOf(reflect.ValueOf(g), name); ok {
				b.NonBaseline++
				out := b.invoke(m, name, first)
				st := out[0].Interface().(*jen.Statement)
				b.applyAll(st, it.Calls, 1)
				continue
			}
		}
		g.Add(b.Code(it))
	}
}

// invoke calls fn (a method value or package function) with arguments built
// from c according to fn's parameter types.
func (b *Builder) invoke(fn reflect.Value, name string, c *Call) []reflect.Value {
	t := fn.Type()
	var args []reflect.Value
	var cbs []*Callback
	var spread []jen.Code
	var post []func() // run once the constructing call has returned
	str := 0
	item := 0
	for i := 0; i < t.NumIn(); i++ {
		pt := t.In(i)
		variadic := t.IsVariadic() && i == t.NumIn()-1
		switch {
		case variadic && pt.Elem() == codeType:
			// the items are handed over as the caller's own slice (items...), one with room to grow
			spread = make([]jen.Code, 0, len(c.Items)-item+4)
			for ; item < len(c.Items); item++ {
				code := b.Code(c.Items[item])
				if n := c.Items[item]; n != nil && n.Kind == KStmt && n.Ref == 0 && len(n.Calls) == 1 && n.Calls[0].Fn == "Qual" && len(n.Calls[0].Str) == 2 && !NoCloneForm {
					// A caller may collect qualified identifiers on a Statement used as a plain list
					// (l.Qual(p, "A"); l.Qual(p, "B")) and hand its elements on (Case(l...)): the items of the group
					// are then the bare tokens, not statements holding them. One such item in three.
					if st, ok := code.(*jen.Statement); ok && st != nil && len(*st) == 1 && (len(n.Calls[0].Str[0])+2*len(n.Calls[0].Str[1]))%3 == 0 {
						code = (*st)[0]
					}
				}
				spread = append(spread, code)
			}
			args = append(args, reflect.ValueOf(spread))
		case variadic && pt.Elem().Kind() == reflect.Interface: // Commentf(format, a...)
			raw := make([]interface{}, len(c.Args))
			for i, a := range c.Args {
				raw[i] = a.Go()
			}
			if b.Forms != nil && len(raw) > 0 && len(c.Str) > 0 && b.Forms.Choose(2) == 1 {
				// operands that format themselves (fmt.Formatter): user code that runs when the text is
				// formatted, which is inside the constructing call. Used only where a dry run shows that fmt
				// gives the very text it gives for the plain operands, formatting each operand once.
				probe := make([]interface{}, len(raw))
				live := make([]interface{}, len(raw))
				var ocbs []*Callback
				for i := range raw {
					probe[i] = &operand{v: raw[i], cb: &Callback{}}
					ocb := &Callback{Fn: name + " operand"}
					ocbs = append(ocbs, ocb)
					live[i] = &operand{v: raw[i], cb: ocb}
				}
				same := fmt.Sprintf(string(c.Str[0]), raw...) == fmt.Sprintf(string(c.Str[0]), probe...)
				for _, p := range probe {
					if p.(*operand).cb.Runs != 1 {
						same = false
					}
				}
				if same {
					b.NonBaseline++
					b.Callbacks = append(b.Callbacks, ocbs...)
					cbs = append(cbs, ocbs...)
					raw = live
				}
			}
			for _, a := range raw {
				if a == nil {
					args = append(args, reflect.Zero(pt.Elem()))
				} else {
					args = append(args, reflect.ValueOf(a))
				}
			}
		case variadic && pt.Elem().Kind() == reflect.String: // File.Anon — not used through here
			for ; str < len(c.Str); str++ {
				args = append(args, reflect.ValueOf(string(c.Str[str])))
			}
		case pt == codeType:
			var n *Node
			if item < len(c.Items) {
				n = c.Items[item]
			}
			item++
			args = append(args, b.codeValue(n))
		case pt.Kind() == reflect.String:
			v := ""
			if str < len(c.Str) {
				v = string(c.Str[str])
			}
			str++
			args = append(args, reflect.ValueOf(v))
		case pt == optsType:
			o := jen.Options{}
			if c.Opts != nil {
				o = jen.Options{Open: string(c.Opts.Open), Close: string(c.Opts.Close), Separator: string(c.Opts.Separator), Multi: c.Opts.Multi}
			}
			args = append(args, reflect.ValueOf(o))
		case pt.Kind() == reflect.Map: // Tag(map[string]string)
			var m map[string]string
			if !c.NoTag {
				m = map[string]string{}
				for _, kv := range c.Tag {
					m[string(kv.K)] = string(kv.V)
				}
			}
			args = append(args, reflect.ValueOf(m))
		case pt.Kind() == reflect.Interface: // Lit(v interface{})
			if c.Val == nil || c.Val.Go() == nil {
				args = append(args, reflect.Zero(pt))
			} else {
				args = append(args, reflect.ValueOf(c.Val.Go()))
			}
		case pt.Kind() == reflect.Int32: // LitRune
			args = append(args, reflect.ValueOf(c.Val.Go().(rune)))
		case pt.Kind() == reflect.Uint8: // LitByte
			args = append(args, reflect.ValueOf(c.Val.Go().(byte)))
		case pt.Kind() == reflect.Func:
			cb := b.newCallback(name)
			cbs = append(cbs, cb)
			args = append(args, b.callback(pt, cb, c, &post))
		default:
			panic(fmt.Sprintf("recipe: %s: unsupported parameter type %v", name, pt))
		}
	}
	if spread == nil {
		out := fn.Call(args)
		for _, cb := range cbs {
			cb.Returned = true
		}
		for _, f := range post {
			f()
		}
		return out
	}
	// A caller may pass one slice to several calls. Another statement is built from the same arguments
	// before this one and a third after the whole top-level statement is complete; each of the two also gets
	// tokens of its own. Neither is ever rendered, and neither is any business of the statement built here.
	decoy, hasDecoy := Funcs[name]
	hasDecoy = hasDecoy && len(cbs) == 0 && !NoSpreadDecoys && reflect.TypeOf(decoy) == fn.Type()
	if hasDecoy {
		d := reflect.ValueOf(decoy).CallSlice(args)[0].Interface().(*jen.Statement)
		d.Id("ZZDECOY3").Op("+").Lit(434343)
	}
	out := fn.CallSlice(args)
	for _, cb := range cbs {
		cb.Returned = true
	}
	if hasDecoy {
		b.after = append(b.after, func() {
			d := reflect.ValueOf(decoy).CallSlice(args)[0].Interface().(*jen.Statement)
			d.Id("ZZDECOY4").Op("-").Lit(444444)
		})
	}
	return out
}

// NoSpreadDecoys switches the extra statements built from a call's argument slice off.
var NoSpreadDecoys bool

// operand is a Commentf operand that formats itself: the value it stands for while the constructing call
// runs, another text afterwards.
type operand struct {
	v  interface{}
	cb *Callback
}

func (o *operand) Format(st fmt.State, verb rune) {
	late := o.cb.Returned
	o.cb.hit()
	if late {
		fmt.Fprintf(st, "%"+string(verb), "ZZLATE")
		return
	}
	fmt.Fprintf(st, "%"+string(verb), o.v)
}

func (b *Builder) codeValue(n *Node) reflect.Value {
	c := b.Code(n)
	if c == nil {
		return reflect.Zero(codeType)
	}
	v := reflect.New(codeType).Elem()
	v.Set(reflect.ValueOf(c))
	return v
}

func (b *Builder) callback(pt reflect.Type, cb *Callback, c *Call, post *[]func()) reflect.Value {
	switch {
	case pt.NumIn() == 1 && pt.In(0) == groupType: // func(*Group)
		return reflect.ValueOf(func(g *jen.Group) {
			cb.hit()
			b.Groups = append(b.Groups, g)
			k := len(c.Items)
			if b.Forms != nil && k > 0 && !NoCloneForm && b.Forms.Choose(6) == 3 {
				// the caller keeps the group it was handed and goes on adding to it after the ...Func call has
				// returned (helpers that collect into a block): the group in the statement is that group
				k = b.Forms.Choose(k)
				rest := c.Items[k:]
				b.NonBaseline++
				*post = append(*post, func() { b.fillGroup(g, rest) })
			}
			b.fillGroup(g, c.Items[:k])
		})
	case pt.NumIn() == 1 && pt.In(0) == stmtType: // Do(func(*Statement))
		return reflect.ValueOf(func(s *jen.Statement) {
			cb.hit()
			if len(c.Items) > 0 && c.Items[0] != nil {
				b.applyAll(s, c.Items[0].Calls, 0)
			}
		})
	case pt.NumIn() == 0 && pt.NumOut() == 1:
		switch pt.Out(0).Kind() {
		case reflect.Interface:
			// (a callback that runs after the constructing call has returned — the value is wanted at build
			// time — answers with something else: generator state moves on)
			return reflect.ValueOf(func() interface{} {
				late := cb.Returned
				cb.hit()
				if late {
					return fmt.Sprintf("ZZLATE%d", cb.Runs) // (another value every time: generator state moves on)
				}
				return c.Val.Go()
			})
		case reflect.Int32:
			return reflect.ValueOf(func() rune {
				late := cb.Returned
				cb.hit()
				if late {
					return c.Val.Go().(rune) ^ 0x5A
				}
				return c.Val.Go().(rune)
			})
		case reflect.Uint8:
			return reflect.ValueOf(func() byte {
				late := cb.Returned
				cb.hit()
				if late {
					return ^c.Val.Go().(byte)
				}
				return c.Val.Go().(byte)
			})
		}
	}
	panic(fmt.Sprintf("recipe: unsupported callback type %v", pt))
}

// File builds a *jen.File.
func (b *Builder) File(fr *File) *jen.File {
	var f *jen.File
	arg := func(i int) string {
		if i < len(fr.Args) {
			return string(fr.Args[i])
		}
		return ""
	}
	switch fr.Ctor {
	case "NewFile":
		f = jen.NewFile(arg(0))
	case "NewFilePath":
		f = jen.NewFilePath(arg(0))
	case "NewFilePathName":
		f = jen.NewFilePathName(arg(0), arg(1))
	default:
		panic("recipe: unknown File constructor " + fr.Ctor)
	}
	for i := range fr.Ops {
		ApplyFileOp(f, &fr.Ops[i])
	}
	for _, n := range fr.Body {
		b.AddToFile(f, n)
	}
	return f
}

// AddToFile adds one body item to a file (through the embedded *Group).
func (b *Builder) AddToFile(f *jen.File, n *Node) {
	b.depth++
	defer b.leave()
	if b.Forms != nil && n != nil && n.Kind == KStmt && n.Ref == 0 && len(n.Calls) > 0 && n.Calls[0].Fn != "Add" && n.Calls[0].Fn != "Do" && b.Forms.Choose(2) == 1 {
		first := &n.Calls[0]
		if m, ok := methodOf(reflect.ValueOf(f.Group), first.Fn); ok {
			b.NonBaseline++
			out := b.invoke(m, first.Fn, first)
			b.applyAll(out[0].Interface().(*jen.Statement), n.Calls, 1)
			return
		}
	}
	if n != nil && n.Kind == KStmt && n.Ref == 0 && len(n.Calls) >= 2 && !NoCloneForm {
		// one statement in six or so is handed to the File while it is still incomplete and finished through
		// the variable the caller kept: the File holds the statement, not a copy of what it was then
		if j := cloneAt(n.Calls[1:]); j >= 0 && j%2 == 0 {
			st := make(jen.Statement, 0, 16)
			s := &st
			k := 1 + j%(len(n.Calls)-1)
			b.applyUpTo(s, n.Calls, 0, k)
			f.Add(s)
			b.applyUpTo(s, n.Calls, k, len(n.Calls))
			return
		}
	}
	f.Add(b.Code(n))
}

// CallerTable, when non-nil, is the one map object handed to every ImportNames call: emptied,
// refilled with the call's entries and passed. It models a caller that keeps a single table and
// reuses it from File to File (and from call to call); a File's names must not depend on what the
// caller does with its own map afterwards, nor may jennifer write into it. Not safe for
// concurrent builds: set it only around sequential building.
var CallerTable map[string]string

// ApplyFileOp performs one configuration call.
func ApplyFileOp(f *jen.File, op *FileOp) {
	a := func(i int) string {
		if i < len(op.Args) {
			return string(op.Args[i])
		}
		return ""
	}
	switch op.Op {
	case "ImportName":
		f.ImportName(a(0), a(1))
	case "ImportAlias":
		f.ImportAlias(a(0), a(1))
	case "ImportNames":
		m := map[string]string{}
		if CallerTable != nil {
			// the caller keeps one table object and refills it for every call (see CallerTable)
			m = CallerTable
			for k := range m {
				delete(m, k)
			}
		}
		for k, v := range op.Map {
			m[k] = v
		}
		f.ImportNames(m)
	case "Anon":
		ps := make([]string, len(op.Args))
		for i := range op.Args {
			ps[i] = string(op.Args[i])
		}
		f.Anon(ps...)
	case "HeaderComment":
		f.HeaderComment(a(0))
	case "PackageComment":
		f.PackageComment(a(0))
	case "CgoPreamble":
		f.CgoPreamble(a(0))
	case "PackagePrefix":
		f.PackagePrefix = a(0)
	case "CanonicalPath":
		f.CanonicalPath = a(0)
	case "NoFormat":
		f.NoFormat = a(0) != "false"
	default:
		panic("recipe: unknown file op " + op.Op)
	}
}

// Build is the baseline: method form everywhere.
func Build(n *Node) jen.Code { return (&Builder{}).Code(n) }

// BuildFile is the baseline build of a file.
func BuildFile(f *File) *jen.File { return (&Builder{}).File(f) }

// CallFunc performs call c through the package-level function `name`.
func (b *Builder) CallFunc(name string, c *Call) *jen.Statement {
	b.depth++
	defer b.leave()
	f, ok := Funcs[name]
	if !ok {
		panic("recipe: no package function " + name)
	}
	return b.invoke(reflect.ValueOf(f), name, c)[0].Interface().(*jen.Statement)
}

// CallMethod performs call c through the *Statement method `name` of s.
func (b *Builder) CallMethod(s *jen.Statement, name string, c *Call) *jen.Statement {
	b.depth++
	defer b.leave()
	m, ok := methodOf(reflect.ValueOf(s), name)
	if !ok {
		panic("recipe: *Statement has no method " + name)
	}
	return b.invoke(m, name, c)[0].Interface().(*jen.Statement)
}

// CallGroup performs call c through the *Group method `name` of g.
func (b *Builder) CallGroup(g *jen.Group, name string, c *Call) *jen.Statement {
	b.depth++
	defer b.leave()
	m, ok := methodOf(reflect.ValueOf(g), name)
	if !ok {
		panic("recipe: *Group has no method " + name)
	}
	return b.invoke(m, name, c)[0].Interface().(*jen.Statement)
}

// Seeded returns a decision stream that is a pure function of seed (splitmix64), for checks whose cases
// carry a number instead of a recorded stream.
func Seeded(seed uint64) *Decisions {
	state := seed
	return &Decisions{Draw: func(n int) int {
		state += 0x9E3779B97F4A7C15
		z := state
		z = (z ^ (z >> 30)) * 0xBF58476D1CE4E5B9
		z = (z ^ (z >> 27)) * 0x94D049BB133111EB
		z ^= z >> 31
		return int(z % uint64(n))
	}}
}
