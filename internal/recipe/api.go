package recipe

import (
	"reflect"
	"sort"
	"strings"
)

// ParamKind classifies one parameter of an API function.
type ParamKind int

const (
	PString ParamKind = iota
	PCode
	PCodes // ...Code
	PAny   // interface{}
	PAnys  // ...interface{}
	PRune
	PByte
	PTagMap
	POptions
	PFuncGroup // func(*Group)
	PFuncStmt  // func(*Statement)
	PFuncDict  // func(Dict)
	PFuncAny   // func() interface{}
	PFuncRune  // func() rune
	PFuncByte  // func() byte
	POther
)

// Sig is the signature of one exported package-level function of jen.
type Sig struct {
	Name   string
	Params []ParamKind
	// Statement reports whether the function returns *Statement (a construct).
	Statement bool
}

func kindOf(t reflect.Type, variadic bool) ParamKind {
	if variadic {
		switch {
		case t.Elem() == codeType:
			return PCodes
		case t.Elem().Kind() == reflect.Interface:
			return PAnys
		}
		return POther
	}
	switch {
	case t == codeType:
		return PCode
	case t.Kind() == reflect.String:
		return PString
	case t == optsType:
		return POptions
	case t.Kind() == reflect.Map:
		return PTagMap
	case t.Kind() == reflect.Interface:
		return PAny
	case t.Kind() == reflect.Int32:
		return PRune
	case t.Kind() == reflect.Uint8:
		return PByte
	case t.Kind() == reflect.Func:
		switch {
		case t.NumIn() == 1 && t.In(0) == groupType:
			return PFuncGroup
		case t.NumIn() == 1 && t.In(0) == stmtType:
			return PFuncStmt
		case t.NumIn() == 1 && t.In(0) == dictType:
			return PFuncDict
		case t.NumIn() == 0 && t.NumOut() == 1 && t.Out(0).Kind() == reflect.Interface:
			return PFuncAny
		case t.NumIn() == 0 && t.NumOut() == 1 && t.Out(0).Kind() == reflect.Int32:
			return PFuncRune
		case t.NumIn() == 0 && t.NumOut() == 1 && t.Out(0).Kind() == reflect.Uint8:
			return PFuncByte
		}
	}
	return POther
}

// API lists the signatures of all functions in Funcs, sorted by name.
func API() []Sig {
	var out []Sig
	for name, f := range Funcs {
		t := reflect.TypeOf(f)
		s := Sig{Name: name}
		for i := 0; i < t.NumIn(); i++ {
			s.Params = append(s.Params, kindOf(t.In(i), t.IsVariadic() && i == t.NumIn()-1))
		}
		s.Statement = t.NumOut() == 1 && t.Out(0) == stmtType
		out = append(out, s)
	}
	sort.Slice(out, func(i, j int) bool { return out[i].Name < out[j].Name })
	return out
}

// Constructs lists the constructs a recipe Call can name directly: functions
// returning *Statement whose parameters the builder can synthesise, without
// the ...Func variants of group constructs (the form policy picks those).
func Constructs() []Sig {
	var out []Sig
	for _, s := range API() {
		if !s.Statement {
			continue
		}
		if strings.HasSuffix(s.Name, "Func") {
			base := strings.TrimSuffix(s.Name, "Func")
			if _, ok := Funcs[base]; ok {
				continue
			}
		}
		ok := true
		for _, p := range s.Params {
			if p == POther {
				ok = false
			}
		}
		if ok {
			out = append(out, s)
		}
	}
	return out
}
