// Package recipe is the intermediate representation every check builds
// jennifer objects from: plain, JSON-serialisable data describing a sequence
// of jennifer API calls. A recipe is at once the generated input, the replay
// file, and the "same construction" that determinism / repeatability checks
// build several times.
package recipe

import (
	"encoding/base64"
	"encoding/json"
	"fmt"
	"math"
	"strconv"
	"strings"
	"unicode/utf8"
)

// Text is a string that survives JSON even when it is not valid UTF-8.
type Text string

const b64Prefix = "\x00b64:"

func (t Text) MarshalJSON() ([]byte, error) {
	s := string(t)
	if utf8.ValidString(s) && !strings.HasPrefix(s, b64Prefix) && !strings.ContainsRune(s, utf8.RuneError) {
		return json.Marshal(s)
	}
	return json.Marshal(b64Prefix + base64.StdEncoding.EncodeToString([]byte(s)))
}

func (t *Text) UnmarshalJSON(b []byte) error {
	var s string
	if err := json.Unmarshal(b, &s); err != nil {
		return err
	}
	if strings.HasPrefix(s, b64Prefix) {
		raw, err := base64.StdEncoding.DecodeString(s[len(b64Prefix):])
		if err != nil {
			return err
		}
		*t = Text(raw)
		return nil
	}
	*t = Text(s)
	return nil
}

// Value is a typed Go value given to Lit / LitRune / LitByte / Commentf.
type Value struct {
	T string `json:"t"` // bool string int int8 ... uintptr float32 float64 complex64 complex128 rune byte; also "struct" "slice" "map" "ptr" "nil" for the documented panic
	V Text   `json:"v"`
}

func V(v interface{}) *Value {
	switch x := v.(type) {
	case bool:
		return &Value{"bool", Text(strconv.FormatBool(x))}
	case string:
		return &Value{"string", Text(x)}
	case int:
		return &Value{"int", Text(strconv.FormatInt(int64(x), 10))}
	case int8:
		return &Value{"int8", Text(strconv.FormatInt(int64(x), 10))}
	case int16:
		return &Value{"int16", Text(strconv.FormatInt(int64(x), 10))}
	case int32:
		return &Value{"int32", Text(strconv.FormatInt(int64(x), 10))}
	case int64:
		return &Value{"int64", Text(strconv.FormatInt(x, 10))}
	case uint:
		return &Value{"uint", Text(strconv.FormatUint(uint64(x), 10))}
	case uint8:
		return &Value{"uint8", Text(strconv.FormatUint(uint64(x), 10))}
	case uint16:
		return &Value{"uint16", Text(strconv.FormatUint(uint64(x), 10))}
	case uint32:
		return &Value{"uint32", Text(strconv.FormatUint(uint64(x), 10))}
	case uint64:
		return &Value{"uint64", Text(strconv.FormatUint(x, 10))}
	case uintptr:
		return &Value{"uintptr", Text(strconv.FormatUint(uint64(x), 10))}
	case float32:
		return &Value{"float32", Text(strconv.FormatUint(uint64(math.Float32bits(x)), 16))}
	case float64:
		return &Value{"float64", Text(strconv.FormatUint(math.Float64bits(x), 16))}
	case complex64:
		return &Value{"complex64", Text(strconv.FormatUint(uint64(math.Float32bits(real(x))), 16) + "," + strconv.FormatUint(uint64(math.Float32bits(imag(x))), 16))}
	case complex128:
		return &Value{"complex128", Text(strconv.FormatUint(math.Float64bits(real(x)), 16) + "," + strconv.FormatUint(math.Float64bits(imag(x)), 16))}
	}
	panic(fmt.Sprintf("recipe.V: unsupported %T", v))
}

// Rune and Byte build the values for LitRune / LitByte.
func Rune(r rune) *Value { return &Value{"rune", Text(strconv.FormatInt(int64(r), 10))} }
func Byte(b byte) *Value { return &Value{"byte", Text(strconv.FormatUint(uint64(b), 10))} }

// Go returns the Go value.
func (v *Value) Go() interface{} {
	s := string(v.V)
	i := func(bits int) int64 { n, err := strconv.ParseInt(s, 10, bits); must(err); return n }
	u := func(bits int) uint64 { n, err := strconv.ParseUint(s, 10, bits); must(err); return n }
	h := func(s string, bits int) uint64 { n, err := strconv.ParseUint(s, 16, bits); must(err); return n }
	switch v.T {
	case "bool":
		return s == "true"
	case "string":
		return s
	case "int":
		return int(i(64))
	case "int8":
		return int8(i(8))
	case "int16":
		return int16(i(16))
	case "int32":
		return int32(i(32))
	case "int64":
		return i(64)
	case "uint":
		return uint(u(64))
	case "uint8":
		return uint8(u(8))
	case "uint16":
		return uint16(u(16))
	case "uint32":
		return uint32(u(32))
	case "uint64":
		return u(64)
	case "uintptr":
		return uintptr(u(64))
	case "float32":
		return math.Float32frombits(uint32(h(s, 32)))
	case "float64":
		return math.Float64frombits(h(s, 64))
	case "complex64":
		p := strings.Split(s, ",")
		return complex(math.Float32frombits(uint32(h(p[0], 32))), math.Float32frombits(uint32(h(p[1], 32))))
	case "complex128":
		p := strings.Split(s, ",")
		return complex(math.Float64frombits(h(p[0], 64)), math.Float64frombits(h(p[1], 64)))
	case "rune":
		return rune(i(32))
	case "byte":
		return byte(u(8))
	// values Lit is documented to reject (it panics when rendered)
	case "struct":
		return struct{ A int }{1}
	case "slice":
		return []int{1}
	case "map":
		return map[string]int{"a": 1}
	case "ptr":
		return new(int)
	case "nil":
		return nil
	}
	panic("recipe.Value.Go: unknown type " + v.T)
}

func must(err error) {
	if err != nil {
		panic(err)
	}
}

// Node kinds.
const (
	KStmt     = ""         // a *jen.Statement built by Calls
	KNil      = "nil"      // the untyped nil Code
	KNilStmt  = "nilstmt"  // (*jen.Statement)(nil)
	KNilGroup = "nilgroup" // (*jen.Group)(nil)
	KDict     = "dict"     // jen.Dict built from Pairs
	KNest     = "nest"     // Depth groups of construct Calls[0].Fn nested around Id("leaf") (deep trees without deep recipes)
)

// Node is one Code value.
type Node struct {
	Kind  string `json:"kind,omitempty"`
	Calls []Call `json:"calls,omitempty"`
	Pairs []Pair `json:"pairs,omitempty"`
	// Ref > 0: all nodes with the same Ref inside one Builder are the same
	// object, built once (sharing of Code values between places / Files).
	Ref int `json:"ref,omitempty"`
	// ViaFunc: for KDict, build with DictFunc instead of a map literal.
	ViaFunc bool `json:"viafunc,omitempty"`
	// Depth: for KNest.
	Depth int `json:"depth,omitempty"`
}

// Pair is one Dict entry.
type Pair struct {
	K *Node `json:"k"`
	V *Node `json:"v"`
}

// Opts mirrors jen.Options.
type Opts struct {
	Open      Text `json:"open,omitempty"`
	Close     Text `json:"close,omitempty"`
	Separator Text `json:"sep,omitempty"`
	Multi     bool `json:"multi,omitempty"`
}

// TagKV is one struct-tag entry (a slice keeps recipes order-stable; the map
// handed to jennifer is built from it).
type TagKV struct {
	K Text `json:"k"`
	V Text `json:"v"`
}

// Call is one API call applied to the statement under construction.
type Call struct {
	Fn    string   `json:"fn"`
	Str   []Text   `json:"str,omitempty"`
	Val   *Value   `json:"val,omitempty"`
	Args  []*Value `json:"args,omitempty"` // Commentf arguments
	Items []*Node  `json:"items,omitempty"`
	Tag   []TagKV  `json:"tag,omitempty"`
	NoTag bool     `json:"notag,omitempty"` // Tag(nil) rather than Tag(map{})
	Opts  *Opts    `json:"opts,omitempty"`
}

// FileOp is one configuration call on a *jen.File.
type FileOp struct {
	Op   string            `json:"op"` // ImportName ImportNames ImportAlias Anon HeaderComment PackageComment CgoPreamble PackagePrefix CanonicalPath NoFormat
	Args []Text            `json:"args,omitempty"`
	Map  map[string]string `json:"map,omitempty"`
}

// File is a whole *jen.File.
type File struct {
	Ctor string   `json:"ctor"` // NewFile NewFilePath NewFilePathName
	Args []Text   `json:"args"`
	Ops  []FileOp `json:"ops,omitempty"`
	Body []*Node  `json:"body,omitempty"`
}

// ---- construction helpers (used by the translator and the generators) ----

// S starts a statement node.
func S() *Node { return &Node{} }

// Nil returns the untyped nil item.
func Nil() *Node { return &Node{Kind: KNil} }

// C appends a call. Arguments are sorted by type: string / Text -> Str,
// *Node / []*Node -> Items, *Value -> Val, *Opts -> Opts, []TagKV -> Tag.
func (n *Node) C(fn string, args ...interface{}) *Node {
	c := Call{Fn: fn}
	for _, a := range args {
		switch a := a.(type) {
		case string:
			c.Str = append(c.Str, Text(a))
		case Text:
			c.Str = append(c.Str, a)
		case *Node:
			c.Items = append(c.Items, a)
		case []*Node:
			c.Items = append(c.Items, a...)
		case *Value:
			c.Val = a
		case *Opts:
			c.Opts = a
		case []TagKV:
			c.Tag = a
		default:
			panic(fmt.Sprintf("recipe.C: unsupported argument %T", a))
		}
	}
	n.Calls = append(n.Calls, c)
	return n
}

// Then appends the calls of m to n (like chaining).
func (n *Node) Then(m *Node) *Node {
	n.Calls = append(n.Calls, m.Calls...)
	return n
}

// Add appends Add(items...).
func (n *Node) Add(items ...*Node) *Node { return n.C("Add", items) }

// Convenience constructors.
func Id(name string) *Node         { return S().C("Id", name) }
func Op(op string) *Node           { return S().C("Op", op) }
func Qual(path, name string) *Node { return S().C("Qual", path, name) }
func Lit(v interface{}) *Node      { return S().C("Lit", V(v)) }
func Null() *Node                  { return S().C("Null") }
func Empty() *Node                 { return S().C("Empty") }
func Dict(pairs ...Pair) *Node     { return &Node{Kind: KDict, Pairs: pairs} }

// Clone deep-copies a node.
func (n *Node) Clone() *Node {
	if n == nil {
		return nil
	}
	b, err := json.Marshal(n)
	must(err)
	out := &Node{}
	must(json.Unmarshal(b, out))
	return out
}

// CloneFile deep-copies a file recipe.
func (f *File) Clone() *File {
	b, err := json.Marshal(f)
	must(err)
	out := &File{}
	must(json.Unmarshal(b, out))
	return out
}

// JSON renders any recipe value compactly (for hashing and messages).
func JSON(v interface{}) string {
	b, err := json.Marshal(v)
	if err != nil {
		return fmt.Sprintf("%#v", v)
	}
	return string(b)
}

// Walk visits every node of the tree rooted at n (pre-order), including nil
// entries of item lists (reported as nil).
func Walk(n *Node, f func(*Node)) {
	f(n)
	if n == nil {
		return
	}
	for i := range n.Calls {
		for _, it := range n.Calls[i].Items {
			Walk(it, f)
		}
	}
	for _, p := range n.Pairs {
		Walk(p.K, f)
		Walk(p.V, f)
	}
}

// CountCalls returns the number of API calls in the tree.
func CountCalls(n *Node) int {
	c := 0
	Walk(n, func(m *Node) {
		if m != nil {
			c += len(m.Calls)
		}
	})
	return c
}
