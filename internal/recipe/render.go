package recipe

import (
	"bytes"
	"fmt"
	"go/scanner"
	"go/token"
	"hash/fnv"
	"os"
	"path/filepath"
	"unicode"
	"unicode/utf8"

	"github.com/dave/jennifer/jen"
)

// RenderFile renders f with File.Render and, for a deterministic sample of the outputs (chosen by
// a hash of the bytes), once more through the File's other entry points: GoString (documented to
// render the File, panicking on error) and Save (documented to render and write the file; mostly over an existing file that resembles the new output, see Stale). All
// entry points of one File give the same bytes; a disagreement is reported as an error whose text
// starts with "entry points disagree".
func RenderFile(f *jen.File) ([]byte, error) {
	buf := &bytes.Buffer{}
	if err := f.Render(buf); err != nil {
		return nil, err
	}
	out := buf.Bytes()
	h := fnv.New32a()
	h.Write(out)
	k := h.Sum32()
	if k%3 == 0 {
		var gs string
		var perr interface{}
		func() {
			defer func() { perr = recover() }()
			gs = f.GoString()
		}()
		if perr != nil {
			return nil, fmt.Errorf("entry points disagree: File.Render succeeds, File.GoString of the same File panics: %v", perr)
		}
		if gs != string(out) {
			return nil, fmt.Errorf("entry points disagree: File.Render wrote\n%s\nFile.GoString of the same File returns\n%s", out, gs)
		}
	}
	if k%5 == 0 {
		// the same File rendered into a writer that itself renders other (NoFormat and formatted) code before it
		// looks at the bytes it was handed: they are still the bytes of this render
		bw := &busyWriter{}
		if err := f.Render(bw); err != nil {
			return nil, fmt.Errorf("entry points disagree: File.Render into a bytes.Buffer succeeds, into a writer that renders other code inside Write it fails: %v", err)
		}
		if !bytes.Equal(bw.buf.Bytes(), out) {
			return nil, fmt.Errorf("entry points disagree: File.Render wrote\n%s\ninto a bytes.Buffer, but into a writer that renders other code inside Write it wrote\n%s", out, bw.buf.Bytes())
		}
	}
	if (k>>5)%4 == 0 {
		// behind earlier output in the caller's buffer: the File adds its own bytes and nothing else
		prior := []byte("// ---- earlier output in the caller's buffer ----\n")
		pb := bytes.NewBuffer(append([]byte{}, prior...))
		if err := f.Render(pb); err != nil {
			return nil, fmt.Errorf("entry points disagree: File.Render into an empty bytes.Buffer succeeds, into one that already holds text it fails: %v", err)
		}
		if !bytes.Equal(pb.Bytes(), append(append([]byte{}, prior...), out...)) {
			return nil, fmt.Errorf("entry points disagree: File.Render wrote\n%s\ninto an empty bytes.Buffer; rendered into a buffer that already held %q the buffer now holds\n%s", out, prior, pb.Bytes())
		}
	}
	if (k>>8)%8 == 0 {
		if dir, err := os.MkdirTemp("", "verif-save-"); err == nil {
			defer os.RemoveAll(dir)
			p := filepath.Join(dir, "out.go")
			// the target may exist already: what an earlier run of a generator left there (see Stale)
			if old, ok := Stale(out, int(k>>12)%StaleVariants); ok {
				_ = os.WriteFile(p, old, 0o644)
			}
			if err := f.Save(p); err != nil {
				return nil, fmt.Errorf("entry points disagree: File.Render succeeds, File.Save of the same File fails: %v", err)
			}
			b, err := os.ReadFile(p)
			if err != nil || !bytes.Equal(b, out) {
				return nil, fmt.Errorf("entry points disagree: File.Render wrote\n%s\nFile.Save of the same File wrote (read error %v)\n%s", out, err, b)
			}
		}
	}
	return out, nil
}

// StaleVariants is the number of variants Stale knows.
const StaleVariants = 8

// Stale returns what a target file may hold before out is saved over it: the output of an earlier run of
// the same generator, which resembles the new output closely. ok=false: no file there. Whatever was
// there, after a successful Save the file holds out.
func Stale(out []byte, variant int) (old []byte, ok bool) {
	switch variant {
	case 1: // longer at both ends
		return append(append([]byte("// Code generated earlier. DO NOT EDIT.\n"), out...), []byte("\nfunc removedSince() {}\n")...), true
	case 2: // the new output followed by declarations that have since been dropped
		return append(append([]byte{}, out...), []byte("\nfunc removedSince() {}\n")...), true
	case 3: // the same text in other letter case
		return bytes.Map(func(r rune) rune {
			switch {
			case unicode.IsUpper(r):
				return unicode.ToLower(r)
			case unicode.IsLower(r):
				return unicode.ToUpper(r)
			}
			return r
		}, out), !bytes.ContainsRune(out, utf8.RuneError)
	case 4: // the same code with other comments
		return otherComments(out), true
	case 5: // exactly the new output
		return append([]byte{}, out...), true
	case 6: // the new output cut short
		return append([]byte{}, out[:len(out)/2]...), true
	case 7: // same length, other digits and quoted text
		return bytes.Map(func(r rune) rune {
			if r >= '0' && r <= '8' {
				return r + 1
			}
			return r
		}, out), true
	}
	return nil, false
}

// otherComments rewrites the text of every comment of a Go source (letters and digits become x); a source
// without comments gets one in front. Sources the scanner cannot read get a comment in front too.
func otherComments(src []byte) []byte {
	fset := token.NewFileSet()
	file := fset.AddFile("", fset.Base(), len(src))
	var sc scanner.Scanner
	bad := false
	sc.Init(file, src, func(token.Position, string) { bad = true }, scanner.ScanComments)
	out := append([]byte{}, src...)
	n := 0
	for {
		pos, tok, lit := sc.Scan()
		if tok == token.EOF {
			break
		}
		if tok != token.COMMENT {
			continue
		}
		n++
		off := file.Offset(pos)
		for i := 2; i < len(lit) && off+i < len(out); i++ {
			c := out[off+i]
			if c >= 'a' && c <= 'z' || c >= 'A' && c <= 'Z' || c >= '0' && c <= '9' {
				out[off+i] = 'x'
			}
		}
	}
	if bad || n == 0 || bytes.Equal(out, src) {
		return append([]byte("// an older header\n"), src...)
	}
	return out
}

type busyWriter struct{ buf bytes.Buffer }

func (w *busyWriter) Write(p []byte) (int, error) {
	for _, nf := range []bool{true, false} {
		d := jen.NewFile("decoy")
		d.NoFormat = nf
		d.Var().Id("decoy").Op("=").Lit("decoy decoy decoy")
		_ = d.Render(&bytes.Buffer{})
		_ = d.Render(&bytes.Buffer{})
	}
	_ = jen.Id("decoy").Op(":=").Lit(1).Render(&bytes.Buffer{})
	return w.buf.Write(p)
}
