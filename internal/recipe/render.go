package recipe

import (
	"bytes"
	"fmt"
	"hash/fnv"
	"os"
	"path/filepath"

	"github.com/dave/jennifer/jen"
)

// RenderFile renders f with File.Render and, for a deterministic sample of the outputs (chosen by
// a hash of the bytes), once more through the File's other entry points: GoString (documented to
// render the File, panicking on error) and Save (documented to render and write the file; half the time over an existing, longer file). All
// entry points of one File give the same bytes; a disagreement is reported as an error whose text
// starts with "entry points disagree".
func RenderFile(f *jen.File) ([]byte, error) {
	buf := &bytes.Buffer{}
	if err := f.Render(buf); err != nil {
		return nil, err
	}
	out := buf.Bytes()
	h := fnv.New32a()
	h.Write(out)
	k := h.Sum32()
	if k%3 == 0 {
		var gs string
		var perr interface{}
		func() {
			defer func() { perr = recover() }()
			gs = f.GoString()
		}()
		if perr != nil {
			return nil, fmt.Errorf("entry points disagree: File.Render succeeds, File.GoString of the same File panics: %v", perr)
		}
		if gs != string(out) {
			return nil, fmt.Errorf("entry points disagree: File.Render wrote\n%s\nFile.GoString of the same File returns\n%s", out, gs)
		}
	}
	if k%5 == 0 {
		// the same File rendered into a writer that itself renders other (NoFormat and formatted) code before it
		// looks at the bytes it was handed: they are still the bytes of this render
		bw := &busyWriter{}
		if err := f.Render(bw); err != nil {
			return nil, fmt.Errorf("entry points disagree: File.Render into a bytes.Buffer succeeds, into a writer that renders other code inside Write it fails: %v", err)
		}
		if !bytes.Equal(bw.buf.Bytes(), out) {
			return nil, fmt.Errorf("entry points disagree: File.Render wrote\n%s\ninto a bytes.Buffer, but into a writer that renders other code inside Write it wrote\n%s", out, bw.buf.Bytes())
		}
	}
	if k%7 == 0 {
		if dir, err := os.MkdirTemp("", "verif-save-"); err == nil {
			defer os.RemoveAll(dir)
			p := filepath.Join(dir, "out.go")
			if k%2 == 0 {
				// the target exists and is longer than what is about to be saved (a regenerated file)
				old := append(append([]byte("// Code generated earlier. DO NOT EDIT.\n"), out...), []byte("\nfunc removedSince() {}\n")...)
				_ = os.WriteFile(p, old, 0o644)
			}
			if err := f.Save(p); err != nil {
				return nil, fmt.Errorf("entry points disagree: File.Render succeeds, File.Save of the same File fails: %v", err)
			}
			b, err := os.ReadFile(p)
			if err != nil || !bytes.Equal(b, out) {
				return nil, fmt.Errorf("entry points disagree: File.Render wrote\n%s\nFile.Save of the same File wrote (read error %v)\n%s", out, err, b)
			}
		}
	}
	return out, nil
}

type busyWriter struct{ buf bytes.Buffer }

func (w *busyWriter) Write(p []byte) (int, error) {
	for _, nf := range []bool{true, false} {
		d := jen.NewFile("decoy")
		d.NoFormat = nf
		d.Var().Id("decoy").Op("=").Lit("decoy decoy decoy")
		_ = d.Render(&bytes.Buffer{})
		_ = d.Render(&bytes.Buffer{})
	}
	_ = jen.Id("decoy").Op(":=").Lit(1).Render(&bytes.Buffer{})
	return w.buf.Write(p)
}
