package astcmp

import (
	"fmt"
	"go/ast"
	"go/constant"
	"go/token"
	"reflect"
	"sort"
	"strconv"
	"strings"
)

// Dump produces a canonical text of an AST ignoring positions, comments, parens and literal spelling.
func Dump(n interface{}) string {
	var b strings.Builder
	dumpv(&b, reflect.ValueOf(n), 0)
	return b.String()
}

var posType = reflect.TypeOf(token.Pos(0))

func dumpv(b *strings.Builder, v reflect.Value, depth int) {
	ind := strings.Repeat(" ", depth)
	if !v.IsValid() {
		b.WriteString(ind + "nil\n")
		return
	}
	switch v.Kind() {
	case reflect.Interface:
		if v.IsNil() {
			b.WriteString(ind + "nil\n")
			return
		}
		dumpv(b, v.Elem(), depth)
		return
	case reflect.Ptr:
		if v.IsNil() {
			b.WriteString(ind + "nil\n")
			return
		}
		switch x := v.Interface().(type) {
		case *ast.ParenExpr:
			dumpv(b, reflect.ValueOf(x.X), depth)
			return
		case *ast.BasicLit:
			b.WriteString(ind + "Lit " + litCanon(x) + "\n")
			return
		case *ast.Ident:
			b.WriteString(ind + "Ident " + x.Name + "\n")
			return
		case *ast.CommentGroup, *ast.Comment, *ast.Object, *ast.Scope:
			return
		}
		dumpv(b, v.Elem(), depth)
		return
	case reflect.Slice:
		b.WriteString(fmt.Sprintf("%s[%s\n", ind, v.Type().Elem().String()))
		for i := 0; i < v.Len(); i++ {
			e := v.Index(i)
			if e.Kind() == reflect.Interface && !e.IsNil() {
				if _, ok := e.Interface().(*ast.EmptyStmt); ok {
					continue
				}
				if gd, ok := e.Interface().(*ast.GenDecl); ok && gd.Tok == token.IMPORT {
					continue
				}
			}
			dumpv(b, e, depth+1)
		}
		b.WriteString(ind + "]\n")
		return
	case reflect.Struct:
		t := v.Type()
		b.WriteString(ind + t.Name() + "{\n")
		for i := 0; i < t.NumField(); i++ {
			f := t.Field(i)
			fv := v.Field(i)
			switch {
			case f.Type == posType:
				// significant positions become booleans
				switch t.Name() + "." + f.Name {
				case "GenDecl.Lparen", "CallExpr.Ellipsis", "TypeSpec.Assign":
					b.WriteString(fmt.Sprintf("%s %s=%v\n", ind, f.Name, fv.Interface().(token.Pos).IsValid()))
				}
				continue
			case f.Name == "Doc" || f.Name == "Comment" || f.Name == "Comments" || f.Name == "Scope" || f.Name == "Unresolved" || f.Name == "Imports" || f.Name == "Incomplete" || f.Name == "Implicit" || f.Name == "FileStart" || f.Name == "FileEnd" || f.Name == "GoVersion" || f.Name == "Obj":
				continue
			}
			switch fv.Kind() {
			case reflect.Bool, reflect.Int, reflect.String:
				val := fmt.Sprint(fv.Interface())
				if s, ok := fv.Interface().(fmt.Stringer); ok {
					val = s.String()
				}
				b.WriteString(fmt.Sprintf("%s %s=%s\n", ind, f.Name, val))
			default:
				b.WriteString(fmt.Sprintf("%s %s:\n", ind, f.Name))
				if t.Name() == "FuncType" && f.Name == "Results" {
					// `func f() ()`: an empty result list is a pair of redundant parentheses
					if fl, ok := fv.Interface().(*ast.FieldList); ok && fl != nil && len(fl.List) == 0 {
						b.WriteString(strings.Repeat(" ", depth+2) + "nil\n")
						continue
					}
				}
				dumpv(b, fv, depth+2)
			}
		}
		b.WriteString(ind + "}\n")
		return
	}
	b.WriteString(fmt.Sprintf("%s%v\n", ind, v.Interface()))
}

func litCanon(x *ast.BasicLit) string {
	switch x.Kind {
	case token.STRING:
		s, _ := strconv.Unquote(x.Value)
		return "STRING " + strconv.Quote(s)
	case token.CHAR:
		r, _, _, _ := strconv.UnquoteChar(x.Value[1:len(x.Value)-1], '\'')
		return fmt.Sprintf("CHAR %d", r)
	default:
		v := constant.MakeFromLiteral(x.Value, x.Kind, 0)
		return x.Kind.String() + " " + v.ExactString()
	}
}

func ImportsOf(f *ast.File) []string {
	out := []string{}
	for _, d := range f.Decls {
		gd, ok := d.(*ast.GenDecl)
		if !ok || gd.Tok != token.IMPORT {
			continue
		}
		for _, sp := range gd.Specs {
			is := sp.(*ast.ImportSpec)
			n := ""
			if is.Name != nil {
				n = is.Name.Name
			}
			p, _ := strconv.Unquote(is.Path.Value)
			out = append(out, n+" "+p)
		}
	}
	sort.Strings(out)
	return out
}

func FirstDiff(a, b string) string {
	la, lb := strings.Split(a, "\n"), strings.Split(b, "\n")
	for i := 0; i < len(la) && i < len(lb); i++ {
		if la[i] != lb[i] {
			lo := i - 6
			if lo < 0 {
				lo = 0
			}
			return fmt.Sprintf("line %d:\n want: %s\n got:  %s\n ctx: %s", i, la[i], lb[i], strings.Join(la[lo:i], " | "))
		}
	}
	return fmt.Sprintf("length differs %d vs %d", len(la), len(lb))
}
