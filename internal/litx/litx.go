// Package litx renders a single literal statement through a NoFormat File and
// evaluates rendered expressions with go/types — shared by C11, C12, C17.
package litx

import (
	"bytes"
	"fmt"
	"go/scanner"
	"go/token"
	"go/types"
	"hash/fnv"
	"strings"

	"verif/internal/recipe"
)

const head = "package p\n\n\n"

// RenderStmt renders one statement node as the only item of a NoFormat File
// and returns the text after the package clause.
func RenderStmt(n *recipe.Node, b *recipe.Builder) (string, error) {
	if b == nil {
		b = &recipe.Builder{}
	}
	fr := &recipe.File{Ctor: "NewFile", Args: []recipe.Text{"p"}, Ops: []recipe.FileOp{{Op: "NoFormat"}}, Body: []*recipe.Node{n}}
	f := b.File(fr)
	// (File.Render, and for a sample of the outputs the File's other entry points: GoString, Save over a file
	// that resembles the output, ...)
	buf := &bytes.Buffer{}
	if err := f.Render(buf); err != nil {
		return "", err
	}
	out := buf.Bytes()
	h := fnv.New32a()
	h.Write(out)
	if h.Sum32()%4 == 1 {
		again, err := recipe.RenderFile(f)
		if err != nil {
			return "", err
		}
		if !bytes.Equal(again, out) {
			return "", fmt.Errorf("entry points disagree: File.Render wrote\n%s\nand, called again,\n%s", out, again)
		}
	}
	s := string(out)
	if !strings.HasPrefix(s, head) {
		return "", fmt.Errorf("unexpected file head in %q", s)
	}
	return s[len(head):], nil
}

// Eval evaluates a constant expression in the universe scope.
func Eval(expr string) (types.TypeAndValue, error) {
	return types.Eval(token.NewFileSet(), nil, token.NoPos, expr)
}

// Tok is one scanned token.
type Tok struct {
	Tok token.Token
	Lit string
}

// Scan tokenises src (automatic semicolons dropped, comments dropped).
func Scan(src string) ([]Tok, error) {
	fs := token.NewFileSet()
	file := fs.AddFile("", fs.Base(), len(src))
	var sc scanner.Scanner
	var serr error
	sc.Init(file, []byte(src), func(pos token.Position, msg string) {
		if serr == nil {
			serr = fmt.Errorf("%v: %s", pos, msg)
		}
	}, 0)
	var toks []Tok
	for {
		_, tok, lit := sc.Scan()
		if tok == token.EOF {
			break
		}
		if tok == token.SEMICOLON && lit == "\n" {
			continue
		}
		toks = append(toks, Tok{tok, lit})
	}
	return toks, serr
}
