#!/bin/sh
# Warm the Go build cache; the checks work without this (they build what they need).
cd "$(dirname "$0")" || exit 1
export GOFLAGS=-mod=mod GOPROXY=off GOSUMDB=off GOTOOLCHAIN=local
go build ./... && go vet ./cmd/... >/dev/null 2>&1
go test -vet=off -count=1 -run '^$' ./props/... >/dev/null
exit 0
