// vcheck is the driver named (through run.sh) in MANIFEST.json.
//
//	vcheck <ID> quick|thorough      run the check for one property
//	vcheck replay <ID> <file>       re-run one saved case, without rapid
//
// Exit codes: 0 property held on everything explored (KNOWN-FINDING lines
// possible), 1 at least one "VIOLATION property=<ID> replay=<path>" line,
// 2 inconclusive (build failure of /repo, timeout, worker death, generator
// problem) — never a VIOLATION line in that case.
package main

import (
	"context"
	"crypto/sha1"
	"encoding/json"
	"fmt"
	"os"
	"os/exec"
	"path/filepath"
	"sort"
	"strconv"
	"strings"
	"sync"
	"time"

	"verif/internal/hx"
)

type propConf struct {
	race           bool
	thoroughShards int
	quickShards    int
	quickTimeout   time.Duration
	thorTimeout    time.Duration
	fuzz           []string // native fuzz targets run in the thorough tier
	fuzzTime       time.Duration
}

func conf(id string) propConf {
	c := propConf{thoroughShards: 16, quickShards: 1, quickTimeout: 8 * time.Minute, thorTimeout: 40 * time.Minute, fuzzTime: 60 * time.Second}
	switch id {
	case "C09":
		c.race = true
	case "C01":
		c.fuzz = []string{"FuzzRoundTrip"}
	case "C02":
		c.fuzz = []string{"FuzzTree"}
	case "C12":
		c.fuzz = []string{"FuzzString"}
	case "C17":
		c.fuzz = []string{"FuzzTag"}
	}
	return c
}

type knownFinding struct {
	Property string          `json:"property"`
	ID       string          `json:"id"`
	Status   string          `json:"status"` // "known" | "fixed"
	Class    string          `json:"class"`
	What     string          `json:"what"`
	Commit   string          `json:"commit,omitempty"`
	Check    string          `json:"check"`
	Example  json.RawMessage `json:"example"`
}

type manifest struct {
	Checks []struct {
		PropertyID   string `json:"property_id"`
		LevelClaimed struct {
			Category string `json:"category"`
		} `json:"level_claimed"`
	} `json:"checks"`
}

var verifDir string

func main() {
	wd, _ := os.Getwd()
	verifDir = wd
	if v := os.Getenv("VERIF_DIR"); v != "" {
		verifDir = v
	}
	args := os.Args[1:]
	if len(args) == 3 && args[0] == "replay" {
		os.Exit(replayCmd(strings.ToUpper(args[1]), args[2]))
	}
	if len(args) != 2 || (args[1] != "quick" && args[1] != "thorough") {
		fmt.Fprintln(os.Stderr, "usage: vcheck <ID> quick|thorough | vcheck replay <ID> <file>")
		os.Exit(2)
	}
	os.Exit(run(strings.ToUpper(args[0]), args[1]))
}

func seed() uint64 {
	if v := os.Getenv("VERIF_SEED"); v != "" {
		if n, err := strconv.ParseInt(v, 10, 64); err == nil {
			return uint64(n)
		}
		if n, err := strconv.ParseUint(v, 10, 64); err == nil {
			return n
		}
	}
	return 1
}

func baseEnv() []string {
	env := os.Environ()
	env = append(env, "GOFLAGS=-mod=mod", "GOPROXY=off", "GOSUMDB=off", "GOTOOLCHAIN=local")
	if os.Getenv("GOMEMLIMIT") == "" {
		env = append(env, "GOMEMLIMIT=6GiB")
	}
	return env
}

func build(id string, pc propConf, tmp string, fuzz bool) (string, error) {
	bin := filepath.Join(tmp, strings.ToLower(id)+".test")
	args := []string{"test", "-c", "-vet=off", "-o", bin}
	if pc.race {
		args = append(args, "-race")
	}
	if fuzz {
		bin = filepath.Join(tmp, strings.ToLower(id)+".fuzz.test")
		args = []string{"test", "-c", "-vet=off", "-fuzz=Fuzz", "-o", bin}
	}
	if alt := os.Getenv("VERIF_REPO"); alt != "" && alt != "/repo" {
		// audit mode: build against a scratch copy of the repository (mutation audits, pinned-tree
		// comparisons). Registered commands never set this; they build /repo's working tree.
		mod, err := os.ReadFile(filepath.Join(verifDir, "go.mod"))
		if err != nil {
			return "", err
		}
		mf := filepath.Join(tmp, "go.mod")
		_ = os.WriteFile(mf, []byte(strings.Replace(string(mod), "=> /repo", "=> "+alt, 1)), 0o644)
		sum, _ := os.ReadFile(filepath.Join(verifDir, "go.sum"))
		_ = os.WriteFile(filepath.Join(tmp, "go.sum"), sum, 0o644)
		args = append(args, "-modfile="+mf)
	}
	args = append(args, "./props/"+strings.ToLower(id))
	cmd := exec.Command("go", args...)
	cmd.Dir = verifDir
	cmd.Env = baseEnv()
	out, err := cmd.CombinedOutput()
	if err != nil {
		return "", fmt.Errorf("build failed: %v\n%s", err, out)
	}
	return bin, nil
}

type procResult struct {
	results []hx.Result
	err     string // non-empty: process problem (timeout, crash without result)
	output  string
	crash   string // non-empty: the process was killed by a panic raised inside jennifer's code (excerpt)
}

// runBin executes the test binary once and collects the result files it wrote.
func runBin(bin string, env []string, timeout time.Duration, extra ...string) procResult {
	out, err := os.MkdirTemp(filepath.Dir(bin), "out-")
	if err != nil {
		return procResult{err: err.Error()}
	}
	ctx, cancel := context.WithTimeout(context.Background(), timeout+30*time.Second)
	defer cancel()
	args := append([]string{"-test.timeout=" + timeout.String(), "-test.count=1"}, extra...)
	cmd := exec.CommandContext(ctx, bin, args...)
	cmd.Dir = filepath.Dir(bin)
	cmd.Env = append(append(baseEnv(), env...), "VERIF_OUT="+out, "VERIF_DIR="+verifDir)
	// the checks' scratch files live under the driver's own temporary directory, which is removed when the
	// driver exits — also when a test process is killed before it could tidy up
	if scratch := filepath.Join(out, "tmp"); os.MkdirAll(scratch, 0o755) == nil {
		cmd.Env = append(cmd.Env, "TMPDIR="+scratch)
	}
	b, runErr := cmd.CombinedOutput()
	pr := procResult{output: string(b)}
	files, _ := filepath.Glob(filepath.Join(out, "result-*.json"))
	sort.Strings(files)
	for _, f := range files {
		data, err := os.ReadFile(f)
		if err != nil {
			continue
		}
		var r hx.Result
		if err := json.Unmarshal(data, &r); err != nil {
			pr.err = "bad result file: " + err.Error()
			continue
		}
		pr.results = append(pr.results, r)
	}
	if ctx.Err() != nil {
		pr.err = "timeout after " + timeout.String()
	} else if runErr != nil {
		viol := false
		for _, r := range pr.results {
			if len(r.Violations) > 0 || len(r.Inconclusive) > 0 {
				viol = true
			}
		}
		if !viol {
			// the binary failed but no check recorded why
			if strings.Contains(pr.output, "WARNING: DATA RACE") {
				// the race detector fails the test after the check returned: the case that was
				// running is the last checkpoint
				v := hx.Violation{Check: "race", Case: json.RawMessage(`"no checkpoint"`), Error: "data race reported by the race detector:\n" + raceExcerpt(pr.output)}
				if data, err := os.ReadFile(filepath.Join(out, "checkpoint.json")); err == nil {
					var rf hx.ReplayFile
					if json.Unmarshal(data, &rf) == nil {
						v.Check, v.Case = rf.Check, rf.Case
					}
				}
				pr.results = append(pr.results, hx.Result{Violations: []hx.Violation{v}})
			} else if crash := libraryCrash(pr.output); crash != "" {
				// A panic that the check could not recover (it was raised on a goroutine the library started, or
				// is a fatal runtime error such as concurrent map writes) with jennifer's code on top of the
				// stack: the case that was running is the last checkpoint. Harness panics, out-of-memory kills
				// and timeouts do not match and stay inconclusive.
				pr.crash = crash
				if data, err := os.ReadFile(filepath.Join(out, "checkpoint.json")); err == nil {
					var rf hx.ReplayFile
					if json.Unmarshal(data, &rf) == nil {
						v := hx.Violation{Check: rf.Check, Case: rf.Case, Error: "the process was killed while this case was being judged: a panic the caller cannot recover, raised in jennifer's code:\n" + crash}
						pr.results = append(pr.results, hx.Result{Violations: []hx.Violation{v}})
					}
				}
				if len(pr.results) == 0 || len(pr.results[len(pr.results)-1].Violations) == 0 {
					pr.err = "test process failed: " + runErr.Error() + " (killed by a panic in jennifer's code, no checkpoint to attribute it to)"
				}
			} else {
				pr.err = "test process failed: " + runErr.Error()
			}
		}
	} else if len(pr.results) == 0 {
		pr.err = "test process wrote no result"
	}
	return pr
}

// libraryCrash returns an excerpt of the output if the process died of a panic or fatal error whose
// running goroutine has jennifer's code as its first non-runtime frame.
func libraryCrash(out string) string {
	i := strings.Index(out, "\npanic: ")
	if j := strings.Index(out, "\nfatal error: "); j >= 0 && (i < 0 || j < i) {
		i = j
	}
	if i < 0 {
		if strings.HasPrefix(out, "panic: ") || strings.HasPrefix(out, "fatal error: ") {
			i = 0
		} else {
			return ""
		}
	}
	e := out[i:]
	g := strings.Index(e, "\ngoroutine ")
	if g < 0 {
		return ""
	}
	lines := strings.Split(e[g+1:], "\n")
	// lines[0] = "goroutine N [running]:", then pairs of function / file lines
	first := ""
	for _, l := range lines[1:] {
		if l == "" {
			break
		}
		if strings.HasPrefix(l, "\t") || strings.HasPrefix(l, "panic(") || strings.HasPrefix(l, "runtime.") || strings.HasPrefix(l, "runtime/") || strings.HasPrefix(l, "sync.") || strings.HasPrefix(l, "internal/") {
			continue
		}
		first = l
		break
	}
	if !strings.HasPrefix(first, "github.com/dave/jennifer/") {
		return ""
	}
	all := strings.Split(strings.TrimLeft(e, "\n"), "\n")
	if len(all) > 25 {
		all = all[:25]
	}
	return strings.Join(all, "\n")
}

func raceExcerpt(s string) string {
	i := strings.Index(s, "WARNING: DATA RACE")
	if i < 0 {
		return ""
	}
	e := s[i:]
	lines := strings.Split(e, "\n")
	if len(lines) > 30 {
		lines = lines[:30]
	}
	return strings.Join(lines, "\n")
}

func tail(s string, n int) string {
	lines := strings.Split(strings.TrimRight(s, "\n"), "\n")
	if len(lines) > n {
		lines = lines[len(lines)-n:]
	}
	return strings.Join(lines, "\n")
}

func saveReplay(id string, v hx.Violation) string {
	rf := hx.ReplayFile{Property: id, Check: v.Check, Case: v.Case, Error: v.Error}
	b, _ := json.MarshalIndent(&rf, "", " ")
	sum := sha1.Sum(append([]byte(v.Check), v.Case...))
	dir := filepath.Join(verifDir, "replay", id)
	_ = os.MkdirAll(dir, 0o755)
	p := filepath.Join(dir, fmt.Sprintf("auto-%x.json", sum[:6]))
	_ = os.WriteFile(p, b, 0o644)
	return p
}

func level(id string) string {
	b, err := os.ReadFile(filepath.Join(verifDir, "MANIFEST.json"))
	if err == nil {
		var m manifest
		if json.Unmarshal(b, &m) == nil {
			for _, c := range m.Checks {
				if c.PropertyID == id && c.LevelClaimed.Category != "" {
					return c.LevelClaimed.Category
				}
			}
		}
	}
	return "exploration"
}

func loadKnown(id string) []knownFinding {
	b, err := os.ReadFile(filepath.Join(verifDir, "known_findings.json"))
	if err != nil {
		return nil
	}
	var all struct {
		Findings []knownFinding `json:"findings"`
	}
	if err := json.Unmarshal(b, &all); err != nil {
		fmt.Fprintf(os.Stderr, "known_findings.json: %v\n", err)
		return nil
	}
	var out []knownFinding
	for _, k := range all.Findings {
		if k.Property == id {
			out = append(out, k)
		}
	}
	return out
}

func replayOne(bin, id string, rf *hx.ReplayFile, tmp string) (violated bool, msg string, problem string) {
	b, _ := json.Marshal(rf)
	p := filepath.Join(tmp, fmt.Sprintf("replay-%x.json", sha1.Sum(b)))
	_ = os.WriteFile(p, b, 0o644)
	pr := runBin(bin, []string{"VERIF_REPLAY=" + p, "VERIF_TIER=quick", "VERIF_SEED=" + strconv.FormatUint(seed(), 10)}, 5*time.Minute)
	if pr.crash != "" {
		return true, "the process was killed while this case was being judged: a panic the caller cannot recover, raised in jennifer's code:\n" + pr.crash, ""
	}
	if pr.err != "" {
		return false, "", pr.err + "\n" + tail(pr.output, 30)
	}
	evals := int64(0)
	for _, r := range pr.results {
		evals += r.Evaluations
		if len(r.Violations) > 0 {
			return true, r.Violations[0].Error, ""
		}
		for _, s := range r.Inconclusive {
			problem = s
		}
	}
	if problem == "" && evals == 0 {
		problem = "no check named " + rf.Check + " evaluated the case"
	}
	return false, "", problem
}

func replayCmd(id, path string) int {
	tmp, err := os.MkdirTemp("", "vcheck-")
	if err != nil {
		fmt.Println("INCONCLUSIVE", err)
		return 2
	}
	defer os.RemoveAll(tmp)
	pc := conf(id)
	bin, err := build(id, pc, tmp, false)
	if err != nil {
		fmt.Println("INCONCLUSIVE property=" + id + " " + err.Error())
		return 2
	}
	data, err := os.ReadFile(path)
	if err != nil {
		fmt.Println("INCONCLUSIVE", err)
		return 2
	}
	var rf hx.ReplayFile
	if err := json.Unmarshal(data, &rf); err != nil {
		fmt.Println("INCONCLUSIVE", err)
		return 2
	}
	violated, msg, problem := replayOne(bin, id, &rf, tmp)
	if problem != "" {
		fmt.Printf("INCONCLUSIVE property=%s %s\n", id, problem)
		return 2
	}
	if violated {
		fmt.Printf("replayed %s: still fails: %s\n", path, msg)
		fmt.Printf("VIOLATION property=%s replay=%s\n", id, path)
		return 1
	}
	fmt.Printf("replayed %s: passes\n", path)
	return 0
}

func run(id, tier string) int {
	start := time.Now()
	pc := conf(id)
	tmp, err := os.MkdirTemp("", "vcheck-")
	if err != nil {
		fmt.Println("INCONCLUSIVE", err)
		return 2
	}
	defer os.RemoveAll(tmp)
	bin, err := build(id, pc, tmp, false)
	if err != nil {
		fmt.Printf("INCONCLUSIVE property=%s %s\n", id, err)
		return 2
	}

	var (
		violations   []string // printed lines
		inconclusive []string
		knownLines   []string
		merged       = hx.Result{Property: id, Tier: tier, Seed: seed(), Classes: map[string]int64{}, Extra: map[string]any{}}
		hashes       = map[uint64]struct{}{}
		replayed     int
	)

	// 1. saved replay cases and known findings first (seconds)
	known := loadKnown(id)
	knownCases := map[string]bool{}
	for _, k := range known {
		rf := hx.ReplayFile{Property: id, Check: k.Check, Case: k.Example}
		violated, msg, problem := replayOne(bin, id, &rf, tmp)
		replayed++
		switch {
		case problem != "":
			inconclusive = append(inconclusive, "known finding "+k.ID+": "+problem)
		case k.Status == "known" && violated:
			knownLines = append(knownLines, fmt.Sprintf("KNOWN-FINDING: property=%s %s (%s)", id, k.What, k.ID))
			knownCases[k.Check+string(k.Example)] = true
		case k.Status == "known":
			fmt.Printf("note: known finding %s no longer reproduces\n", k.ID)
		case violated: // fixed entry that fails again
			p := saveReplay(id, hx.Violation{Check: k.Check, Case: k.Example, Error: msg})
			violations = append(violations, fmt.Sprintf("VIOLATION property=%s replay=%s", id, p))
			fmt.Printf("fixed finding %s is back: %s\n", k.ID, msg)
		}
	}
	files, _ := filepath.Glob(filepath.Join(verifDir, "replay", id, "*.json"))
	sort.Strings(files)
	for _, f := range files {
		data, err := os.ReadFile(f)
		if err != nil {
			continue
		}
		var rf hx.ReplayFile
		if json.Unmarshal(data, &rf) != nil {
			continue
		}
		violated, msg, problem := replayOne(bin, id, &rf, tmp)
		replayed++
		if problem != "" {
			fmt.Printf("note: replay file %s skipped: %s\n", f, problem)
			continue
		}
		if violated && !knownCases[rf.Check+string(rf.Case)] {
			violations = append(violations, fmt.Sprintf("VIOLATION property=%s replay=%s", id, f))
			fmt.Printf("saved case %s fails: %s\n", f, msg)
		}
	}

	// 2. the generated search
	shards := pc.quickShards
	timeout := pc.quickTimeout
	if tier == "thorough" {
		shards = pc.thoroughShards
		timeout = pc.thorTimeout
	}
	if v := os.Getenv("VERIF_SHARDS_OVERRIDE"); v != "" {
		if n, err := strconv.Atoi(v); err == nil && n > 0 {
			shards = n
		}
	}
	prs := make([]procResult, shards)
	var wg sync.WaitGroup
	for s := 0; s < shards; s++ {
		wg.Add(1)
		go func(s int) {
			defer wg.Done()
			prs[s] = runBin(bin, []string{
				"VERIF_TIER=" + tier,
				"VERIF_SEED=" + strconv.FormatUint(seed(), 10),
				"VERIF_SHARD=" + strconv.Itoa(s),
				"VERIF_SHARDS=" + strconv.Itoa(shards),
			}, timeout, "-test.run=^Test")
		}(s)
	}
	wg.Wait()

	// 3. native fuzzing (thorough only): a green end of the time box is a normal end
	if tier == "thorough" && len(pc.fuzz) > 0 && os.Getenv("VERIF_NOFUZZ") == "" {
		fbin, err := build(id, pc, tmp, true)
		if err != nil {
			inconclusive = append(inconclusive, err.Error())
		} else {
			for _, target := range pc.fuzz {
				cache := filepath.Join(tmp, "fuzzcache")
				pr := runBin(fbin, []string{"VERIF_TIER=thorough", "VERIF_SEED=" + strconv.FormatUint(seed(), 10), "VERIF_FUZZING=1"},
					pc.fuzzTime+5*time.Minute, "-test.run=^$", "-test.fuzz=^"+target+"$", "-test.fuzztime="+pc.fuzzTime.String(), "-test.fuzzcachedir="+cache)
				// the fuzz workers write no result files; a crasher shows in the output and in testdata/fuzz
				if strings.Contains(pr.output, "Failing input written to") || strings.Contains(pr.output, "--- FAIL") {
					prs = append(prs, procResult{results: fuzzFailure(id, target, pr.output, tmp)})
				} else if pr.err != "" && !strings.Contains(pr.err, "wrote no result") {
					inconclusive = append(inconclusive, "fuzz "+target+": "+pr.err+"\n"+tail(pr.output, 15))
				}
				merged.Extra["fuzz_"+target] = tail(pr.output, 3)
			}
		}
	}

	for s, pr := range prs {
		if pr.err != "" {
			inconclusive = append(inconclusive, fmt.Sprintf("shard %d: %s\n%s", s, pr.err, tail(pr.output, 40)))
		}
		for _, r := range pr.results {
			merged.Evaluations += r.Evaluations
			merged.Discarded += r.Discarded
			merged.ExcludedKnown += r.ExcludedKnown
			for _, h := range r.Hashes {
				hashes[h] = struct{}{}
			}
			for k, v := range r.Classes {
				merged.Classes[k] += v
			}
			for k, v := range r.Extra {
				merged.Extra[k] = v
			}
			if len(merged.Samples) < 12 {
				for _, sm := range r.Samples {
					if len(merged.Samples) < 12 {
						merged.Samples = append(merged.Samples, sm)
					}
				}
			}
			if r.Rule != "" && !strings.Contains(merged.Rule, r.Rule) {
				// one rule per test function of the property's package
				if merged.Rule != "" {
					merged.Rule += " || "
				}
				merged.Rule += r.Rule
			}
			for _, a := range r.Assumptions {
				if !contains(merged.Assumptions, a) {
					merged.Assumptions = append(merged.Assumptions, a)
				}
			}
			for _, a := range r.Exhaustive {
				if !contains(merged.Exhaustive, a) {
					merged.Exhaustive = append(merged.Exhaustive, a)
				}
			}
			for _, k := range r.Known {
				if !contains(knownLines, k) {
					knownLines = append(knownLines, k)
				}
			}
			inconclusive = append(inconclusive, r.Inconclusive...)
			for _, v := range r.Violations {
				p := saveReplay(id, v)
				line := fmt.Sprintf("VIOLATION property=%s replay=%s", id, p)
				if !contains(violations, line) {
					violations = append(violations, line)
					fmt.Printf("violation in check %s: %s\n", v.Check, firstLines(v.Error, 12))
				}
			}
		}
	}

	// 4. evidence
	wall := time.Since(start).Seconds()
	cov := map[string]any{
		"evaluations":         merged.Evaluations + int64(replayed),
		"distinct_nontrivial": len(hashes),
		"rule":                merged.Rule,
		"samples":             merged.Samples,
		"classes":             merged.Classes,
		"discarded":           merged.Discarded,
		"excluded_known":      merged.ExcludedKnown,
		"replayed_saved":      replayed,
		"shards":              shards,
	}
	if len(merged.Exhaustive) > 0 {
		cov["exhaustive_parts"] = merged.Exhaustive
	}
	for k, v := range merged.Extra {
		cov[k] = v
	}
	if len(inconclusive) > 0 {
		cov["inconclusive"] = inconclusive
	}
	ev := map[string]any{
		"property_id": id,
		"tier":        tier,
		"seed":        int64(seed()),
		"level":       level(id),
		"coverage":    cov,
		"assumptions": merged.Assumptions,
		"wall_s":      wall,
		"violations":  len(violations),
	}
	if merged.Assumptions == nil {
		ev["assumptions"] = []string{}
	}
	if merged.Samples == nil {
		cov["samples"] = []any{}
	}
	b, _ := json.MarshalIndent(ev, "", " ")
	evDir := filepath.Join(verifDir, "evidence")
	if alt := os.Getenv("VERIF_REPO"); alt != "" && alt != "/repo" {
		// audit runs against a scratch copy must not overwrite the evidence of runs against /repo
		evDir = filepath.Join(os.TempDir(), "vcheck-audit-evidence")
	}
	_ = os.MkdirAll(evDir, 0o755)
	if err := os.WriteFile(filepath.Join(evDir, id+".json"), append(b, '\n'), 0o644); err != nil {
		inconclusive = append(inconclusive, "cannot write evidence: "+err.Error())
	}

	for _, l := range knownLines {
		fmt.Println(l)
	}
	fmt.Printf("%s %s seed=%d: evaluations=%d distinct_nontrivial=%d violations=%d wall=%.1fs\n", id, tier, seed(), merged.Evaluations+int64(replayed), len(hashes), len(violations), wall)
	if len(violations) > 0 {
		for _, l := range violations {
			fmt.Println(l)
		}
		return 1
	}
	if len(inconclusive) > 0 {
		for _, l := range inconclusive {
			fmt.Printf("INCONCLUSIVE property=%s %s\n", id, l)
		}
		return 2
	}
	return 0
}

// fuzzFailure turns a native-fuzz crasher into a violation whose case is the
// saved corpus entry (the reproducible unit for native fuzzing).
func fuzzFailure(id, target, output, tmp string) []hx.Result {
	entry := ""
	for _, line := range strings.Split(output, "\n") {
		if i := strings.Index(line, "Failing input written to "); i >= 0 {
			entry = strings.TrimSpace(line[i+len("Failing input written to "):])
		}
	}
	var data []byte
	if entry != "" {
		p := entry
		if !filepath.IsAbs(p) {
			p = filepath.Join(tmp, p)
		}
		data, _ = os.ReadFile(p)
	}
	c, _ := json.Marshal(map[string]string{"corpus_entry": string(data)})
	return []hx.Result{{Property: id, Violations: []hx.Violation{{Check: target, Case: c, Error: tail(output, 25)}}}}
}

func firstLines(s string, n int) string {
	lines := strings.Split(s, "\n")
	if len(lines) > n {
		lines = append(lines[:n], "…")
	}
	return strings.Join(lines, "\n")
}

func contains(xs []string, s string) bool {
	for _, x := range xs {
		if x == s {
			return true
		}
	}
	return false
}
