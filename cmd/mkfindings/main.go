// mkfindings writes known_findings.json: one entry per genuine defect found on
// the pinned tree, with the failing input in the replay format of the check
// that demonstrates it. All entries are "fixed" (repaired by a fix: commit in
// /repo); a fixed entry suppresses nothing — its example is replayed on every
// run and must pass.
package main

import (
	"encoding/json"
	"fmt"
	"os"
	"os/exec"
	"strings"

	"verif/internal/imps"
	"verif/internal/recipe"
)

type finding struct {
	Property string          `json:"property"`
	ID       string          `json:"id"`
	Status   string          `json:"status"`
	Commit   string          `json:"commit"`
	What     string          `json:"what"`
	Line     string          `json:"line"`
	Check    string          `json:"check"`
	Example  json.RawMessage `json:"example"`
}

func commitFor(subject string) string {
	out, err := exec.Command("git", "-C", "/repo", "log", "--format=%h %s").Output()
	if err != nil {
		panic(err)
	}
	for _, l := range strings.Split(string(out), "\n") {
		if strings.Contains(l, subject) {
			return strings.Fields(l)[0]
		}
	}
	panic("no commit with subject " + subject)
}

func raw(v interface{}) json.RawMessage {
	b, err := json.Marshal(v)
	if err != nil {
		panic(err)
	}
	return b
}

func scenario(ops []recipe.FileOp, ctor string, args []recipe.Text, paths ...string) imps.Scenario {
	sc := imps.Scenario{File: recipe.File{Ctor: ctor, Args: args, Ops: ops}, Paths: paths}
	var vals []*recipe.Node
	for i, p := range paths {
		vals = append(vals, recipe.Qual(p, fmt.Sprintf("S%d", i)))
	}
	sc.File.Body = []*recipe.Node{recipe.S().C("Var").C("Id", "_").C("Op", "=").C("Index").C("Interface").C("Values", vals)}
	return sc
}

func op(name string, args ...string) recipe.FileOp {
	o := recipe.FileOp{Op: name}
	for _, a := range args {
		o.Args = append(o.Args, recipe.Text(a))
	}
	return o
}

func main() {
	var fs []finding
	add := func(prop, id, subject, what, check string, example interface{}) {
		c := commitFor(subject)
		fs = append(fs, finding{Property: prop, ID: id, Status: "fixed", Commit: c, What: what,
			Line: fmt.Sprintf("fixed: property=%s %s %s", prop, c, what), Check: check, Example: raw(example)})
	}
	p := []recipe.Text{"p"}
	// D1
	add("C05", "D1-any-comparable", "any and comparable as reserved", "Qual(\"x.y/z/any\", ...) was imported under the alias any (predeclared identifier missing from the reserved list; same for comparable)",
		"reserved_word", map[string]string{"word": "any", "mode": "bare", "prefix": ""})
	add("C05", "D1-comparable", "any and comparable as reserved", "Qual(\"x.y/z/comparable\", ...) was imported under the alias comparable",
		"reserved_word", map[string]string{"word": "comparable", "mode": "bare", "prefix": ""})
	// D2
	d2 := scenario([]recipe.FileOp{op("PackagePrefix", "pkg")}, "NewFile", p, "a/d", "b/d")
	add("C05", "D2-prefix-collision", "unique after PackagePrefix", "PackagePrefix=pkg with Qual(a/d) and Qual(b/d): both imports were named pkg_d", "names_compete", d2)
	add("C03", "D2-prefix-collision", "unique after PackagePrefix", "PackagePrefix=pkg with Qual(a/d) and Qual(b/d): pkg_d.S1 resolved to the wrong package", "resolution_compete", d2)
	d2b := scenario([]recipe.FileOp{op("PackagePrefix", "pkg"), op("ImportName", "q/w", "pkg_x")}, "NewFile", p, "q/w", "r/x")
	add("C05", "D2-hint-equals-prefixed-alias", "unique after PackagePrefix", "ImportName(q/w, pkg_x) with PackagePrefix=pkg and Qual(r/x): both imports were named pkg_x", "names_compete", d2b)
	// D3
	d3 := scenario([]recipe.FileOp{op("PackagePrefix", "pkg"), op("ImportAlias", "x.y/dotted", ".")}, "NewFile", p, "x.y/dotted", "x.y/a")
	add("C06", "D3-prefixed-dot", "PackagePrefix to dot-imports", "PackagePrefix=pkg with ImportAlias(p, \".\") rendered `import pkg_. \"p\"` (syntax error)", "localdot_dots", d3)
	// D4
	var pairs []recipe.Pair
	for i, pth := range []string{"a/d", "b/d", "c/d"} {
		pairs = append(pairs, recipe.Pair{K: recipe.Qual(pth, "X"), V: recipe.Lit(i)})
	}
	d4 := map[string]interface{}{"file": &recipe.File{Ctor: "NewFile", Args: p, Body: []*recipe.Node{recipe.S().C("Var").C("Id", "_").C("Op", "=").C("Id", "T").C("Values", recipe.Dict(pairs...))}}, "rebuilds": 60, "procs": 0}
	add("C07", "D4-dict-key-registration-order", "independent of map iteration order", "Dict{Qual(a/d,X):…, Qual(b/d,X):…, Qual(c/d,X):…}: aliases d, d1, d2 were handed out in map-iteration order, different files from run to run", "map_rich", d4)
	// D5
	d5 := map[string]interface{}{"wrap": "T", "pairs": []map[string]interface{}{
		{"key": recipe.Id("f").C("Call"), "val": recipe.Lit(1000), "id": 0},
		{"key": recipe.Id("f").C("Call"), "val": recipe.Lit(1001), "id": 1},
	}}
	add("C16", "D5-equal-key-text", "loses a pair when two keys", "Dict{f(): 1000, f(): 1001}: one value printed twice, the other lost", "dict", d5)
	// D6
	add("C13", "D6-nil-in-List", "nil items as null everywhere", "List(nil, x) dereferenced a nil interface (also Union(nil,x), Types(nil), Call(Add(nil),x), Dict{k:nil})", "synthetic_list",
		map[string]interface{}{"fn": "List", "arity": 2, "mask": 1, "kinds": []int{0}, "empty": -1})
	add("C13", "D6-nil-in-Add", "nil items as null everywhere", "Call(Add(nil), x) dereferenced a nil interface", "synthetic_list",
		map[string]interface{}{"fn": "Call", "arity": 2, "mask": 1, "kinds": []int{11}, "empty": -1})
	// D7 / D8: histories
	ref := recipe.Qual("a/d", "S0")
	cl := recipe.S().C("Case", ref)
	cl.Calls = append(cl.Calls, recipe.Call{Fn: "BlockFunc", Items: []*recipe.Node{recipe.Id("_").C("Op", "=").Add(ref.Clone())}})
	sw := recipe.S().C("Func").C("Id", "_").C("Params", recipe.Id("v").C("Interface")).C("Block", recipe.S().C("Switch", recipe.Id("v")).C("Block", cl))
	d7 := map[string]interface{}{"ctor": "NewFile", "args": p, "pool": []*recipe.Node{sw}, "actions": []map[string]interface{}{
		{"kind": "render_group", "i": 0, "reps": 2}, {"kind": "render_stmt", "i": 0, "reps": 2}, {"kind": "render_group", "i": 0, "reps": 2}}}
	add("C08", "D7-case-block-braces-blanked", "blank a Block's braces in place", "a case-block group captured with BlockFunc rendered as {…} before its Case statement was rendered and without braces afterwards", "history", d7)
	st := recipe.S().C("Var").C("Id", "_").C("Op", "=").Add(recipe.Qual("a/d", "S0"))
	d8 := map[string]interface{}{"ctor": "NewFile", "args": p, "pool": []*recipe.Node{st}, "actions": []map[string]interface{}{
		{"kind": "render_stmt", "i": 0, "reps": 2}, {"kind": "hint_alias", "path": "a/d", "name": ".", "reps": 2}, {"kind": "render_stmt", "i": 0, "reps": 2}, {"kind": "add", "i": 0, "reps": 2}, {"kind": "render_file", "reps": 2}}}
	add("C08", "D8-dotness-flips", "dot-ness when hints change", "a path rendered as d.S0, then ImportAlias(path, \".\"): the next render emitted the bare S0 while the import block still declared d", "history", d8)
	// D9 / D10
	add("C19", "D9-dot-C", "\"C\" pseudo-package as a dot-import", "ImportAlias(\"C\", \".\") with Qual(\"C\", x): `import \"C\"` but a bare x", "cgo",
		map[string]interface{}{"intro": "qual", "preamble": nil, "others": "none", "prefix": "", "hint": "dotC", "cfirst": true})
	add("C19", "D10-other-package-named-C", "another package the name C", "ImportName(x.y/a, \"C\") together with Qual(\"C\", x): two imports named C", "cgo",
		map[string]interface{}{"intro": "qual", "preamble": nil, "others": "one", "prefix": "", "hint": "otherC", "cfirst": false})

	// D11
	d11 := &recipe.File{Ctor: "NewFile", Args: p, Ops: []recipe.FileOp{op("HeaderComment", "/* Copyright someone")}, Body: []*recipe.Node{
		recipe.S().C("Var").C("Id", "x").C("Op", "=").C("Lit", recipe.V(1)),
		recipe.S().C("Comment", "end of file\n(generated)"),
	}}
	add("C02", "D11-package-clause-swallowed", "package clause was swallowed", "HeaderComment(\"/* Copyright someone\") (an unterminated raw comment) in a File whose last item is a block comment: the whole source became one comment, format.Source accepted it as a fragment, Render returned nil and wrote bytes that are not a Go file", "plausible_program",
		map[string]interface{}{"file": d11})

	// KF1: a finding that is recorded, not repaired (the root cause is go/printer of the installed toolchain)
	kfSrc := "package p\n\nfunc f(a bool) {\n\tif (a || Pair[int, string]{} == x) {\n\t}\n\tfor range (&Pair[int, string]{}.F) {\n\t}\n}\n"
	kfWhat := "a parenthesised if/for/switch/range header expression that contains a composite literal of an instantiated generic type, e.g. `if (a || Pair[int, string]{} == x) {`: File.Render returns nil but gofmt (go/printer.stripParens of the installed toolchain, which only recognises identifiers and selectors as type names) removes the protecting parentheses and the output no longer parses; gofmt does the same to a hand-written file. General form (internal/knownfind.GofmtBreaks): format.Source accepts the raw rendering and returns text that does not parse; a second shape is a single unnamed result that only parses inside parentheses, e.g. `func g(...T) (...T)`, whose parentheses go/printer drops"
	fs = append(fs, finding{Property: "C01", ID: "KF1-gofmt-strips-parens-around-generic-composite-literal", Status: "known", What: kfWhat, Line: "known: property=C01 " + kfWhat,
		Check: "known_finding_probe", Example: raw(map[string]interface{}{"name": "kf1.go", "src": kfSrc})})
	kfBody := recipe.S().C("Func").C("Id", "f").C("Params", recipe.Id("a").C("Bool")).C("Block",
		recipe.S().C("If", recipe.S().C("Parens", recipe.Id("a").C("Op", "||").C("Id", "Pair").C("Types", recipe.S().C("Int"), recipe.S().C("String")).C("Values").C("Op", "==").C("Id", "x"))).C("Block"))
	fs = append(fs, finding{Property: "C02", ID: "KF1-gofmt-strips-parens-around-generic-composite-literal", Status: "known", What: kfWhat, Line: "known: property=C02 " + kfWhat,
		Check: "known_finding_probe", Example: raw(map[string]interface{}{"file": &recipe.File{Ctor: "NewFile", Args: p, Body: []*recipe.Node{kfBody}}})})

	kf2What := "a HeaderComment / PackageComment text containing a form feed (or a carriage return in a multi-line text), e.g. HeaderComment(\"a\\fb\") with no package comment: go/printer counts the form feed inside the comment as a line break, its line accounting is then off by one, the blank line after the headers is dropped and the header becomes the package doc (with \\r\\f in a block comment `*/` and `package` are joined and the doc is detached); the unformatted output is right and gofmt does the same to a hand-written file"
	fs = append(fs, finding{Property: "C15", ID: "KF2-gofmt-miscounts-lines-after-form-feed-in-comment", Status: "known", What: kf2What, Line: "known: property=C15 " + kf2What,
		Check: "known_finding_probe", Example: raw(map[string]interface{}{"headers": []string{"HDR0X ", "HDR1X \fA"}, "package": nil, "canonical": "", "body": false})})

	kf3What := "a Comment whose text, written behind \"// \", reads as an old-style build constraint line, e.g. Id(\"F\").Int().Comment(\"+build linux\") as a field of a Struct: gofmt's build-constraint fix-up (go/printer fixGoBuildLines) takes the comment for a constraint of the file wherever it stands, moves it in front of the package clause under a synthesised //go:build line and deletes the rest of the line it stood on together with the line break, so the formatted output reads `F int  G int` (two lines of code joined; with a form feed in the text the comment is cut in two and tabwriter control bytes stay in the output); File.Render returns nil, the unformatted output is right and gofmt does the same to a hand-written file"
	fs = append(fs, finding{Property: "C15", ID: "KF3-gofmt-hoists-plus-build-comment-and-joins-lines", Status: "known", What: kf3What, Line: "known: property=C15 " + kf3What,
		Check: "known_finding_probe_body", Example: raw(map[string]interface{}{
			"file": &recipe.File{Ctor: "NewFile", Args: p, Body: []*recipe.Node{recipe.S().C("Type").C("Id", "S").C("Struct", recipe.Id("F").C("Int"), recipe.Id("G").C("Int"))}},
			"dec":  map[string]interface{}{"rec": []int{0}}, "texts": []string{"+build linux"}})})

	out := map[string]interface{}{
		"comment":  "Genuine findings made by the checks. status=fixed: a defect of dave/jennifer on the pinned tree, repaired by the named fix: commit in /repo; the example is replayed on every run and must pass (it suppresses nothing). status=known: recorded, not repaired (see DESIGN.md section 11.3): the check prints KNOWN-FINDING while the example still fails, the generators steer away from exactly that input class (internal/knownfind) and count what they avoided; any other violation of the property is still reported.",
		"findings": fs,
	}
	b, _ := json.MarshalIndent(out, "", " ")
	if err := os.WriteFile("known_findings.json", append(b, '\n'), 0o644); err != nil {
		panic(err)
	}
	fmt.Println("wrote", len(fs), "findings")
}
