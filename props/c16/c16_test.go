// C16 Dict renders every non-null pair exactly once, in key order.
package c16

import (
	"bytes"
	"fmt"
	"go/ast"
	"go/parser"
	"go/token"
	"sort"
	"strings"
	"testing"

	"github.com/dave/jennifer/jen"
	"pgregory.net/rapid"

	"verif/internal/hx"
	"verif/internal/recipe"
	"verif/internal/rt"
)

// PairSpec describes one generated pair. The generator decides by
// construction whether each side is null, so no model of jennifer's
// null-ness is needed.
type PairSpec struct {
	Key     *recipe.Node `json:"key"`
	KeyNull bool         `json:"keynull,omitempty"`
	Val     *recipe.Node `json:"val"`
	ValNull bool         `json:"valnull,omitempty"`
	ID      int          `json:"id"` // the value is Lit(ID) (unique), possibly wrapped
}

type Case struct {
	Pairs   []PairSpec `json:"pairs"`
	Wrap    string     `json:"wrap"` // "T" | "map"
	ViaFunc bool       `json:"viafunc,omitempty"`
	Prefix  string     `json:"prefix,omitempty"`
	// Seed != 0: the File is built under the form policy (literals through LitFunc / LitRuneFunc callbacks,
	// lists through ...Func variants, function form + Add): user code that runs once, when the pair is built
	Seed uint64 `json:"seed,omitempty"`
}

func (c Case) builder(k uint64) *recipe.Builder {
	if c.Seed == 0 {
		return &recipe.Builder{}
	}
	return &recipe.Builder{Forms: recipe.Seeded(c.Seed + k)}
}

func (c Case) file(noFormat bool) *recipe.File { return c.fileN(noFormat, 1) }

// fileN: the File holds uses statements that all use the same Dict value.
func (c Case) fileN(noFormat bool, uses int) *recipe.File {
	var pairs []recipe.Pair
	for _, p := range c.Pairs {
		pairs = append(pairs, recipe.Pair{K: p.Key, V: p.Val})
	}
	d := recipe.Dict(pairs...)
	d.ViaFunc = c.ViaFunc
	if uses > 1 {
		d.Ref = 1
	}
	mkLit := func() *recipe.Node {
		if c.Wrap == "map" {
			return recipe.S().C("Map", recipe.S().C("Interface")).C("Interface").C("Values", d)
		}
		return recipe.Id("T").C("Values", d)
	}
	lit := mkLit()
	fr := &recipe.File{Ctor: "NewFile", Args: []recipe.Text{"p"}}
	if c.Prefix != "" {
		fr.Ops = append(fr.Ops, recipe.FileOp{Op: "PackagePrefix", Args: []recipe.Text{recipe.Text(c.Prefix)}})
	}
	if noFormat {
		fr.Ops = append(fr.Ops, recipe.FileOp{Op: "NoFormat"})
	}
	fr.Body = []*recipe.Node{recipe.S().C("Var").C("Id", "_").C("Op", "=").Then(lit)}
	for i := 1; i < uses; i++ {
		fr.Body = append(fr.Body, recipe.S().C("Var").C("Id", "_").C("Op", "=").Then(mkLit()))
	}
	return fr
}

type elem struct {
	key, val string
	line     int
}

// elements parses src and returns the (key text, value text) of the one
// composite literal assigned to _.
func elements(src []byte) ([]elem, *ast.CompositeLit, *token.FileSet, error) {
	fset := token.NewFileSet()
	f, err := parser.ParseFile(fset, "out.go", src, 0)
	if err != nil {
		return nil, nil, nil, err
	}
	var cl *ast.CompositeLit
	for _, d := range f.Decls {
		if gd, ok := d.(*ast.GenDecl); ok && gd.Tok == token.VAR {
			vs := gd.Specs[0].(*ast.ValueSpec)
			if len(vs.Values) == 1 {
				cl, _ = vs.Values[0].(*ast.CompositeLit)
			}
		}
	}
	if cl == nil {
		return nil, nil, nil, fmt.Errorf("no composite literal found")
	}
	var out []elem
	text := func(n ast.Node) string {
		return string(src[fset.Position(n.Pos()).Offset:fset.Position(n.End()).Offset])
	}
	for _, e := range cl.Elts {
		kv, ok := e.(*ast.KeyValueExpr)
		if !ok {
			return nil, nil, nil, fmt.Errorf("element %s is not key: value", text(e))
		}
		out = append(out, elem{key: text(kv.Key), val: text(kv.Value), line: fset.Position(kv.Pos()).Line})
	}
	return out, cl, fset, nil
}

func normalise(s string) string {
	// token-level comparison between raw and formatted text: strip all white space
	return strings.Join(strings.Fields(s), "")
}

func check(c Case) error {
	// expected live pairs: render key and value recipes alone, raw, against a file with the same prefix
	rawOut, err := rt.Render(c.builder(0), c.file(true))
	if err != nil {
		return fmt.Errorf("NoFormat render: %v", err)
	}
	fmtOut, err := rt.Render(c.builder(0), c.file(false))
	if err != nil {
		return fmt.Errorf("formatted render failed: %s", rt.Short(err.Error(), 600))
	}
	rawEl, _, _, err := elements(rawOut)
	if err != nil {
		return fmt.Errorf("raw output does not parse as a composite literal: %v\n%s", err, rawOut)
	}
	fmtEl, cl, fset, err := elements(fmtOut)
	if err != nil {
		return fmt.Errorf("formatted output: %v\n%s", err, fmtOut)
	}
	var live []PairSpec
	for _, p := range c.Pairs {
		if !p.KeyNull && !p.ValNull {
			live = append(live, p)
		}
	}
	fail := func(format string, a ...interface{}) error {
		return fmt.Errorf("%s\n--- raw output ---\n%s", fmt.Sprintf(format, a...), rawOut)
	}
	if len(rawEl) != len(live) {
		return fail("%d pairs have a rendering key and value, the literal has %d elements", len(live), len(rawEl))
	}
	// multiset of values: every live pair's unique value id appears exactly once, attached to a key of the expected shape
	seen := map[int]int{}
	for _, e := range rawEl {
		id := -1
		for _, p := range live {
			if valueHasID(e.val, p.ID) {
				id = p.ID
			}
		}
		if id < 0 {
			return fail("element %s: %s carries no expected value", e.key, e.val)
		}
		seen[id]++
	}
	wantCount := map[int]int{}
	for _, p := range live {
		wantCount[p.ID]++
	}
	for id, n := range wantCount {
		if seen[id] != n {
			return fail("%d pairs carry the value id %d, %d are rendered", n, id, seen[id])
		}
	}
	// each value is attached to its own key: compare with the key rendered alone in the same position of an identical file
	for _, p := range live {
		for i := range rawEl {
			if valueHasID(rawEl[i].val, p.ID) && !keyMatches(p, rawEl[i].key) {
				return fail("value id %d is attached to key %q, which is not the rendering of its key %s", p.ID, rawEl[i].key, recipe.JSON(p.Key))
			}
		}
	}
	// order: raw key texts non-decreasing
	for i := 1; i < len(rawEl); i++ {
		if rawEl[i-1].key > rawEl[i].key {
			return fail("keys are not ordered by their rendered text: %q before %q", rawEl[i-1].key, rawEl[i].key)
		}
	}
	// formatted output: same element sequence
	if len(fmtEl) != len(rawEl) {
		return fail("formatted output has %d elements, raw %d", len(fmtEl), len(rawEl))
	}
	for i := range rawEl {
		if normalise(fmtEl[i].key) != normalise(rawEl[i].key) || normalise(fmtEl[i].val) != normalise(rawEl[i].val) {
			return fail("element %d differs between raw (%s: %s) and formatted (%s: %s) output", i, rawEl[i].key, rawEl[i].val, fmtEl[i].key, fmtEl[i].val)
		}
	}
	// layout
	switch {
	case len(live) == 0:
		if !bytes.Contains(rawOut, []byte("{}")) {
			return fail("an all-null Dict must render {}")
		}
	case len(live) > 1:
		for i := 1; i < len(fmtEl); i++ {
			if fmtEl[i].line <= fmtEl[i-1].line {
				return fmt.Errorf("several pairs must be rendered one per line\n--- formatted ---\n%s", fmtOut)
			}
		}
		last := cl.Elts[len(cl.Elts)-1]
		if fset.Position(cl.Rbrace).Line <= fset.Position(last.End()).Line {
			return fmt.Errorf("the closing brace must be on its own line\n--- formatted ---\n%s", fmtOut)
		}
	case len(live) == 1:
		// one pair is rendered inline: it starts on the line of the opening brace and the closing brace follows
		// where it ends, however many lines its value spans
		if len(fmtEl) == 1 && fmtEl[0].line != fset.Position(cl.Lbrace).Line {
			return fmt.Errorf("a single pair must be rendered inline, but it starts on line %d, the opening brace is on line %d\n--- formatted ---\n%s", fmtEl[0].line, fset.Position(cl.Lbrace).Line, fmtOut)
		}
		if len(cl.Elts) == 1 && fset.Position(cl.Rbrace).Line != fset.Position(cl.Elts[0].End()).Line {
			return fmt.Errorf("a single pair must be rendered inline, but the closing brace is not on the line where the pair ends\n--- formatted ---\n%s", fmtOut)
		}
		single := live[0]
		if !multiline(single.Key) && !multiline(single.Val) && fset.Position(cl.Lbrace).Line != fset.Position(cl.Rbrace).Line {
			return fmt.Errorf("a single pair must be rendered inline\n--- formatted ---\n%s", fmtOut)
		}
	}
	// the same Dict value (one Go map) used by two statements of one File, the File rendered twice:
	// every use renders what the single use renders, both times
	body := func(out []byte) string {
		i := bytes.Index(out, []byte("var _ ="))
		if i < 0 {
			return string(out)
		}
		return string(out[i:])
	}
	one := body(rawOut)
	var twice [2]string
	if perr := hx.Safe(func() error {
		f := recipe.BuildFile(c.fileN(true, 2))
		for k := range twice {
			b := &bytes.Buffer{}
			if err := f.Render(b); err != nil {
				return err
			}
			twice[k] = body(b.Bytes())
		}
		return nil
	}); perr != nil {
		return fmt.Errorf("one Dict value used by two statements of a File: %v", perr)
	}
	for k := range twice {
		if twice[k] != one+"\n"+one {
			return fmt.Errorf("one Dict value used by two statements of a File (render %d) gives\n%q\nused once it gives\n%q", k+1, twice[k], one)
		}
	}
	return nil
}

func multiline(n *recipe.Node) bool {
	m := false
	recipe.Walk(n, func(x *recipe.Node) {
		if x != nil && x.Kind == recipe.KDict && len(x.Pairs) > 1 {
			m = true
		}
		if x != nil {
			for _, cl := range x.Calls {
				for _, st := range cl.Str {
					if strings.Contains(string(st), "\n") {
						m = true
					}
				}
			}
		}
	})
	return m
}

func valueHasID(val string, id int) bool {
	// values are `<id>` or wrappers around it: `[]int{<id>}`, `T{"v": <id>}`, `f(<id>)`
	marker := fmt.Sprintf("%d", 1000+id)
	idx := strings.Index(val, marker)
	if idx < 0 {
		return false
	}
	end := idx + len(marker)
	before := idx == 0 || !(val[idx-1] >= '0' && val[idx-1] <= '9')
	after := end == len(val) || !(val[end] >= '0' && val[end] <= '9')
	return before && after
}

// keyMatches: the key text must be the text of the key recipe. Qualified keys
// may render under any alias, so the alias part is compared loosely (the
// symbol after the dot must match); everything else must match exactly.
func keyMatches(p PairSpec, text string) bool {
	want := keyText(p.Key)
	if want == "" {
		return true
	}
	if strings.HasPrefix(want, "?.") {
		return strings.HasSuffix(text, want[1:])
	}
	return normalise(text) == normalise(want)
}

// keyText renders simple key recipes independently of jennifer (identifiers,
// literals, calls of identifiers, selectors). "" = no independent rendering.
func keyText(n *recipe.Node) string {
	if n == nil || n.Kind != recipe.KStmt {
		return ""
	}
	sb := strings.Builder{}
	for _, c := range n.Calls {
		switch c.Fn {
		case "Id":
			sb.WriteString(string(c.Str[0]))
		case "Dot":
			sb.WriteString("." + string(c.Str[0]))
		case "Lit":
			switch c.Val.T {
			case "string":
				sb.WriteString(fmt.Sprintf("%q", string(c.Val.V)))
			case "int":
				sb.WriteString(string(c.Val.V))
			default:
				return ""
			}
		case "LitRune":
			return ""
		case "Call":
			sb.WriteString("(")
			for i, it := range c.Items {
				if i > 0 {
					sb.WriteString(",")
				}
				t := keyText(it)
				if t == "" {
					return ""
				}
				sb.WriteString(t)
			}
			sb.WriteString(")")
		case "Index":
			if len(c.Items) != 1 {
				return ""
			}
			t := keyText(c.Items[0])
			if t == "" {
				return ""
			}
			sb.WriteString("[" + t + "]")
		case "Qual":
			if sb.Len() > 0 {
				return ""
			}
			sb.WriteString("?." + string(c.Str[1]))
		default:
			return ""
		}
	}
	return sb.String()
}

// ---- a placeholder pair that is filled after the Dict was rendered once ----

type fillCase struct {
	Keys     []string `json:"keys"`     // identifier keys of live pairs
	HoleKey  string   `json:"holekey"`  // key of the placeholder pair
	HoleSide string   `json:"holeside"` // "value" | "key"
	Renders  int      `json:"renders"`  // renders before the placeholder is filled
	// SameFile: all renders go through one File object (else a new File per render);
	// Extend: after the first renders one of the live keys (Keys[ExtendAt]) is continued in place with
	// .Extend — its text, and with it possibly its place in the order, changes
	SameFile bool   `json:"samefile,omitempty"`
	Extend   string `json:"extend,omitempty"`
	ExtendAt int    `json:"extendat,omitempty"`
	// PanicFirst (hole on the value side): the value is at first one that Lit rejects, so the early
	// renders panic (recovered, as a caller would); the caller then puts a good value into its map
	PanicFirst bool `json:"panicfirst,omitempty"`
	// Via: how the Dict reaches its Values group: "" Values(d), "add" Values(Add(d)), "func" ValuesFunc with
	// g.Add(d). LateInsert: a pair that the caller puts into its map only after the early renders.
	Via        string `json:"via,omitempty"`
	LateInsert bool   `json:"lateinsert,omitempty"`
}

func checkFill(c fillCase) error {
	var grown *jen.Statement
	var theDict jen.Dict
	var holeKey jen.Code
	build := func(filled bool) (*jen.Statement, *jen.Statement) {
		d := jen.Dict{}
		if !filled {
			theDict = d
		}
		for i, k := range c.Keys {
			key := jen.Id(k)
			if c.Extend != "" && i == c.ExtendAt%len(c.Keys) {
				if filled {
					key.Dot(c.Extend)
				} else {
					grown = key
				}
				// a sibling that the grown key has to move past: k < k.Mid < k.Zed
				d[jen.Id(k).Dot("Mid")] = jen.Lit(7000 + i)
			}
			d[key] = jen.Lit(i)
		}
		hole := jen.Null()
		if filled {
			hole = jen.Null().Lit(4242)
		}
		if c.HoleSide == "key" {
			if filled {
				hole = jen.Null().Id(c.HoleKey)
			}
			d[hole] = jen.Lit(4242)
		} else {
			k := jen.Id(c.HoleKey)
			d[k] = hole
			if !filled {
				holeKey = k
				if c.PanicFirst {
					d[k] = jen.Lit(struct{ A int }{1})
				}
			}
		}
		if filled && c.LateInsert {
			d[jen.Id("LateKey")] = jen.Lit(777)
		}
		switch c.Via {
		case "add":
			return jen.Var().Id("_").Op("=").Id("T").Values(jen.Add(d)), hole
		case "func":
			return jen.Var().Id("_").Op("=").Id("T").ValuesFunc(func(g *jen.Group) { g.Add(d) }), hole
		}
		return jen.Var().Id("_").Op("=").Id("T").Values(d), hole
	}
	var shared *jen.File
	render := func(s *jen.Statement) (string, error) {
		f := jen.NewFile("p")
		if c.SameFile {
			if shared == nil {
				shared = f
				f.Add(s)
			}
			f = shared
		} else {
			f.Add(s)
		}
		buf := &bytes.Buffer{}
		var err error
		if perr := hx.Safe(func() error { err = f.Render(buf); return nil }); perr != nil {
			return "", perr
		}
		return buf.String(), err
	}
	st, hole := build(false)
	for i := 0; i < c.Renders; i++ {
		if _, err := render(st); err != nil && !(c.PanicFirst && c.HoleSide == "value") {
			return err
		}
	}
	if c.HoleSide == "key" {
		hole.Id(c.HoleKey)
	} else if c.PanicFirst {
		theDict[holeKey] = jen.Null().Lit(4242)
	} else {
		hole.Lit(4242)
	}
	if grown != nil {
		grown.Dot(c.Extend)
	}
	if c.LateInsert {
		theDict[jen.Id("LateKey")] = jen.Lit(777)
	}
	got, err := render(st)
	if err != nil {
		return err
	}
	wantSt, _ := build(true)
	shared = nil
	want, err := render(wantSt)
	if err != nil {
		return err
	}
	if got != want {
		return fmt.Errorf("after %d render(s) (one File for all renders: %v) a pair whose %s was a Null() placeholder (or a value Lit rejects: %v) was filled in (and a key continued in place with .%s); the Dict now renders\n%s\nbut a Dict built that way from the start renders\n%s", c.Renders, c.SameFile, c.HoleSide, c.PanicFirst, c.Extend, got, want)
	}
	return nil
}

// ---- generator ----

var idents = []string{"a", "ab", "abc", "b", "B", "_x", "x", "x1", "x10", "x2", "Zed", "é"}
var strs = []string{"", "a", "ab", "a b", "a\"b", "b", "A", "a\n", "日本", "a.b", "a[1]", "100%", "rate %d", "%%", "%!s(MISSING)"}

func genKey(t *rapid.T, depth int) *recipe.Node {
	switch rapid.IntRange(0, 11).Draw(t, "keykind") {
	case 0, 1:
		return recipe.Id(rapid.SampledFrom(idents).Draw(t, "id"))
	case 2:
		return recipe.Lit(rapid.SampledFrom(strs).Draw(t, "str"))
	case 3:
		return recipe.Lit(rapid.IntRange(-3, 30).Draw(t, "int"))
	case 11: // an operator expression with %
		return recipe.Id(rapid.SampledFrom([]string{"a", "x"}).Draw(t, "modl")).C("Op", "%").C("Id", rapid.SampledFrom([]string{"b", "y"}).Draw(t, "modr"))
	case 4: // call: f(), f(x) — legal, non-constant map keys; distinct Code values that render identically
		n := recipe.Id(rapid.SampledFrom([]string{"f", "g", "x"}).Draw(t, "fn"))
		var args []*recipe.Node
		if rapid.Bool().Draw(t, "arg") {
			args = append(args, recipe.Id(rapid.SampledFrom(idents).Draw(t, "argid")))
		}
		return n.C("Call", args)
	case 5: // selector / index: x.y vs x[1] (raw `x [1]` orders differently from formatted `x[1]`)
		n := recipe.Id(rapid.SampledFrom([]string{"x", "a"}).Draw(t, "base"))
		if rapid.Bool().Draw(t, "sel") {
			return n.C("Dot", rapid.SampledFrom([]string{"y", "a", "Y"}).Draw(t, "selname"))
		}
		return n.C("Index", recipe.Lit(rapid.IntRange(0, 3).Draw(t, "idx")))
	case 6, 7: // qualified identifier, registered or not; several paths competing for one name
		p := rapid.SampledFrom([]string{"a/d", "b/d", "c/d", "x.y/D", "fmt", "math/rand", "crypto/rand", "q/e"}).Draw(t, "path")
		return recipe.Qual(p, rapid.SampledFrom([]string{"X", "Y", "A"}).Draw(t, "sym"))
	case 8:
		return recipe.S().C("LitRune", recipe.Rune(rapid.SampledFrom([]rune{'a', 'b', '\n', '日', '\''}).Draw(t, "rune")))
	case 9: // composite key whose body is itself a Dict: Circle{R: 2}
		name := rapid.SampledFrom([]string{"Circle", "Square", "Box", "A"}).Draw(t, "ckname")
		var pairs []recipe.Pair
		for i := rapid.IntRange(1, 2).Draw(t, "ckfields"); i > 0; i-- {
			pairs = append(pairs, recipe.Pair{K: recipe.Id(rapid.SampledFrom([]string{"R", "A", "Z", "W"}).Draw(t, "ckfield")), V: recipe.Lit(rapid.IntRange(0, 3).Draw(t, "ckval"))})
		}
		if len(pairs) == 2 && recipe.JSON(pairs[0].K) == recipe.JSON(pairs[1].K) {
			pairs = pairs[:1]
		}
		return recipe.Id(name).C("Values", recipe.Dict(pairs...))
	default: // composite key
		return recipe.Id("K").C("Values", recipe.Lit(rapid.IntRange(0, 3).Draw(t, "ck")))
	}
}

func genCase(t *rapid.T) Case {
	c := Case{Wrap: rapid.SampledFrom([]string{"T", "map"}).Draw(t, "wrap"), ViaFunc: rapid.Bool().Draw(t, "viafunc"), Prefix: rapid.SampledFrom([]string{"", "", "pkg"}).Draw(t, "prefix")}
	n := rapid.IntRange(0, 20).Draw(t, "npairs")
	if rapid.IntRange(0, 24).Draw(t, "manypairs") == 0 {
		n = rapid.SampledFrom([]int{31, 32, 33, 63, 64, 65, 100, 127, 128, 129, 257}).Draw(t, "npairsmany")
	}
	for i := 0; i < n; i++ {
		p := PairSpec{ID: i}
		if rapid.IntRange(0, 3).Draw(t, "dupkey") == 0 && len(c.Pairs) > 0 {
			// a distinct Code value that renders identically to an earlier key
			src := c.Pairs[rapid.IntRange(0, len(c.Pairs)-1).Draw(t, "dupof")]
			p.Key = src.Key.Clone()
			if src.KeyNull || p.Key == nil || p.Key.Kind != recipe.KStmt || len(p.Key.Calls) == 0 || p.Key.Calls[0].Fn == "Null" {
				p.Key = genKey(t, 0)
			}
		} else {
			p.Key = genKey(t, 0)
		}
		v := recipe.Lit(1000 + i)
		switch rapid.IntRange(0, 8).Draw(t, "valkind") {
		case 6: // a block comment behind the value, with something that looks like a line comment inside
			v = recipe.Lit(1000 + i).C("Comment", "/* see http://example.com/x */")
		case 7: // a string holding //
			v = recipe.Id("f").C("Call", recipe.Lit(1000+i), recipe.Lit("http://example.com//x"))
		case 8: // a multi-line raw string whose last line holds //
			v = recipe.Id("g").C("Call", recipe.Lit(1000+i), recipe.Id("`usage\nsee https://example.com`"))
		case 0:
			v = recipe.S().C("Index").C("Int").C("Values", recipe.Lit(1000+i))
		case 1:
			v = recipe.Id("T").C("Values", recipe.Dict(recipe.Pair{K: recipe.Lit("v"), V: recipe.Lit(1000 + i)}))
		case 2:
			v = recipe.Id("T").C("Values", recipe.Dict(recipe.Pair{K: recipe.Lit("v"), V: recipe.Lit(1000 + i)}, recipe.Pair{K: recipe.Lit("w"), V: recipe.Lit(7)}))
		case 3:
			v = recipe.Qual(rapid.SampledFrom([]string{"a/d", "b/d", "c/d", "fmt"}).Draw(t, "vpath"), "F").C("Call", recipe.Lit(1000+i))
		}
		p.Val = v
		switch rapid.IntRange(0, 15).Draw(t, "nullside") {
		case 14: // a typed nil pointer as value (an optional field left unset)
			p.ValNull = true
			p.Val = &recipe.Node{Kind: recipe.KNilStmt}
		case 15: // a typed nil pointer as key
			p.KeyNull = true
			p.Key = &recipe.Node{Kind: recipe.KNilStmt}
		case 12, 13: // dead on both sides
			p.KeyNull, p.ValNull = true, true
			p.Key = rapid.SampledFrom([]*recipe.Node{recipe.Null(), recipe.S().C("List"), recipe.S().C("Add")}).Draw(t, "deadkey").Clone()
			p.Val = rapid.SampledFrom([]*recipe.Node{recipe.Null(), recipe.Nil(), recipe.S().C("List")}).Draw(t, "deadval")
			if p.Val != nil {
				p.Val = p.Val.Clone()
			}
		case 0:
			p.KeyNull = true
			p.Key = recipe.Null()
		case 1:
			p.ValNull = true
			p.Val = recipe.Null()
		case 2:
			p.ValNull = true
			p.Val = recipe.Nil()
		case 3:
			p.ValNull = true
			p.Val = recipe.S().C("List")
		}
		c.Pairs = append(c.Pairs, p)
		if !p.KeyNull && !p.ValNull && rapid.IntRange(0, 7).Draw(t, "identical") == 0 {
			// a second, distinct pair that renders identically in key AND value (legal for
			// non-constant keys): both must be rendered
			c.Pairs = append(c.Pairs, PairSpec{Key: p.Key.Clone(), Val: p.Val.Clone(), ID: p.ID})
		}
	}
	// two null keys would be two distinct map keys; fine. But the builder maps a nil key to Null().
	if rapid.Bool().Draw(t, "forms") {
		c.Seed = rapid.Uint64Range(1, 1<<40).Draw(t, "formseed")
	}
	return c
}

func classify(r *hx.Run, c Case) {
	var live []PairSpec
	null := false
	for _, p := range c.Pairs {
		if p.KeyNull || p.ValNull {
			null = true
		} else {
			live = append(live, p)
		}
	}
	texts := map[string]int{}
	qual := false
	for _, p := range live {
		texts[recipe.JSON(p.Key)]++
		if len(p.Key.Calls) > 0 && p.Key.Calls[0].Fn == "Qual" {
			qual = true
		}
	}
	dup := false
	for _, n := range texts {
		if n > 1 {
			dup = true
		}
	}
	var ks []string
	for _, p := range live {
		ks = append(ks, keyText(p.Key))
	}
	sort.Strings(ks)
	prefix := false
	for i := 1; i < len(ks); i++ {
		if ks[i-1] != "" && ks[i] != ks[i-1] && strings.HasPrefix(ks[i], ks[i-1]) {
			prefix = true
		}
	}
	mark := func(b bool, name string) {
		if b {
			r.Class(name)
		}
	}
	ids := map[int]int{}
	for _, p := range live {
		ids[p.ID]++
	}
	for _, n := range ids {
		if n > 1 {
			r.Class("identical_pairs")
			break
		}
	}
	mark(dup, "duplicate_key_text")
	mark(prefix, "key_prefix_of_another")
	mark(null, "null_side")
	mark(qual, "qualified_key")
	mark(len(live) == 0, "all_null")
	mark(len(live) == 1, "single_pair")
	if len(live) >= 2 && (dup || prefix || null || qual) {
		r.Class("nontrivial")
		r.NonTrivial(recipe.JSON(c))
	}
}

func TestC16(t *testing.T) {
	r := hx.Start(t, "C16")
	defer r.Finish(t)
	r.Rule("rapid-generated Dicts of 0..20 pairs: keys = identifiers, string/int/rune literals, calls, selectors/index expressions, qualified identifiers (paths competing for one name, with/without prefix), composite keys, with a controlled fraction of distinct Code values that render identically; values = unique Lit(1000+i), bare or wrapped (slice literal, nested Dict of 1 or 2 pairs, qualified call); null keys / null values / nil values / empty List values injected by construction; wrapped as T{...} or map[interface{}]interface{}{...}, via a map literal or DictFunc; non-trivial = >= 2 live pairs and one of: duplicate key text, key that is a prefix of another, null side, qualified key; distinct by the case")
	r.Assume("a Dict is the only item of its Values (documented precondition); order is checked on the raw (NoFormat) key text, which is 'the rendered text of the keys' — gofmt'd text orders differently (x [1] vs x.y)")
	hx.Rapid(r, t, hx.Check[fillCase]{Name: "fill_after_render", Fn: checkFill}, r.N(300, 3000), func(rt *rapid.T) fillCase {
		c := fillCase{HoleKey: rapid.SampledFrom([]string{"hole", "a", "zz", "m"}).Draw(rt, "holekey"), HoleSide: rapid.SampledFrom([]string{"value", "key"}).Draw(rt, "side"), Renders: rapid.IntRange(1, 3).Draw(rt, "renders")}
		seen := map[string]bool{c.HoleKey: true}
		for i := rapid.IntRange(0, 5).Draw(rt, "nkeys"); i > 0; i-- {
			k := rapid.SampledFrom(idents).Draw(rt, "k")
			if !seen[k] {
				seen[k] = true
				c.Keys = append(c.Keys, k)
			}
		}
		c.SameFile = rapid.Bool().Draw(rt, "samefile")
		if c.HoleSide == "value" && rapid.IntRange(0, 2).Draw(rt, "panicfirst") == 0 {
			c.PanicFirst = true
			r.Class("fill_after_render:after_a_panicking_render")
		}
		if len(c.Keys) > 0 && rapid.Bool().Draw(rt, "extend") {
			c.Extend = rapid.SampledFrom([]string{"Zed", "a", "m", "_", "x1"}).Draw(rt, "ext")
			c.ExtendAt = rapid.IntRange(0, len(c.Keys)-1).Draw(rt, "extat")
			r.Class("fill_after_render:key_extended_in_place")
		}
		c.Via = rapid.SampledFrom([]string{"", "", "add", "func"}).Draw(rt, "via")
		c.LateInsert = rapid.IntRange(0, 2).Draw(rt, "lateinsert") == 0
		r.NonTrivial(fmt.Sprintf("%+v", c))
		r.Class("fill_after_render")
		return c
	})
	hx.Rapid(r, t, hx.Check[Case]{Name: "dict", Fn: check}, r.N(2000, 20000), func(rt *rapid.T) Case {
		c := genCase(rt)
		classify(r, c)
		return c
	})
}
