package c05

import (
	"fmt"
	"testing"

	"verif/internal/hx"
	"verif/internal/imps"
	"verif/internal/recipe"
)

// freshCase: the scenario's File is the first File a fresh process ever builds (whatever the package sets
// up lazily is set up by this File's first import), optionally after the process has asked
// jen.IsReservedWord about a few identifiers.
type freshCase struct {
	First    []string      `json:"first,omitempty"`
	Scenario imps.Scenario `json:"scenario"`
}

func checkFresh(c freshCase) error {
	o, ok, err := c.Scenario.RunFresh(c.First)
	if !ok {
		return nil // cannot re-execute: nothing to compare
	}
	if err != nil {
		return fmt.Errorf("in a fresh process: %v", err)
	}
	if err := o.AssertRendered(); err != nil {
		return fmt.Errorf("in a fresh process: %v", err)
	}
	if err := o.AssertLegalNames(); err != nil {
		return fmt.Errorf("in a fresh process (this File's first import is the first import of the process): %v", err)
	}
	if err := o.AssertResolution(); err != nil {
		return fmt.Errorf("in a fresh process: %v", err)
	}
	return nil
}

// TestImpsFreshChild is the re-executed half.
func TestImpsFreshChild(t *testing.T) {
	if !imps.FreshChild() {
		t.Skip("helper")
	}
}

func TestC05Fresh(t *testing.T) {
	r := hx.Start(t, "C05")
	defer r.Finish(t)
	r.Rule("first_import_of_a_process: a reserved word as last path element / ImportName / ImportAlias hint of the first import a fresh process registers (with and without a prefix, with and without earlier IsReservedWord calls): names are legal and unique there too")
	ck := hx.Check[freshCase]{Name: "first_import_of_a_process", Fn: checkFresh}
	if hx.Replay(r, ck) || r.Shard != 0 {
		return
	}
	words := []string{"copy", "len", "string", "int", "nil", "true", "error", "any", "func", "type", "range", "go", "map", "iota", "C", "err", "comparable", "new"}
	n := 0
	for wi, w := range words {
		if !r.Thorough() && (wi+int(r.Seed))%3 != 0 {
			continue
		}
		for kind := 0; kind < 3; kind++ {
			sc := imps.Scenario{File: recipe.File{Ctor: "NewFile", Args: []recipe.Text{"p"}}}
			path := "fresh.example/lib/" + w
			switch kind {
			case 1:
				path = "fresh.example/lib/ordinary"
				sc.File.Ops = append(sc.File.Ops, recipe.FileOp{Op: "ImportName", Args: []recipe.Text{recipe.Text(path), recipe.Text(w)}})
			case 2:
				path = "fresh.example/lib/ordinary"
				sc.File.Ops = append(sc.File.Ops, recipe.FileOp{Op: "ImportAlias", Args: []recipe.Text{recipe.Text(path), recipe.Text(w)}})
			}
			if (wi+kind)%4 == 3 {
				sc.File.Ops = append(sc.File.Ops, recipe.FileOp{Op: "PackagePrefix", Args: []recipe.Text{"pf"}})
			}
			sc.Paths = []string{path, "fresh.example/other/" + w}
			sc.File.Body = []*recipe.Node{
				recipe.S().C("Var").C("Id", "_").C("Op", "=").Add(recipe.Qual(sc.Paths[0], "S0")),
				recipe.S().C("Var").C("Id", "_").C("Op", "=").Add(recipe.Qual(sc.Paths[1], "S1")),
			}
			c := freshCase{Scenario: sc}
			if (wi+kind)%5 == 4 {
				c.First = []string{"x", w}
			}
			hx.One(r, ck, c)
			r.NonTrivial(fmt.Sprintf("%s/%d", w, kind))
			n++
		}
	}
	r.ClassN("fresh_process_cases", n)
}
