// C05 Import names are unique and legal for any path, hint and prefix.
package c05

import (
	"fmt"
	"testing"

	"pgregory.net/rapid"

	"verif/internal/hx"
	"verif/internal/imps"
	"verif/internal/recipe"
)

func check(sc imps.Scenario) error {
	o, err := sc.Run()
	if err != nil {
		return err
	}
	if err := o.AssertLegalNames(); err != nil {
		return err
	}
	// go/types agrees: no redeclaration, every qualifier resolves
	return o.AssertResolution()
}

// exhaustive part: every keyword and universe identifier as last path element and as hint
type reservedCase struct {
	Word   string `json:"word"`
	Mode   string `json:"mode"` // last | name | alias | last+other
	Prefix string `json:"prefix"`
}

func (c reservedCase) scenario() imps.Scenario {
	sc := imps.Scenario{File: recipe.File{Ctor: "NewFile", Args: []recipe.Text{"p"}}}
	switch c.Mode {
	case "last":
		sc.Paths = []string{"x.y/" + c.Word, "q.r/" + c.Word}
	case "bare":
		sc.Paths = []string{"x.y/z/" + c.Word}
	case "name":
		sc.Paths = []string{"x.y/one", "x.y/two"}
		sc.File.Ops = append(sc.File.Ops, recipe.FileOp{Op: "ImportName", Args: []recipe.Text{"x.y/one", recipe.Text(c.Word)}})
	case "alias":
		sc.Paths = []string{"x.y/one", "x.y/" + c.Word}
		sc.File.Ops = append(sc.File.Ops, recipe.FileOp{Op: "ImportAlias", Args: []recipe.Text{"x.y/one", recipe.Text(c.Word)}})
	case "names":
		sc.Paths = []string{"x.y/one", "x.y/two"}
		sc.File.Ops = append(sc.File.Ops, recipe.FileOp{Op: "ImportNames", Map: map[string]string{"x.y/one": c.Word, "x.y/two": c.Word}})
	}
	if c.Prefix != "" {
		sc.File.Ops = append(sc.File.Ops, recipe.FileOp{Op: "PackagePrefix", Args: []recipe.Text{recipe.Text(c.Prefix)}})
	}
	var vals []*recipe.Node
	for i, p := range sc.Paths {
		vals = append(vals, recipe.Qual(p, fmt.Sprintf("S%d", i)))
	}
	sc.File.Body = []*recipe.Node{recipe.S().C("Var").C("Id", "_").C("Op", "=").C("Index").C("Interface").C("Values", vals)}
	return sc
}

type manyCase struct {
	Base   string `json:"base"`
	N      int    `json:"n"`
	Prefix string `json:"prefix"`
	Hint   bool   `json:"hint"` // every second path gets the name through ImportName instead of its last element
}

func (c manyCase) scenario() imps.Scenario {
	sc := imps.Scenario{File: recipe.File{Ctor: "NewFile", Args: []recipe.Text{"p"}}}
	for i := 0; i < c.N; i++ {
		if c.Hint && i%2 == 1 {
			p := fmt.Sprintf("h%d.example/other%d", i, i)
			sc.Paths = append(sc.Paths, p)
			sc.File.Ops = append(sc.File.Ops, recipe.FileOp{Op: "ImportName", Args: []recipe.Text{recipe.Text(p), recipe.Text(c.Base)}})
			continue
		}
		sc.Paths = append(sc.Paths, fmt.Sprintf("m%d.example/%s", i, c.Base))
	}
	if c.Prefix != "" {
		sc.File.Ops = append(sc.File.Ops, recipe.FileOp{Op: "PackagePrefix", Args: []recipe.Text{recipe.Text(c.Prefix)}})
	}
	var vals []*recipe.Node
	for i, p := range sc.Paths {
		vals = append(vals, recipe.Qual(p, fmt.Sprintf("S%d", i)))
	}
	sc.File.Body = []*recipe.Node{recipe.S().C("Var").C("Id", "_").C("Op", "=").C("Index").C("Interface").C("Values", vals)}
	return sc
}

func TestC05(t *testing.T) {
	r := hx.Start(t, "C05")
	defer r.Finish(t)
	r.Rule("(a) exhaustive: every go/token keyword and every types.Universe name as last path element (alone and in a colliding pair) and as ImportName / ImportNames / ImportAlias hint, x PackagePrefix in {\"\", pkg, _, ü}; (b) rapid: multisets of up to 15 paths competing for one base name, arbitrary parser-valid path strings (digits, punctuation, unicode, trailing slash, many slashes), identifier hints incl. reserved words, prefixes; non-trivial = >= 2 paths with equal candidate name or a reserved candidate; distinct by the full scenario")
	r.Assume("import paths are strings go/parser accepts (graphic, no space, none of !\"#$%&'()*,:;<=>?[\\]^`{|} and U+FFFD): others cannot appear in a Go file; hints are identifiers")

	// (a) exhaustive, in every tier and shard 0 only
	ckR := hx.Check[reservedCase]{Name: "reserved_word", Fn: func(c reservedCase) error { return check(c.scenario()) }}
	if !hx.Replay(r, ckR) && r.Shard == 0 {
		n := 0
		for _, w := range imps.Reserved() {
			for _, mode := range []string{"last", "bare", "name", "alias", "names"} {
				for _, prefix := range []string{"", "pkg", "_", "ü"} {
					c := reservedCase{Word: w, Mode: mode, Prefix: prefix}
					hx.One(r, ckR, c)
					r.NonTrivial(fmt.Sprintf("%+v", c))
					n++
				}
			}
		}
		r.ClassN("exhaustive_reserved_cases", n)
		r.Exhaustive(fmt.Sprintf("all %d keywords and universe names x 5 modes x 4 prefixes", len(imps.Reserved())))
	}

	// (a') count thresholds: 2..257 paths that all want the same name (the k-th one gets the suffix
	// k-1: int8, int16, uint32, float32, complex64 are reserved words that suffixing can produce)
	ckM := hx.Check[manyCase]{Name: "many_same_base", Fn: func(c manyCase) error { return check(c.scenario()) }}
	if !hx.Replay(r, ckM) && r.Shard == 0 {
		for _, base := range []string{"int", "uint", "float", "complex", "d", "rune1", "x_"} {
			for _, prefix := range []string{"", "pkg"} {
				for _, n := range []int{2, 7, 8, 9, 10, 11, 12, 16, 17, 31, 32, 33, 63, 64, 65, 70, 99, 100, 101, 102, 129, 257} {
					c := manyCase{Base: base, N: n, Prefix: prefix, Hint: n%2 == 0}
					hx.One(r, ckM, c)
					r.NonTrivial(fmt.Sprintf("%+v", c))
				}
			}
		}
		r.Class("many_same_base")
	}

	// (a'') blank imports that are referenced as well, fragments rendered against the File before its first
	// render, part of the body added after it: small enumerated family
	ckA := hx.Check[imps.Scenario]{Name: "anon_then_fragments", Fn: check}
	if !hx.Replay(r, ckA) && r.Shard == 0 {
		n := 0
		for _, pair := range [][2]string{{"x.example/db/driver", "y.example/net/driver"}, {"math/rand", "crypto/rand"}, {"a/int", "b/int"}, {"a/d", "b/d1"}} {
			for _, prefix := range []string{"", "pkg"} {
				for anon := 1; anon <= 3; anon++ { // bit 0: first path, bit 1: second path
					for preview := 0; preview <= 2; preview++ {
						for late := 0; late <= 1; late++ {
							sc := imps.Scenario{File: recipe.File{Ctor: "NewFile", Args: []recipe.Text{"p"}}, Paths: []string{pair[0], pair[1]}}
							var anons []recipe.Text
							for i := 0; i < 2; i++ {
								if anon&(1<<uint(i)) != 0 {
									anons = append(anons, recipe.Text(pair[i]))
								}
							}
							sc.File.Ops = append(sc.File.Ops, recipe.FileOp{Op: "Anon", Args: anons})
							if prefix != "" {
								sc.File.Ops = append(sc.File.Ops, recipe.FileOp{Op: "PackagePrefix", Args: []recipe.Text{recipe.Text(prefix)}})
							}
							for i, p := range sc.Paths {
								sc.File.Body = append(sc.File.Body, recipe.S().C("Var").C("Id", "_").C("Op", "=").Add(recipe.Qual(p, fmt.Sprintf("S%d", i))))
							}
							sc.Split = len(sc.File.Ops) + 1
							sc.Preview = preview
							sc.LateBody = late
							hx.One(r, ckA, sc)
							r.NonTrivial(recipe.JSON(sc))
							n++
						}
					}
				}
			}
		}
		r.ClassN("anon_then_fragments", n)
	}

	profiles := []struct {
		name string
		pr   imps.Profile
	}{
		{"compete", imps.Profile{MaxPaths: 15, Compete: true, ReservedMix: true}},
		{"arbitrary", imps.Profile{MaxPaths: 10, ArbPaths: true, ReservedMix: true, Compete: true, Std: true}},
		{"mixed", imps.Profile{MaxPaths: 12, Std: true, Cgo: true, Compete: true, ReservedMix: true, Anon: true, Dots: 1}},
	}
	for _, p := range profiles {
		ck := hx.Check[imps.Scenario]{Name: "names_" + p.name, Fn: check}
		g := imps.Gen(p.pr)
		hx.Rapid(r, t, ck, r.N(600, 8000), func(rt *rapid.T) imps.Scenario {
			sc := g(rt)
			f := sc.Features()
			if f.Collisions > 0 {
				r.Class("colliding_candidates")
			}
			if f.Collisions >= 3 {
				r.Class("collisions_3plus")
			}
			if f.ReservedCand > 0 {
				r.Class("reserved_candidate")
			}
			if f.Prefix {
				r.Class("prefix_set")
			}
			if f.Collisions > 0 || f.ReservedCand > 0 {
				r.Class("nontrivial")
				r.NonTrivial(recipe.JSON(sc))
			}
			return sc
		})
	}
}
