package c15

import (
	"bytes"
	"fmt"
	"strings"
	"testing"

	"github.com/dave/jennifer/jen"
	"pgregory.net/rapid"

	"verif/internal/hx"
)

// templateCase: one statement object is added several times (to a block, to case bodies, to the
// File), and each time a comment of its own is chained onto what Add returned. Every comment is in
// the output exactly once, in order, each behind its own copy of the statement.
type templateCase struct {
	Tokens int      `json:"tokens"`
	Texts  []string `json:"texts"`
	Host   string   `json:"host"` // block | case | file
}

func (c templateCase) render(shared bool) (string, error) {
	mk := func() *jen.Statement {
		s := jen.Id("x").Op("=")
		for i := 0; i < c.Tokens; i++ {
			if i > 0 {
				s.Op("+")
			}
			s.Lit(i)
		}
		return s
	}
	tmpl := mk()
	pick := func() *jen.Statement {
		if shared {
			return tmpl
		}
		return mk()
	}
	f := jen.NewFile("p")
	f.NoFormat = true
	switch c.Host {
	case "block":
		f.Func().Id("f").Params().BlockFunc(func(g *jen.Group) {
			for _, t := range c.Texts {
				g.Add(pick()).Comment(t)
			}
		})
	case "case":
		f.Func().Id("f").Params().Block(jen.Switch(jen.Id("v")).BlockFunc(func(g *jen.Group) {
			for i, t := range c.Texts {
				g.Case(jen.Lit(i)).BlockFunc(func(b *jen.Group) { b.Add(pick()).Comment(t) })
			}
		}))
	default:
		for _, t := range c.Texts {
			f.Add(jen.Var().Add(pick())).Comment(t)
		}
	}
	buf := &bytes.Buffer{}
	err := f.Render(buf)
	return buf.String(), err
}

func checkTemplate(c templateCase) error {
	var got, want string
	var gerr, werr error
	if perr := hx.Safe(func() error {
		got, gerr = c.render(true)
		want, werr = c.render(false)
		return nil
	}); perr != nil {
		return perr
	}
	if (gerr == nil) != (werr == nil) || got != want {
		return fmt.Errorf("one statement object added %d times (%s), a comment chained onto each result: the output is\n%s\n(err %v); with a fresh statement per use it is\n%s\n(err %v)", len(c.Texts), c.Host, got, gerr, want, werr)
	}
	// and every text is there once, in order
	pos := 0
	for _, t := range c.Texts {
		k := strings.Index(got[pos:], "// "+t)
		if k < 0 {
			return fmt.Errorf("comment %q is missing (or out of order) in\n%s", t, got)
		}
		pos += k + len(t)
	}
	return nil
}

func TestC15Template(t *testing.T) {
	r := hx.Start(t, "C15")
	defer r.Finish(t)
	r.Rule("template_comments: one statement object of 1..9 tokens added 2..5 times to a block, to case bodies or to the File, a one-line comment of its own chained onto what each Add returned; the unformatted output must equal the one built with a fresh statement per use and hold every comment once, in order")
	hx.Rapid(r, t, hx.Check[templateCase]{Name: "template_comments", Fn: checkTemplate}, r.N(300, 3000), func(rt *rapid.T) templateCase {
		c := templateCase{Tokens: rapid.IntRange(1, 9).Draw(rt, "tokens"), Host: rapid.SampledFrom([]string{"block", "case", "file"}).Draw(rt, "host")}
		for i := rapid.IntRange(2, 5).Draw(rt, "uses"); i > 0; i-- {
			c.Texts = append(c.Texts, fmt.Sprintf("use %d of the template", len(c.Texts)+1))
		}
		r.NonTrivial(fmt.Sprintf("%+v", c))
		r.Class("template_comments:" + c.Host)
		return c
	})
}
