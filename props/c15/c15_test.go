// C15 Comments are contained and preserved; file-level comments are placed right.
package c15

import (
	"bytes"
	"fmt"
	"go/ast"
	"go/build/constraint"
	"go/parser"
	"go/scanner"
	"go/token"
	"os"
	"runtime"
	"sort"
	"strconv"
	"strings"
	"sync"
	"testing"
	"time"
	"unicode/utf8"

	"pgregory.net/rapid"

	"verif/internal/corpus"
	"verif/internal/gen"
	"verif/internal/hx"
	"verif/internal/mutate"
	"verif/internal/recipe"
	"verif/internal/rt"
	"verif/internal/shrink"
)

// ---- texts ----

var pieces = []string{"a", "word", " ", "  ", "\t", "{", "}", "(", ")", "\"", "`", "'", ";", "x := 1", "return", "// mid", "/* mid", "* /", "*", "\\", "\\n", "é", "日本語", "\u2028", "func() {", "package p", "import \"C\"", "%d", "TODO:", "http://x.y/z", "\r", "#", "end*", "1.", "- item", "    indented", "``", "“"}

// genText draws a comment text inside the property's domain: it does not
// start with a comment marker, does not contain */, and can occur in a Go
// source file (valid UTF-8, no NUL, no BOM).
func genText(t *rapid.T, multiline bool) string {
	line := func() string {
		n := rapid.IntRange(0, 5).Draw(t, "npieces")
		sb := strings.Builder{}
		for i := 0; i < n; i++ {
			if rapid.IntRange(0, 5).Draw(t, "anystr") == 0 {
				sb.WriteString(rapid.StringN(0, 6, -1).Draw(t, "runes"))
			} else {
				sb.WriteString(rapid.SampledFrom(pieces).Draw(t, "piece"))
			}
		}
		return sb.String()
	}
	s := line()
	if rapid.IntRange(0, 11).Draw(t, "directivelike") == 0 {
		// text that reads like a tool directive: behind "// " it is an ordinary comment
		s = rapid.SampledFrom([]string{"go:build ignore", "go:build linux && amd64", "go:generate stringer -type=T", "go:noinline", "go:embed x.txt", "+build linux", "line x.go:10", "export f", "nolint:all", "lint:ignore U1000 x", "go:build ignore is how such files are marked"}).Draw(t, "directive") + s
	}
	if multiline {
		k := rapid.IntRange(1, 3).Draw(t, "nlines")
		for i := 0; i < k; i++ {
			s += "\n" + line()
		}
		if rapid.Bool().Draw(t, "trailingnl") {
			s += "\n"
		}
	}
	return sanitize(s)
}

func sanitize(s string) string {
	s = strings.ReplaceAll(s, "*/", "* /")
	s = strings.ReplaceAll(s, "\x00", "0")
	s = strings.ReplaceAll(s, "\ufeff", "B")
	if !utf8.ValidString(s) {
		s = strings.ToValidUTF8(s, "?")
	}
	for strings.HasPrefix(s, "//") || strings.HasPrefix(s, "/*") {
		s = "x" + s
	}
	return s
}

// ---- (a) comment policy on programs ----

type progCase struct {
	Name string            `json:"name"`
	Src  recipe.Text       `json:"src"`
	Dec  *recipe.Decisions `json:"dec"`
	Seed uint64            `json:"seed"` // text stream
}

var root = corpus.Default()

type tok struct {
	tok token.Token
	lit string
}

func scan(src []byte, comments bool) (code []tok, cmts []string, err error) {
	fs := token.NewFileSet()
	file := fs.AddFile("", fs.Base(), len(src))
	var sc scanner.Scanner
	mode := scanner.Mode(0)
	if comments {
		mode = scanner.ScanComments
	}
	sc.Init(file, src, func(pos token.Position, msg string) {
		if err == nil {
			err = fmt.Errorf("%v: %s", pos, msg)
		}
	}, mode)
	for {
		_, t, lit := sc.Scan()
		if t == token.EOF {
			break
		}
		if t == token.COMMENT {
			cmts = append(cmts, lit)
			continue
		}
		if t == token.SEMICOLON && lit == "\n" {
			continue
		}
		code = append(code, tok{t, lit})
	}
	return
}

func sameCode(a, b []tok) (bool, string) {
	for i := 0; i < len(a) && i < len(b); i++ {
		if a[i] != b[i] {
			lo := i - 5
			if lo < 0 {
				lo = 0
			}
			ctx := ""
			for _, t := range a[lo:i] {
				if t.lit != "" {
					ctx += t.lit + " "
				} else {
					ctx += t.tok.String() + " "
				}
			}
			return false, fmt.Sprintf("token %d: without comments %v %q, with comments %v %q (after: %s)", i, a[i].tok, a[i].lit, b[i].tok, b[i].lit, ctx)
		}
	}
	if len(a) != len(b) {
		return false, fmt.Sprintf("%d code tokens without comments, %d with", len(a), len(b))
	}
	return true, ""
}

// textStream yields the comment texts of a case deterministically from its seed.
func textStream(seed uint64) func() string {
	state := seed
	next := func(n int) int {
		state += 0x9E3779B97F4A7C15
		z := state
		z = (z ^ (z >> 30)) * 0xBF58476D1CE4E5B9
		z = (z ^ (z >> 27)) * 0x94D049BB133111EB
		z ^= z >> 31
		return int(z % uint64(n))
	}
	return func() string {
		line := func() string {
			sb := strings.Builder{}
			for i := next(5); i > 0; i-- {
				sb.WriteString(pieces[next(len(pieces))])
			}
			return sb.String()
		}
		s := line()
		if next(3) == 0 {
			for i := 1 + next(2); i > 0; i-- {
				s += "\n" + line()
			}
			if next(2) == 0 {
				s += "\n"
			}
		}
		return sanitize(s)
	}
}

func nofmt(f *recipe.File) *recipe.File {
	g := f.Clone()
	g.Ops = append(g.Ops, recipe.FileOp{Op: "NoFormat"})
	return g
}

func checkRecipe(base *recipe.File, dec *recipe.Decisions, seed uint64) (int, []mutate.Placed, error) {
	dec.Rewind()
	with, placed := mutate.InjectComments(base, dec, 5, textStream(seed))
	if len(placed) == 0 {
		return 0, nil, nil
	}
	// null-like items next to the comments (after a commented last item, between comments):
	// they vanish (C13), so the code tokens must still be those of the comment-free build
	nstate := seed ^ 0xA5A5A5A5
	ndec := &recipe.Decisions{Draw: func(n int) int {
		nstate += 0x9E3779B97F4A7C15
		z := nstate
		z = (z ^ (z >> 30)) * 0xBF58476D1CE4E5B9
		z = (z ^ (z >> 27)) * 0x94D049BB133111EB
		z ^= z >> 31
		return int(z % uint64(n))
	}}
	with, _ = mutate.InjectNulls(with, ndec, 4)
	for _, mode := range []string{"NoFormat", "formatted"} {
		a, b := base, with
		if mode == "NoFormat" {
			a, b = nofmt(base), nofmt(with)
		}
		outA, err := rt.Render(&recipe.Builder{}, a)
		if err != nil {
			return 0, nil, nil // the program itself does not render: C01's business
		}
		outB, err := rt.Render(&recipe.Builder{}, b)
		if err != nil {
			return len(placed), placed, fmt.Errorf("%s: with %d comments the File no longer renders: %s", mode, len(placed), rt.Short(err.Error(), 700))
		}
		codeA, cmtA, err := scan(outA, true)
		if err != nil {
			return 0, nil, nil
		}
		if mode == "formatted" && inKF3(placed) {
			// input class of known finding KF3: the formatted output is not judged (see inKF3)
			continue
		}
		codeB, cmtB, err := scan(outB, true)
		if err != nil {
			return len(placed), placed, fmt.Errorf("%s: output with comments does not scan: %v", mode, err)
		}
		if ok, why := sameCode(codeA, codeB); !ok {
			return len(placed), placed, fmt.Errorf("%s: the comments changed the code's token sequence: %s", mode, why)
		}
		if err := stillParses(mode, outA, outB); err != nil {
			return len(placed), placed, err
		}
		if mode == "NoFormat" {
			// preservation: the comments found, minus those of the comment-free build (cgo preambles), in order
			var got []string
			j := 0
			for _, c := range cmtB {
				if j < len(cmtA) && c == cmtA[j] {
					j++
					continue
				}
				got = append(got, c)
			}
			if len(got) != len(placed) {
				return len(placed), placed, fmt.Errorf("%d comments were added, %d found in the output", len(placed), len(got))
			}
			for i, p := range placed {
				want := strings.ReplaceAll(mutate.Rendered(p.Text), "\r", "")
				if strings.ReplaceAll(got[i], "\r", "") != want {
					return len(placed), placed, fmt.Errorf("comment %d (%s, %s) with text %q appears as %q, want %q", i, p.Host, p.Pos, p.Text, got[i], want)
				}
			}
		}
	}
	return len(placed), placed, nil
}

func checkProg(c progCase) error {
	p, status, _ := rt.Translate(c.Name, []byte(c.Src), root, nil, false)
	if status != rt.OK {
		return nil
	}
	_, _, err := checkRecipe(p.Recipe, c.Dec, c.Seed)
	return err
}

// ---- (a') comment policy on generated programs with rapid-drawn texts ----

type genCase struct {
	File  *recipe.File      `json:"file"`
	Dec   *recipe.Decisions `json:"dec"`
	Texts []string          `json:"texts"`
}

func checkGen(c genCase) error { return checkGenX(c, true) }

// probeGen judges a case without steering away from the input classes of the known findings.
func probeGen(c genCase) error { return checkGenX(c, false) }

// inKF3 is the input class of known finding KF3: a comment whose text, written behind "// ", reads as a
// build constraint line of the old style ("+build linux"). gofmt's build-constraint fix-up (go/printer
// fixGoBuildLines) takes every such comment, wherever it stands, for a constraint of the file: it moves it
// in front of the package clause, writes a //go:build line above it and deletes the rest of the line the
// comment stood on together with its line break, so a comment at the end of an item joins two lines of code
// (`F int  G int`), and a form feed in the text cuts the comment in two. gofmt does the same to a
// hand-written file; the unformatted output is right.
func inKF3(placed []mutate.Placed) bool {
	for _, p := range placed {
		if kf3Text(p.Text) {
			return true
		}
	}
	return false
}

func kf3Text(text string) bool {
	line := text
	if i := strings.IndexAny(line, "\f\r"); i >= 0 {
		line = line[:i] // (go/printer ends the line there)
	}
	return !strings.Contains(text, "\n") && constraint.IsPlusBuild("// "+line)
}

// stillParses: where the comment-free output parses as a Go file, the output with comments does too (two
// lines of code joined into one keep their tokens and lose their meaning).
func stillParses(mode string, without, with []byte) error {
	if _, err := parser.ParseFile(token.NewFileSet(), "", without, parser.SkipObjectResolution); err != nil {
		return nil
	}
	if _, err := parser.ParseFile(token.NewFileSet(), "", with, parser.SkipObjectResolution|parser.ParseComments); err != nil {
		return fmt.Errorf("%s: the output without the comments parses as a Go file, the output with them does not: %v\n--- with comments ---\n%s", mode, err, with)
	}
	return nil
}

// equalKeyedPairs: some Dict of the file holds two pairs whose keys are built alike. Such pairs render the
// same key text and are ordered by the rest of their content; comments placed inside their values may then
// reorder them, which is the Dict's business (C16), not a comment altering code.
func equalKeyedPairs(f *recipe.File) bool {
	found := false
	for _, n := range f.Body {
		recipe.Walk(n, func(x *recipe.Node) {
			if x == nil || x.Kind != recipe.KDict {
				return
			}
			seen := map[string]bool{}
			for _, p := range x.Pairs {
				k := recipe.JSON(p.K)
				if seen[k] {
					found = true
				}
				seen[k] = true
			}
		})
	}
	return found
}

func checkGenX(c genCase, exclude bool) error {
	if equalKeyedPairs(c.File) {
		return nil // outside the domain of this check
	}
	c.Dec.Rewind()
	i := 0
	text := func() string {
		if len(c.Texts) == 0 {
			return "c"
		}
		t := c.Texts[i%len(c.Texts)]
		i++
		return t
	}
	with, placed := mutate.InjectComments(c.File, c.Dec, 3, text)
	if len(placed) == 0 {
		return nil
	}
	for _, mode := range []string{"NoFormat", "formatted"} {
		a, b := c.File, with
		if mode == "NoFormat" {
			a, b = nofmt(c.File), nofmt(with)
		}
		outA, err := rt.Render(&recipe.Builder{}, a)
		if err != nil {
			return nil
		}
		outB, err := rt.Render(&recipe.Builder{}, b)
		if err != nil {
			return fmt.Errorf("%s: with %d comments the File no longer renders: %s", mode, len(placed), rt.Short(err.Error(), 700))
		}
		codeA, _, err := scan(outA, true)
		if err != nil {
			return nil
		}
		if mode == "formatted" && exclude && inKF3(placed) {
			continue
		}
		codeB, cmtB, err := scan(outB, true)
		if err != nil {
			return fmt.Errorf("%s: output with comments does not scan: %v\n%s", mode, err, outB)
		}
		if ok, why := sameCode(codeA, codeB); !ok {
			return fmt.Errorf("%s: the comments changed the code's token sequence: %s\n--- with comments ---\n%s", mode, why, outB)
		}
		if err := stillParses(mode, outA, outB); err != nil {
			return err
		}
		if mode == "NoFormat" {
			_, cmtA, _ := scan(outA, true)
			var got []string
			j := 0
			for _, cm := range cmtB {
				if j < len(cmtA) && cm == cmtA[j] {
					j++
					continue
				}
				got = append(got, cm)
			}
			if len(got) != len(placed) {
				return fmt.Errorf("%d comments were added, %d found in the output\n%s", len(placed), len(got), outB)
			}
			// generated programs contain Dicts, whose values render in key order, not in recipe
			// order: compare as multisets
			var wants []string
			for _, p := range placed {
				wants = append(wants, strings.ReplaceAll(mutate.Rendered(p.Text), "\r", ""))
			}
			for k := range got {
				got[k] = strings.ReplaceAll(got[k], "\r", "")
			}
			sort.Strings(wants)
			sort.Strings(got)
			for k := range wants {
				if got[k] != wants[k] {
					return fmt.Errorf("the comments found in the output differ from the texts given: found %q, want %q\n%s", got[k], wants[k], outB)
				}
			}
		}
	}
	return nil
}

// ---- (a'') every text length ----

type lenCase struct {
	Len   int    `json:"len"`
	Shape string `json:"shape"` // line | block | block-nl
	Host  string `json:"host"`  // Block | Defs | Struct | Interface | File
	Pos   string `json:"pos"`   // end-of-last-item | own-last-item
}

func (c lenCase) text() string {
	const alphabet = "abcdefghijklmnopqrstuvwxyz {}();\"`0123456789"
	b := make([]byte, c.Len)
	for i := range b {
		b[i] = alphabet[(i*7+c.Len)%len(alphabet)]
	}
	switch c.Shape {
	case "block":
		if c.Len >= 3 {
			b[c.Len/2] = '\n'
		} else {
			return string(b) + "\nx"
		}
	case "block-nl":
		if c.Len >= 1 {
			b[c.Len-1] = '\n'
		} else {
			return "\n"
		}
	}
	return sanitize(string(b))
}

func checkLen(c lenCase) error {
	text := c.text()
	cm := recipe.S().C("Comment", text)
	item := func(n int) *recipe.Node { return recipe.Id(fmt.Sprintf("x%d", n)).C("Int") }
	build := func(with bool) *recipe.File {
		a, b := item(1), item(2)
		items := []*recipe.Node{a, b}
		if with {
			if c.Pos == "own-last-item" {
				items = append(items, cm)
			} else {
				b.Calls = append(b.Calls, recipe.Call{Fn: "Comment", Str: []recipe.Text{recipe.Text(text)}})
			}
		}
		var decl *recipe.Node
		switch c.Host {
		case "Block":
			for i, it := range items {
				if len(it.Calls) > 0 && it.Calls[0].Fn == "Id" {
					items[i] = recipe.S().C("Var").Then(it)
				}
			}
			decl = recipe.S().C("Func").C("Id", "f").C("Params").C("Block", items)
		case "Defs":
			decl = recipe.S().C("Var").C("Defs", items)
		case "Struct":
			decl = recipe.S().C("Type").C("Id", "T").C("Struct", items)
		case "Interface":
			m := []*recipe.Node{recipe.Id("A").C("Params"), recipe.Id("B").C("Params")}
			if with {
				if c.Pos == "own-last-item" {
					m = append(m, cm)
				} else {
					m[1].Calls = append(m[1].Calls, recipe.Call{Fn: "Comment", Str: []recipe.Text{recipe.Text(text)}})
				}
			}
			decl = recipe.S().C("Type").C("Id", "T").C("Interface", m)
		default: // File
			f := &recipe.File{Ctor: "NewFile", Args: []recipe.Text{"p"}}
			for _, it := range items {
				if len(it.Calls) > 0 && it.Calls[0].Fn == "Id" {
					it = recipe.S().C("Var").Then(it)
				}
				f.Body = append(f.Body, it)
			}
			f.Body = append(f.Body, recipe.S().C("Var").C("Id", "after").C("Int"))
			return f
		}
		return &recipe.File{Ctor: "NewFile", Args: []recipe.Text{"p"}, Body: []*recipe.Node{decl, recipe.S().C("Var").C("Id", "after").C("Int")}}
	}
	for _, mode := range []string{"NoFormat", "formatted"} {
		a, b := build(false), build(true)
		if mode == "NoFormat" {
			a, b = nofmt(a), nofmt(b)
		}
		outA, err := rt.Render(&recipe.Builder{}, a)
		if err != nil {
			return fmt.Errorf("harness: base does not render: %v", err)
		}
		outB, err := rt.Render(&recipe.Builder{}, b)
		if err != nil {
			return fmt.Errorf("%s: with a %d-byte comment the File no longer renders: %s", mode, len(text), rt.Short(err.Error(), 500))
		}
		codeA, _, _ := scan(outA, true)
		codeB, cmtB, err := scan(outB, true)
		if err != nil {
			return fmt.Errorf("%s: output with the %d-byte comment does not scan: %v\n%s", mode, len(text), err, outB)
		}
		if ok, why := sameCode(codeA, codeB); !ok {
			return fmt.Errorf("%s: a %d-byte comment changed the code's token sequence: %s\n%s", mode, len(text), why, outB)
		}
		if mode == "NoFormat" {
			want := strings.ReplaceAll(mutate.Rendered(text), "\r", "")
			if len(cmtB) != 1 || strings.ReplaceAll(cmtB[0], "\r", "") != want {
				return fmt.Errorf("the %d-byte text appears as %q, want %q", len(text), cmtB, want)
			}
		}
	}
	return nil
}

// ---- (b) file level ----

type fileCase struct {
	// Order: the sequence in which HeaderComment (true) and PackageComment (false) are called;
	// empty = all headers first. The texts are taken from Headers / Package in order.
	Order     []bool   `json:"order,omitempty"`
	Headers   []string `json:"headers"`
	Package   []string `json:"package"`
	Canonical string   `json:"canonical"`
	Body      bool     `json:"body"`
	// Late: settings made after the File has been rendered once (HeaderComment / PackageComment /
	// CanonicalPath); the File must then render like a File that had them from the start
	Late []recipe.FileOp `json:"late,omitempty"`
}

// final is the case with the late settings made up front.
func (c fileCase) final() fileCase {
	d := c
	d.Order = nil
	d.Headers = append([]string{}, c.Headers...)
	d.Package = append([]string{}, c.Package...)
	d.Late = nil
	for _, op := range c.Late {
		switch op.Op {
		case "HeaderComment":
			d.Headers = append(d.Headers, string(op.Args[0]))
		case "PackageComment":
			d.Package = append(d.Package, string(op.Args[0]))
		case "CanonicalPath":
			d.Canonical = string(op.Args[0])
		}
	}
	return d
}

func (c fileCase) file(noFormat bool) *recipe.File {
	f := &recipe.File{Ctor: "NewFile", Args: []recipe.Text{"p"}}
	hi, pi := 0, 0
	for _, isHeader := range c.Order {
		if isHeader && hi < len(c.Headers) {
			f.Ops = append(f.Ops, recipe.FileOp{Op: "HeaderComment", Args: []recipe.Text{recipe.Text(c.Headers[hi])}})
			hi++
		} else if !isHeader && pi < len(c.Package) {
			f.Ops = append(f.Ops, recipe.FileOp{Op: "PackageComment", Args: []recipe.Text{recipe.Text(c.Package[pi])}})
			pi++
		}
	}
	for _, h := range c.Headers[hi:] {
		f.Ops = append(f.Ops, recipe.FileOp{Op: "HeaderComment", Args: []recipe.Text{recipe.Text(h)}})
	}
	for _, h := range c.Package[pi:] {
		f.Ops = append(f.Ops, recipe.FileOp{Op: "PackageComment", Args: []recipe.Text{recipe.Text(h)}})
	}
	f.Ops = append(f.Ops, recipe.FileOp{Op: "CanonicalPath", Args: []recipe.Text{recipe.Text(c.Canonical)}})
	if noFormat {
		f.Ops = append(f.Ops, recipe.FileOp{Op: "NoFormat"})
	}
	if c.Body {
		f.Body = []*recipe.Node{recipe.S().C("Var").C("Id", "x").C("Op", "=").Add(recipe.Qual("fmt", "Sprint")).C("Call")}
	}
	return f
}

func commentTokens(texts []string) []string {
	var out []string
	for _, t := range texts {
		switch {
		case strings.HasPrefix(t, "//"):
			out = append(out, strings.Split(t, "\n")...)
		case strings.HasPrefix(t, "/*"):
			out = append(out, t)
		default:
			out = append(out, mutate.Rendered(t))
		}
	}
	return out
}

func checkFile(c fileCase) error { return checkFileX(c, true) }

func probeFile(c fileCase) error { return checkFileX(c, false) }

func checkFileX(c fileCase, exclude bool) error {
	if len(c.Late) > 0 {
		for _, nf := range []bool{true, false} {
			var got, want []byte
			var gerr, werr error
			if perr := hx.Safe(func() error {
				f := recipe.BuildFile(c.file(nf))
				_ = f.Render(&bytes.Buffer{})
				for i := range c.Late {
					recipe.ApplyFileOp(f, &c.Late[i])
				}
				b := &bytes.Buffer{}
				gerr = f.Render(b)
				got = b.Bytes()
				b2 := &bytes.Buffer{}
				werr = recipe.BuildFile(c.final().file(nf)).Render(b2)
				want = b2.Bytes()
				return nil
			}); perr != nil {
				return perr
			}
			if (gerr == nil) != (werr == nil) || !bytes.Equal(got, want) {
				return fmt.Errorf("a File rendered once, then given %s, renders (NoFormat=%v)\n%s\n(err %v); a File that had these settings from the start renders\n%s\n(err %v)", recipe.JSON(c.Late), nf, got, gerr, want, werr)
			}
		}
		return checkFileX(c.final(), exclude)
	}
	raw, err := rt.Render(&recipe.Builder{}, c.file(true))
	if err != nil {
		return fmt.Errorf("NoFormat render failed: %v", err)
	}
	out, err := rt.Render(&recipe.Builder{}, c.file(false))
	if err != nil {
		return fmt.Errorf("formatted render failed: %s", rt.Short(err.Error(), 800))
	}
	// text, on the raw output: headers then package comments, in order, then the package clause
	_, cmts, err := scan(raw, true)
	if err != nil {
		return fmt.Errorf("raw output does not scan: %v\n%s", err, raw)
	}
	want := append(commentTokens(c.Headers), commentTokens(c.Package)...)
	if c.Canonical != "" {
		want = append(want, "// import "+strconv.Quote(c.Canonical))
	}
	norm := func(s string) string { return strings.ReplaceAll(s, "\r", "") }
	if len(cmts) != len(want) {
		return fmt.Errorf("raw output has %d comments %q, want %d %q\n%s", len(cmts), cmts, len(want), want, raw)
	}
	for i := range want {
		if norm(cmts[i]) != norm(want[i]) {
			return fmt.Errorf("comment %d is %q, want %q", i, cmts[i], want[i])
		}
	}
	// structure: on the raw output always; on the formatted output unless the case is in the
	// input class of known finding KF2
	if err := c.structure(raw, "raw"); err != nil {
		return err
	}
	if exclude && c.inKF2() {
		return nil
	}
	return c.structure(out, "formatted")
}

// inKF2 is the input class of known finding KF2: a header or package comment whose text holds a
// form feed or a carriage return. go/printer counts a form feed inside a comment as a line break
// and strips carriage returns, so its line accounting is off by the time it reaches the package
// clause: the blank line after the headers disappears (the header becomes package doc) or `*/` and
// `package` end up on one line (the doc is detached). gofmt does the same to a hand-written file.
func (c fileCase) hasCR() bool {
	for _, t := range append(append([]string{}, c.Headers...), c.Package...) {
		if strings.Contains(t, "\r") {
			return true
		}
	}
	return false
}

func (c fileCase) inKF2() bool {
	for _, t := range append(append([]string{}, c.Headers...), c.Package...) {
		if strings.ContainsAny(t, "\r\f") {
			return true
		}
	}
	return false
}

func (c fileCase) structure(out []byte, label string) error {
	fset := token.NewFileSet()
	f, err := parser.ParseFile(fset, "", out, parser.ParseComments)
	if err != nil {
		return fmt.Errorf("%s output does not parse: %v", label, err)
	}
	wantDoc := len(c.Package) > 0
	if label != "raw" {
		// gofmt reformats doc comments: empty comment lines at either end of the package doc are
		// dropped, a doc made only of them disappears (the unformatted output keeps every line)
		wantDoc = false
		for _, t := range c.Package {
			if strings.TrimSpace(t) != "" {
				wantDoc = true
			}
		}
	}
	if (f.Doc != nil) != wantDoc {
		return fmt.Errorf("package doc present=%v but %d package comments were given\n%s", f.Doc != nil, len(c.Package), out)
	}
	nHeader := len(commentTokens(c.Headers))
	nPkg := len(commentTokens(c.Package))
	pkgLine := fset.Position(f.Package).Line
	var before []*ast.CommentGroup
	var onPkgLine []*ast.Comment
	for _, g := range f.Comments {
		for _, cm := range g.List {
			if fset.Position(cm.Pos()).Line == pkgLine && cm.Pos() > f.Package {
				onPkgLine = append(onPkgLine, cm)
			}
		}
		if g.End() < f.Package {
			before = append(before, g)
		}
	}
	if f.Doc != nil {
		if label == "raw" && len(f.Doc.List) != nPkg {
			return fmt.Errorf("the package doc of the unformatted output holds %d comments, the package comments given make %d\n%s", len(f.Doc.List), nPkg, out)
		}
		if len(f.Doc.List) != nPkg {
			// gofmt may re-flow doc text, never the number of /* */ blocks; compare conservatively
			blocks := 0
			for _, cm := range f.Doc.List {
				if strings.HasPrefix(cm.Text, "/*") {
					blocks++
				}
			}
			wantBlocks := 0
			for _, t := range commentTokens(c.Package) {
				if strings.HasPrefix(t, "/*") {
					wantBlocks++
				}
			}
			if blocks != wantBlocks {
				return fmt.Errorf("package doc holds %d block comments, %d were given\n%s", blocks, wantBlocks, out)
			}
		}
		// (go/ast computes Comment.End() from the text with carriage returns stripped, so with a
		// CR in a text the end line is unreliable; f.Doc != nil already means the parser found the
		// group on the line directly above the package clause)
		if !c.hasCR() && fset.Position(f.Doc.End()).Line+1 != pkgLine {
			return fmt.Errorf("package doc ends on line %d, package clause is on line %d\n%s", fset.Position(f.Doc.End()).Line, pkgLine, out)
		}
	}
	// headers: all before the doc, separated from doc / package clause by a blank line, never part of Doc
	if nHeader > 0 {
		limit := f.Package
		if f.Doc != nil {
			limit = f.Doc.Pos()
		}
		var last token.Pos
		count := 0
		for _, g := range before {
			if f.Doc != nil && g == f.Doc {
				continue
			}
			if g.Pos() < limit {
				count += len(g.List)
				last = g.End()
			}
		}
		if count == 0 {
			return fmt.Errorf("header comments were given but none precedes the package doc / clause\n%s", out)
		}
		if !c.hasCR() && fset.Position(last).Line+1 >= fset.Position(limit).Line {
			return fmt.Errorf("no blank line between the header comments (end line %d) and the package doc / clause (line %d)\n%s", fset.Position(last).Line, fset.Position(limit).Line, out)
		}
		// marker words of headers must not occur in the package doc
		if f.Doc != nil {
			doc := ""
			for _, cm := range f.Doc.List {
				doc += cm.Text + "\n"
			}
			for i := range c.Headers {
				if strings.Contains(doc, fmt.Sprintf("HDR%dX", i)) {
					return fmt.Errorf("header comment %d is part of the package doc\n%s", i, out)
				}
			}
		}
	}
	if f.Doc != nil {
		doc := ""
		for _, cm := range f.Doc.List {
			doc += cm.Text + "\n"
		}
		pos := 0
		for i := range c.Package {
			m := fmt.Sprintf("PKG%dX", i)
			if !strings.Contains(c.Package[i], m) {
				continue // a comment without text carries no marker; the counts above cover it
			}
			k := strings.Index(doc[pos:], m)
			if k < 0 {
				return fmt.Errorf("package comment %d is missing from the package doc (or out of order)\n%s", i, out)
			}
			pos += k
		}
	}
	// canonical path annotation
	if c.Canonical == "" {
		if len(onPkgLine) != 0 {
			return fmt.Errorf("no canonical path was set but the package clause carries a comment %q", onPkgLine[0].Text)
		}
	} else {
		if len(onPkgLine) != 1 {
			return fmt.Errorf("package clause carries %d comments, want the import annotation\n%s", len(onPkgLine), out)
		}
		txt := onPkgLine[0].Text
		if !strings.HasPrefix(txt, "// import ") {
			return fmt.Errorf("package clause comment is %q, want // import \"path\"", txt)
		}
		u, err := strconv.Unquote(strings.TrimPrefix(txt, "// import "))
		if err != nil || u != c.Canonical {
			return fmt.Errorf("import annotation %q does not unquote to the canonical path %q (%v)", txt, c.Canonical, err)
		}
	}
	return nil
}

func genFileComment(t *rapid.T, marker string) string {
	if rapid.IntRange(0, 7).Draw(t, "emptytext") == 0 {
		// an empty line inside a licence header or a package doc: a comment without text
		return rapid.SampledFrom([]string{"", "", " ", "\t"}).Draw(t, "blank")
	}
	switch rapid.IntRange(0, 4).Draw(t, "style") {
	case 0, 1:
		return sanitize(marker + " " + genText(t, false))
	case 2:
		return sanitize(marker + " " + genText(t, true))
	case 3: // raw // lines
		n := rapid.IntRange(1, 3).Draw(t, "rawlines")
		var ls []string
		for i := 0; i < n; i++ {
			ls = append(ls, "// "+marker+" "+strings.NewReplacer("\r", "", "\n", " ").Replace(genText(t, false)))
		}
		return strings.Join(ls, "\n")
	default:
		return "/* " + marker + " " + strings.ReplaceAll(genText(t, false), "/*", "/ *") + " */"
	}
}

func TestC15(t *testing.T) {
	r := hx.Start(t, "C15")
	defer r.Finish(t)
	r.Rule("(a) comment policy on real programs (corpus third / all files) and on rapid-generated plausible programs: comments as items of their own before/between/after items and at the end of items of every Block, Defs, Struct, Interface, case body and the File, one comment per output line, texts over letters, spaces, tabs, CR, braces, quotes, backquotes, mid-text // and /*, code fragments, unicode, one-line and multi-line; containment = go/scanner code-token sequence equal with and without the comments (NoFormat and formatted), preservation = the comments of the NoFormat output are exactly // text or /*\\ntext\\n*/ in order; null-like items are injected next to the comments as well; every text length 0..300 (thorough 0..1100) in three shapes at the end of the last item / as last item of each host; (b) rapid-generated file-level settings: 0..4 header comments, 0..4 package comments (automatic and well-formed raw styles), arbitrary canonical paths; non-trivial = text with one of {}\"`;() or a newline or a mid-text comment marker at the end of the last item of its group; distinct by case")
	r.Assume("comment texts do not start with // or /*, do not contain */, and are valid UTF-8 without NUL or BOM (other text cannot occur in a Go file); comment text is compared on NoFormat output only, because gofmt rewrites doc comments; an end-of-item comment is never put on a case clause with a non-empty body (it would share a line with the comment of the clause's last statement)")

	ckP := hx.Check[progCase]{Name: "program_comment_policy", Fn: checkProg}
	if !hx.Replay(r, ckP) {
		files := corpus.Files(root.Dir)
		var wg sync.WaitGroup
		sem := make(chan struct{}, runtime.NumCPU())
		var mu sync.Mutex
		for i, f := range files {
			if r.Thorough() {
				if !r.Mine(i) {
					continue
				}
			} else if (uint64(i)+r.Seed)%3 != 0 {
				continue
			}
			wg.Add(1)
			sem <- struct{}{}
			go func(i int, f string) {
				defer wg.Done()
				defer func() { <-sem }()
				src, err := os.ReadFile(f)
				if err != nil {
					return
				}
				p, status, _ := rt.Translate(f, src, root, nil, false)
				if status != rt.OK {
					return
				}
				state := r.Seed*0x9E3779B97F4A7C15 + uint64(i)*0xBF58476D1CE4E5B9 + 3
				dec := &recipe.Decisions{Draw: func(n int) int {
					state += 0x9E3779B97F4A7C15
					z := state
					z = (z ^ (z >> 30)) * 0xBF58476D1CE4E5B9
					z = (z ^ (z >> 27)) * 0x94D049BB133111EB
					z ^= z >> 31
					return int(z % uint64(n))
				}}
				seed := r.Seed ^ uint64(i)*0x9E3779B9
				var n int
				var placed []mutate.Placed
				var cerr error
				perr := hx.Safe(func() error { n, placed, cerr = checkRecipe(p.Recipe, dec, seed); return nil })
				r.Eval()
				dec.Draw = nil
				c := progCase{Name: f, Src: recipe.Text(src), Dec: dec, Seed: seed}
				if (perr != nil || cerr != nil) && r.Violations() < 2 {
					c.Src = recipe.Text(shrink.Source(src, func(b []byte) bool {
						return hx.Safe(func() error { return checkProg(progCase{Name: c.Name, Src: recipe.Text(b), Dec: c.Dec, Seed: c.Seed}) }) != nil
					}, 15*time.Second))
				}
				mu.Lock()
				defer mu.Unlock()
				switch {
				case perr != nil:
					r.Violate(ckP.Name, c, perr)
				case cerr != nil:
					r.Violate(ckP.Name, c, cerr)
				case n > 0:
					r.ClassN("comments_placed", n)
					nt := false
					for _, pl := range placed {
						r.Class("host:" + pl.Host + "/" + pl.Pos)
						if pl.Pos == "end-of-last-item" && strings.ContainsAny(pl.Text, "{}\"`;()\n/") {
							nt = true
						}
					}
					if nt {
						r.NonTrivial(f)
					}
					r.Sample(ckP.Name, map[string]any{"file": f, "comments": n, "first": placed[0]})
				}
			}(i, f)
		}
		wg.Wait()
	}

	ckL := hx.Check[lenCase]{Name: "text_length_sweep", Fn: checkLen}
	if !hx.Replay(r, ckL) {
		maxLen, idx := 300, 0
		if r.Thorough() {
			maxLen = 1100
		}
		for l := 0; l <= maxLen; l++ {
			for _, shape := range []string{"line", "block", "block-nl"} {
				for hi, host := range []string{"Block", "Defs", "Struct", "Interface", "File"} {
					for pi, pos := range []string{"end-of-last-item", "own-last-item"} {
						idx++
						// every length x shape is met in every tier; host and position rotate in the quick tier
						if !r.Thorough() && (l+hi+pi+int(r.Seed))%5 != 0 {
							continue
						}
						if r.Thorough() && !r.Mine(idx) {
							continue
						}
						c := lenCase{Len: l, Shape: shape, Host: host, Pos: pos}
						hx.One(r, ckL, c)
						r.NonTrivial(fmt.Sprintf("%+v", c))
					}
				}
			}
		}
		// and a few very long ones (a generated table or a licence text on one line): buffer sizes of 4 KiB, 64 KiB
		if r.Shard == 0 {
			for _, l := range []int{4095, 4096, 4097, 65535, 65536, 65537, 131073, 200000} {
				for si, shape := range []string{"line", "block", "block-nl"} {
					c := lenCase{Len: l, Shape: shape, Host: []string{"Block", "File", "Struct"}[(si+l)%3], Pos: []string{"end-of-last-item", "own-last-item"}[(si+l/2)%2]}
					hx.One(r, ckL, c)
					r.NonTrivial(fmt.Sprintf("%+v", c))
				}
			}
			r.Class("very_long_comment_texts")
		}
		r.Exhaustive(fmt.Sprintf("comment text lengths 0..%d x {one-line, multi-line, multi-line with trailing newline}", maxLen))
	}

	gen.UniqueKeys = true // (see there: comments inside the values of equal-keyed pairs may reorder them)
	hx.Rapid(r, t, hx.Check[genCase]{Name: "generated_program_comments", Fn: checkGen}, r.N(800, 8000), func(rt2 *rapid.T) genCase {
		f := &recipe.File{Ctor: "NewFile", Args: []recipe.Text{"p"}}
		for i := rapid.IntRange(1, 3).Draw(rt2, "ndecls"); i > 0; i-- {
			f.Body = append(f.Body, gen.Decl(rt2, 3))
		}
		c := genCase{File: f}
		for i := rapid.IntRange(1, 6).Draw(rt2, "ntexts"); i > 0; i-- {
			c.Texts = append(c.Texts, genText(rt2, rapid.IntRange(0, 2).Draw(rt2, "multi") == 0))
		}
		c.Dec = &recipe.Decisions{Draw: func(n int) int { return rapid.IntRange(0, n-1).Draw(rt2, "place") }}
		_, placed := mutate.InjectComments(f, c.Dec, 3, func() string { return "c" })
		c.Dec.Draw = nil
		for _, tx := range c.Texts {
			if kf3Text(tx) {
				r.ExcludedKnown() // NoFormat output still judged; the formatted output is not (KF3)
				break
			}
		}
		if len(placed) > 0 {
			r.NonTrivial(recipe.JSON(c))
			r.Class("generated_with_comments")
		}
		return c
	})

	hx.Replay(r, hx.Check[fileCase]{Name: "known_finding_probe", Fn: probeFile})
	hx.Replay(r, hx.Check[genCase]{Name: "known_finding_probe_body", Fn: probeGen})
	hx.Rapid(r, t, hx.Check[fileCase]{Name: "file_level", Fn: checkFile}, r.N(1000, 10000), func(rt2 *rapid.T) fileCase {
		c := fileCase{Body: rapid.Bool().Draw(rt2, "body")}
		nh, np := rapid.IntRange(0, 4).Draw(rt2, "nheaders"), rapid.IntRange(0, 4).Draw(rt2, "npkg")
		if rapid.IntRange(0, 9).Draw(rt2, "many") == 0 {
			// many file-level comments (sorting thresholds), called in interleaved order
			nh, np = rapid.IntRange(5, 14).Draw(rt2, "nheadersmany"), rapid.IntRange(5, 14).Draw(rt2, "npkgmany")
		}
		for i := 0; i < nh; i++ {
			c.Headers = append(c.Headers, genFileComment(rt2, fmt.Sprintf("HDR%dX", i)))
		}
		for i := 0; i < np; i++ {
			c.Package = append(c.Package, genFileComment(rt2, fmt.Sprintf("PKG%dX", i)))
		}
		if rapid.Bool().Draw(rt2, "interleave") {
			for i := 0; i < nh+np; i++ {
				c.Order = append(c.Order, rapid.Bool().Draw(rt2, "isheader"))
			}
		}
		switch rapid.IntRange(0, 3).Draw(rt2, "canon") {
		case 0:
		case 1:
			c.Canonical = rapid.SampledFrom([]string{"example.com/p", "a b", "q\"r", "x\\y", "日本/p", "a\nb", "`", "//", "*/"}).Draw(rt2, "canonpath")
		default:
			c.Canonical = rapid.String().Draw(rt2, "canonany")
		}
		if rapid.IntRange(0, 2).Draw(rt2, "late") == 0 {
			for i := rapid.IntRange(1, 3).Draw(rt2, "nlate"); i > 0; i-- {
				switch rapid.IntRange(0, 3).Draw(rt2, "latekind") {
				case 0:
					c.Late = append(c.Late, recipe.FileOp{Op: "HeaderComment", Args: []recipe.Text{recipe.Text(genFileComment(rt2, fmt.Sprintf("HDR%dX", len(c.final().Headers))))}})
				case 1:
					c.Late = append(c.Late, recipe.FileOp{Op: "PackageComment", Args: []recipe.Text{recipe.Text(genFileComment(rt2, fmt.Sprintf("PKG%dX", len(c.final().Package))))}})
				default:
					c.Late = append(c.Late, recipe.FileOp{Op: "CanonicalPath", Args: []recipe.Text{recipe.Text(rapid.SampledFrom([]string{"", "example.com/late", "a b", "x\\y"}).Draw(rt2, "latecanon"))}})
				}
			}
			r.Class("settings_after_first_render")
		}
		if len(c.Headers) > 0 || len(c.Package) > 0 || c.Canonical != "" {
			r.NonTrivial(fmt.Sprintf("%+v", c))
		}
		if c.final().inKF2() {
			r.ExcludedKnown() // raw-output checks still run; the formatted-structure part is not judged
		}
		r.Class(fmt.Sprintf("headers_%d_pkg_%d", min(len(c.Headers), 2), min(len(c.Package), 2)))
		return c
	})
}
