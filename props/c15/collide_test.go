package c15

import (
	"bytes"
	"fmt"
	"hash/adler32"
	"hash/crc32"
	"hash/fnv"
	"testing"

	"github.com/dave/jennifer/jen"

	"verif/internal/hx"
)

// collideCase: comment texts of equal length that collide under a common 32-bit hash (found by a birthday
// search when the check runs). A text survives as it was given, whatever other texts the process has seen.
type collideCase struct {
	Hash  string   `json:"hash"`
	Texts []string `json:"texts"`
}

// collisions finds pairs of distinct texts of one length with the same sum (at most want pairs).
func collisions(sum func([]byte) uint32, prefix string, want int) [][2]string {
	seen := map[uint32]string{}
	var out [][2]string
	for i := 0; i < 1500000 && len(out) < want; i++ {
		s := fmt.Sprintf("%s %07d", prefix, i)
		h := sum([]byte(s))
		if prev, ok := seen[h]; ok && prev != s {
			out = append(out, [2]string{prev, s})
			continue
		}
		seen[h] = s
	}
	return out
}

func checkCollide(c collideCase) error {
	f := jen.NewFile("p")
	f.NoFormat = true
	var want []string
	for i, t := range c.Texts {
		switch i % 4 {
		case 0:
			f.Comment(t)
		case 1:
			f.Commentf("%s", t)
		case 2:
			f.Var().Id(fmt.Sprintf("v%d", i)).Op("=").Lit(i).Comment(t)
		default:
			f.Var().Id(fmt.Sprintf("v%d", i)).Op("=").Lit(i).Commentf(t) // (the texts hold no %)
		}
		want = append(want, "// "+t)
	}
	buf := &bytes.Buffer{}
	if err := f.Render(buf); err != nil {
		return err
	}
	_, cmts, err := scan(buf.Bytes(), true)
	if err != nil {
		return err
	}
	if len(cmts) != len(want) {
		return fmt.Errorf("%d comments were given, %d found\n%s", len(want), len(cmts), buf.Bytes())
	}
	for i := range want {
		if cmts[i] != want[i] {
			return fmt.Errorf("comment %d was given the text %q and carries %q (both have the same length and the same %s sum)", i, want[i], cmts[i], c.Hash)
		}
	}
	return nil
}

func TestC15Collide(t *testing.T) {
	r := hx.Start(t, "C15")
	defer r.Finish(t)
	r.Rule("colliding_texts: pairs of comment texts of equal length with equal FNV-1a / FNV-1 / CRC-32 / Adler-32 sums (birthday search at check time), given through Comment and Commentf in one File: each comment carries its own text")
	ck := hx.Check[collideCase]{Name: "colliding_texts", Fn: checkCollide}
	if hx.Replay(r, ck) || r.Shard != 0 {
		return
	}
	sums := []struct {
		name string
		sum  func([]byte) uint32
	}{
		{"FNV-1a (32 bit)", func(b []byte) uint32 { h := fnv.New32a(); h.Write(b); return h.Sum32() }},
		{"FNV-1 (32 bit)", func(b []byte) uint32 { h := fnv.New32(); h.Write(b); return h.Sum32() }},
		{"CRC-32 (IEEE)", crc32.ChecksumIEEE},
		{"CRC-32 (Castagnoli)", func(b []byte) uint32 { return crc32.Checksum(b, crc32.MakeTable(crc32.Castagnoli)) }},
		{"Adler-32", adler32.Checksum},
	}
	for _, s := range sums {
		pairs := collisions(s.sum, "value no.", 6)
		if len(pairs) == 0 {
			r.Class("no_collision_found:" + s.name)
			continue
		}
		c := collideCase{Hash: s.name}
		for _, p := range pairs {
			c.Texts = append(c.Texts, p[0], p[1])
		}
		hx.One(r, ck, c)
		// and the other one of each pair first
		rev := collideCase{Hash: s.name}
		for _, p := range pairs {
			rev.Texts = append(rev.Texts, p[1], p[0])
		}
		hx.One(r, ck, rev)
		r.NonTrivial(s.name)
		r.Class("colliding_text_pairs")
	}
}
