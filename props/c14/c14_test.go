// C14 All forms of a construct are equivalent; callbacks run once, at build time.
package c14

import (
	"bytes"
	"fmt"
	"go/ast"
	"go/parser"
	"go/printer"
	"go/token"
	"os"
	"path/filepath"
	"reflect"
	"runtime"
	"sort"
	"strings"
	"sync"
	"testing"
	"time"

	"github.com/dave/jennifer/jen"
	"pgregory.net/rapid"

	"verif/internal/corpus"
	"verif/internal/gen"
	"verif/internal/hx"
	"verif/internal/recipe"
	"verif/internal/rt"
	"verif/internal/shrink"
)

// ---- (1) the API, enumerated from the repository's sources at check time ----

type apiTable struct {
	Funcs   map[string]string `json:"funcs"`   // name -> parameter list
	Stmt    map[string]string `json:"stmt"`    // *Statement methods
	Group   map[string]string `json:"group"`   // *Group methods
	Returns map[string]string `json:"returns"` // package function -> result type
}

func readAPI(dir string) (*apiTable, error) {
	fset := token.NewFileSet()
	pkgs, err := parser.ParseDir(fset, dir, func(fi os.FileInfo) bool { return !strings.HasSuffix(fi.Name(), "_test.go") }, 0)
	if err != nil {
		return nil, err
	}
	t := &apiTable{Funcs: map[string]string{}, Stmt: map[string]string{}, Group: map[string]string{}, Returns: map[string]string{}}
	str := func(n ast.Node) string {
		if n == nil {
			return ""
		}
		var b bytes.Buffer
		_ = printer.Fprint(&b, fset, n)
		return b.String()
	}
	params := func(fl *ast.FieldList) string {
		var ps []string
		for _, f := range fl.List {
			n := len(f.Names)
			if n == 0 {
				n = 1
			}
			for i := 0; i < n; i++ {
				ps = append(ps, str(f.Type))
			}
		}
		return strings.Join(ps, ", ")
	}
	for _, p := range pkgs {
		for _, f := range p.Files {
			for _, d := range f.Decls {
				fd, ok := d.(*ast.FuncDecl)
				if !ok || !fd.Name.IsExported() {
					continue
				}
				res := ""
				if fd.Type.Results != nil {
					res = params(fd.Type.Results)
				}
				if fd.Recv == nil {
					t.Funcs[fd.Name.Name] = params(fd.Type.Params)
					t.Returns[fd.Name.Name] = res
					continue
				}
				switch str(fd.Recv.List[0].Type) {
				case "*Statement":
					if res == "*Statement" {
						t.Stmt[fd.Name.Name] = params(fd.Type.Params)
					}
				case "*Group":
					if res == "*Statement" {
						t.Group[fd.Name.Name] = params(fd.Type.Params)
					}
				}
			}
		}
	}
	return t, nil
}

// continuations are chained onto the statement a form returns.
var continuations = []func(s *jen.Statement) *jen.Statement{
	func(s *jen.Statement) *jen.Statement { return s.Block(jen.Id("body").Call()) },
	func(s *jen.Statement) *jen.Statement { return s.BlockFunc(func(g *jen.Group) { g.Id("body").Call() }) },
	func(s *jen.Statement) *jen.Statement { return s.Block() },
	func(s *jen.Statement) *jen.Statement { return s.Call(jen.Id("arg")).Dot("sel") },
	func(s *jen.Statement) *jen.Statement { return s.Op("+").Lit(1).Line().Id("next") },
	func(s *jen.Statement) *jen.Statement { return s.Values(jen.Id("v")).Index(jen.Lit(0)) },
	func(s *jen.Statement) *jen.Statement { return s.Add(jen.Block(jen.Id("wrapped"))) },
}

// sameCode: identity of two Code values (nil, pointers, Dict maps).
func sameCode(a, b jen.Code) bool {
	if a == nil || b == nil {
		return a == nil && b == nil
	}
	va, vb := reflect.ValueOf(a), reflect.ValueOf(b)
	if va.Type() != vb.Type() {
		return false
	}
	switch va.Kind() {
	case reflect.Ptr, reflect.Map:
		return va.Pointer() == vb.Pointer()
	}
	return true
}

// notConstructs are *Statement methods that are not constructs (they do not append an element).
var notConstructs = map[string]bool{"Clone": true}

func checkAPI(t apiTable) error {
	n := 0
	for name, ps := range t.Funcs {
		if t.Returns[name] != "*Statement" {
			continue
		}
		n++
		sp, ok := t.Stmt[name]
		if !ok {
			return fmt.Errorf("construct %s exists as a package function but not as a *Statement method", name)
		}
		gp, ok := t.Group[name]
		if !ok {
			return fmt.Errorf("construct %s exists as a package function but not as a *Group method", name)
		}
		if sp != ps || gp != ps {
			return fmt.Errorf("construct %s: parameters differ between forms: func(%s), Statement(%s), Group(%s)", name, ps, sp, gp)
		}
		if ps == "...Code" && name != "Add" && name != "Make" {
			fp, ok := t.Funcs[name+"Func"]
			if !ok {
				return fmt.Errorf("variadic construct %s has no %sFunc variant", name, name)
			}
			if fp != "func(*Group)" {
				return fmt.Errorf("%sFunc takes (%s), want func(*Group)", name, fp)
			}
		}
	}
	for name := range t.Stmt {
		if notConstructs[name] {
			continue
		}
		if _, ok := t.Funcs[name]; !ok {
			return fmt.Errorf("*Statement method %s has no package-function form", name)
		}
	}
	for name := range t.Group {
		if _, ok := t.Funcs[name]; !ok {
			return fmt.Errorf("*Group method %s has no package-function form", name)
		}
	}
	if n < 90 {
		return fmt.Errorf("only %d constructs found", n)
	}
	return nil
}

// ---- (2) one call, all forms ----

type callCase struct {
	Call recipe.Call `json:"call"`
	// Before: what the group already holds when the *Group method is called ("" = Id("before")): an if
	// statement, a case clause, a for header, a comment, ... — the method appends a statement of its own
	// whatever came before
	Before string `json:"before,omitempty"`
	// Seed drives the form policy of the builds that use one (nested items in other forms, a callback group
	// that is filled partly after the ...Func call returned, Commentf operands that format themselves)
	Seed uint64 `json:"seed,omitempty"`
}

// each entry builds the same statement twice: through the *Group methods (as a user filling a group would)
// and through the package functions (for the reference)
var befores = map[string][2]func(g *jen.Group) *jen.Statement{
	"if":      {func(g *jen.Group) *jen.Statement { return g.If(jen.Id("a")).Block(jen.Id("x").Call()) }, func(*jen.Group) *jen.Statement { return jen.If(jen.Id("a")).Block(jen.Id("x").Call()) }},
	"ifelse":  {func(g *jen.Group) *jen.Statement { return g.If(jen.Id("a")).Block().Else().Block() }, func(*jen.Group) *jen.Statement { return jen.If(jen.Id("a")).Block().Else().Block() }},
	"case":    {func(g *jen.Group) *jen.Statement { return g.Case(jen.Lit(1)) }, func(*jen.Group) *jen.Statement { return jen.Case(jen.Lit(1)) }},
	"default": {func(g *jen.Group) *jen.Statement { return g.Default() }, func(*jen.Group) *jen.Statement { return jen.Default() }},
	"for":     {func(g *jen.Group) *jen.Statement { return g.For() }, func(*jen.Group) *jen.Statement { return jen.For() }},
	"func":    {func(g *jen.Group) *jen.Statement { return g.Func().Id("f").Params() }, func(*jen.Group) *jen.Statement { return jen.Func().Id("f").Params() }},
	"comment": {func(g *jen.Group) *jen.Statement { return g.Comment("c") }, func(*jen.Group) *jen.Statement { return jen.Comment("c") }},
	"line":    {func(g *jen.Group) *jen.Statement { return g.Line() }, func(*jen.Group) *jen.Statement { return jen.Line() }},
	"return":  {func(g *jen.Group) *jen.Statement { return g.Return() }, func(*jen.Group) *jen.Statement { return jen.Return() }},
	"var":     {func(g *jen.Group) *jen.Statement { return g.Var().Id("v") }, func(*jen.Group) *jen.Statement { return jen.Var().Id("v") }},
	"switch":  {func(g *jen.Group) *jen.Statement { return g.Switch(jen.Id("v")) }, func(*jen.Group) *jen.Statement { return jen.Switch(jen.Id("v")) }},
	"null":    {func(g *jen.Group) *jen.Statement { return g.Null() }, func(*jen.Group) *jen.Statement { return jen.Null() }},
}

func beforeNames() []string {
	var out []string
	for k := range befores {
		out = append(out, k)
	}
	sort.Strings(out)
	return out
}

// before: into g through its methods (g != nil), or as a free statement for the reference (g == nil).
func (cc callCase) before(g *jen.Group) *jen.Statement {
	if f, ok := befores[cc.Before]; ok {
		if g != nil {
			return f[0](g)
		}
		return f[1](nil)
	}
	if g != nil {
		return g.Id("before")
	}
	return jen.Id("before")
}

func renderCode(c jen.Code) (string, error) {
	f := jen.NewFile("p")
	f.NoFormat = true
	f.Add(c)
	buf := &bytes.Buffer{}
	var err error
	perr := hx.Safe(func() error { err = f.Render(buf); return nil })
	if perr != nil {
		return "", perr
	}
	return buf.String(), err
}

func cbCheck(b *recipe.Builder, when string) error {
	for i, cb := range b.Callbacks {
		if cb.Runs != 1 || cb.Late != 0 {
			return fmt.Errorf("%s: callback %d (%s) ran %d times, %d of them after the constructing call had returned", when, i, cb.Fn, cb.Runs, cb.Late)
		}
	}
	return nil
}

func threeRenders(s *jen.Statement) (results [3]string) {
	run := func(i int, f func() (string, error)) {
		if perr := hx.Safe(func() error {
			out, err := f()
			if err != nil {
				results[i] = "ERROR"
			} else {
				results[i] = "OK:" + out
			}
			return nil
		}); perr != nil {
			results[i] = "ERROR" // GoString panics where Render returns an error
		}
	}
	run(0, func() (string, error) { return s.GoString(), nil }) // fmt would swallow the panic into a %!v(PANIC=...) text
	run(1, func() (string, error) { b := &bytes.Buffer{}; err := s.Render(b); return b.String(), err })
	run(2, func() (string, error) {
		b := &bytes.Buffer{}
		err := s.RenderWithFile(b, jen.NewFile(""))
		return b.String(), err
	})
	return
}

func checkCall(cc callCase) error {
	c := &cc.Call
	fn := c.Fn
	type form struct {
		name string
		out  string
		err  error
	}
	var forms []form
	add := func(name string, b *recipe.Builder, build func() jen.Code) error {
		var code jen.Code
		if perr := hx.Safe(func() error { code = build(); return nil }); perr != nil {
			return fmt.Errorf("%s: building panicked: %v", name, perr)
		}
		if err := cbCheck(b, name+" (after construction)"); err != nil {
			return err
		}
		out, err := renderCode(code)
		if s, ok := code.(*jen.Statement); ok {
			// render every way three times: callbacks must not run again, and the three entry points agree
			var first [3]string
			for i := 0; i < 3; i++ {
				res := threeRenders(s)
				if i == 0 {
					first = res
				} else if res != first {
					return fmt.Errorf("%s: repeated GoString/Render/RenderWithFile results differ", name)
				}
			}
			if first[0] != first[1] || first[1] != first[2] {
				return fmt.Errorf("%s: GoString, Render and RenderWithFile(NewFile(\"\")) disagree: %q / %q / %q", name, first[0], first[1], first[2])
			}
		}
		if err := cbCheck(b, name+" (after rendering)"); err != nil {
			return err
		}
		forms = append(forms, form{name, out, err})
		return nil
	}
	// function form
	b1 := &recipe.Builder{}
	if err := add("function form", b1, func() jen.Code { return b1.CallFunc(fn, c) }); err != nil {
		return err
	}
	// method form on an empty statement
	b2 := &recipe.Builder{}
	if err := add("method form", b2, func() jen.Code { return b2.CallMethod(&jen.Statement{}, fn, c) }); err != nil {
		return err
	}
	if recipe.HasFunc(fn) {
		b3 := &recipe.Builder{}
		if err := add("Func variant (function)", b3, func() jen.Code { return b3.CallFunc(fn+"Func", c) }); err != nil {
			return err
		}
		b4 := &recipe.Builder{}
		if err := add("Func variant (method)", b4, func() jen.Code { return b4.CallMethod(&jen.Statement{}, fn+"Func", c) }); err != nil {
			return err
		}
		if cc.Seed != 0 {
			b4a := &recipe.Builder{Forms: recipe.Seeded(cc.Seed)}
			if err := add("Func variant (function; nested items in other forms)", b4a, func() jen.Code { return b4a.CallFunc(fn+"Func", c) }); err != nil {
				return err
			}
		}
	}
	if cc.Seed != 0 {
		b4b := &recipe.Builder{Forms: recipe.Seeded(cc.Seed + 1)}
		if err := add("function form (nested items in other forms)", b4b, func() jen.Code { return b4b.CallFunc(fn, c) }); err != nil {
			return err
		}
		b4c := &recipe.Builder{Forms: recipe.Seeded(cc.Seed + 2)}
		if err := add("statement built under the form policy", b4c, func() jen.Code { return b4c.Stmt(&recipe.Node{Kind: recipe.KStmt, Calls: []recipe.Call{*c}}) }); err != nil {
			return err
		}
	}
	for _, f := range forms[1:] {
		if (f.err == nil) != (forms[0].err == nil) || f.out != forms[0].out {
			return fmt.Errorf("%s: %s renders %q (%v), %s renders %q (%v)", fn, forms[0].name, forms[0].out, forms[0].err, f.name, f.out, f.err)
		}
	}
	// method form after a prefix: Id("p").X(...) == Id("p").Add(X(...))
	b5, b6 := &recipe.Builder{}, &recipe.Builder{}
	var viaMethod, viaAdd jen.Code
	if perr := hx.Safe(func() error {
		viaMethod = b5.CallMethod(jen.Id("p"), fn, c)
		viaAdd = jen.Id("p").Add(b6.CallFunc(fn, c))
		return nil
	}); perr != nil {
		return fmt.Errorf("%s after a prefix: %v", fn, perr)
	}
	o1, e1 := renderCode(viaMethod)
	o2, e2 := renderCode(viaAdd)
	if (e1 == nil) != (e2 == nil) || o1 != o2 {
		return fmt.Errorf("%s: Id(\"p\").%s(...) renders %q, Id(\"p\").Add(%s(...)) renders %q", fn, fn, o1, fn, o2)
	}
	// group form of the ...Func variant: g.XFunc(cb) appends what XFunc(cb) builds and returns it
	if recipe.HasFunc(fn) {
		bg, bf := &recipe.Builder{}, &recipe.Builder{}
		var outerF, wantF jen.Code
		var retF *jen.Statement
		var grp *jen.Group
		if perr := hx.Safe(func() error {
			outerF = jen.CustomFunc(jen.Options{Open: "<", Close: ">", Separator: ";"}, func(g *jen.Group) {
				grp = g
				g.Id("before")
				retF = bg.CallGroup(g, fn+"Func", c)
			})
			wantF = jen.Custom(jen.Options{Open: "<", Close: ">", Separator: ";"}, jen.Id("before"), bf.CallFunc(fn+"Func", c))
			return nil
		}); perr != nil {
			return fmt.Errorf("%sFunc group form: %v", fn, perr)
		}
		if err := cbCheck(bg, fn+"Func group form"); err != nil {
			return err
		}
		o1, e1 := renderCode(outerF)
		o2, e2 := renderCode(wantF)
		if (e1 == nil) != (e2 == nil) || o1 != o2 || retF == nil {
			return fmt.Errorf("%sFunc: group form renders %q, Add(%sFunc(...)) renders %q", fn, o1, fn, o2)
		}
		// Group.GoString / Render / RenderWithFile agree and repeat
		var first [3]string
		for i := 0; i < 2; i++ {
			var res [3]string
			run := func(k int, f func() (string, error)) {
				if perr := hx.Safe(func() error {
					out, err := f()
					if err != nil {
						res[k] = "ERROR"
					} else {
						res[k] = "OK:" + out
					}
					return nil
				}); perr != nil {
					res[k] = "ERROR"
				}
			}
			run(0, func() (string, error) { return grp.GoString(), nil })
			run(1, func() (string, error) { b := &bytes.Buffer{}; err := grp.Render(b); return b.String(), err })
			run(2, func() (string, error) {
				b := &bytes.Buffer{}
				err := grp.RenderWithFile(b, jen.NewFile(""))
				return b.String(), err
			})
			if i == 0 {
				first = res
			} else if res != first {
				return fmt.Errorf("%sFunc: repeated Group GoString/Render/RenderWithFile results differ", fn)
			}
		}
		if first[0] != first[1] || first[1] != first[2] {
			return fmt.Errorf("%sFunc: Group GoString, Render and RenderWithFile(NewFile(\"\")) disagree: %q / %q / %q", fn, first[0], first[1], first[2])
		}
		if err := cbCheck(bg, fn+"Func group form after rendering"); err != nil {
			return err
		}
		// the group changes without its item count changing (a token chained onto the statement the
		// Group form returned): every entry point must show it
		retF.Id("latetoken")
		var late [3]string
		func() {
			defer func() { _ = recover() }()
			late[0] = grp.GoString()
		}()
		b1, b2 := &bytes.Buffer{}, &bytes.Buffer{}
		if grp.Render(b1) == nil {
			late[1] = b1.String()
		}
		if grp.RenderWithFile(b2, jen.NewFile("")) == nil {
			late[2] = b2.String()
		}
		if late[0] != late[1] || late[1] != late[2] {
			return fmt.Errorf("%sFunc: after a token was chained onto the returned statement, Group GoString / Render / RenderWithFile disagree: %q / %q / %q", fn, late[0], late[1], late[2])
		}
	}
	// group form
	b7, b8 := &recipe.Builder{}, &recipe.Builder{}
	var ret *jen.Statement
	var outer, want, wantRet jen.Code
	if perr := hx.Safe(func() error {
		outer = jen.CustomFunc(jen.Options{Open: "<", Close: ">", Separator: ";"}, func(g *jen.Group) {
			cc.before(g)
			ret = b7.CallGroup(g, fn, c)
			g.Id("after")
		})
		wantRet = b8.CallFunc(fn, c)
		want = jen.Custom(jen.Options{Open: "<", Close: ">", Separator: ";"}, cc.before(nil), wantRet, jen.Id("after"))
		return nil
	}); perr != nil {
		return fmt.Errorf("%s group form: %v", fn, perr)
	}
	if err := cbCheck(b7, "group form"); err != nil {
		return err
	}
	og, eg := renderCode(outer)
	ow, ew := renderCode(want)
	if (eg == nil) != (ew == nil) || og != ow {
		return fmt.Errorf("%s: group form: the group renders %q, Add(%s(...)) would render %q", fn, og, fn, ow)
	}
	or, er := renderCode(ret)
	owr, ewr := renderCode(wantRet)
	if (er == nil) != (ewr == nil) || or != owr {
		return fmt.Errorf("%s: group form returns a statement rendering %q, the function form renders %q", fn, or, owr)
	}
	// continuations: whatever is chained onto the result must mean the same in every form —
	// X(..).Block(..) is a case clause after Case / Default (also when a Do callback ended on one), a
	// call after Id, and so on; the statement a *Group method returns is the one that sits in the group
	for ki, kont := range continuations {
		var viaFunc, viaMethod, viaGroup jen.Code
		if perr := hx.Safe(func() error {
			b1, b2, b3 := &recipe.Builder{}, &recipe.Builder{}, &recipe.Builder{}
			opts := jen.Options{Open: "<", Close: ">", Separator: ";"}
			viaFunc = jen.Custom(opts, kont(b1.CallFunc(fn, c)))
			viaMethod = jen.Custom(opts, kont(b2.CallMethod(&jen.Statement{}, fn, c)))
			viaGroup = jen.CustomFunc(opts, func(g *jen.Group) { kont(b3.CallGroup(g, fn, c)) })
			return nil
		}); perr != nil {
			return fmt.Errorf("%s with continuation %d: %v", fn, ki, perr)
		}
		of, ef := renderCode(viaFunc)
		om, em := renderCode(viaMethod)
		og, eg := renderCode(viaGroup)
		if (ef == nil) != (em == nil) || of != om {
			return fmt.Errorf("%s, continuation %d: chained onto the function form it renders %q, onto the method form %q", fn, ki, of, om)
		}
		if (ef == nil) != (eg == nil) || of != og {
			return fmt.Errorf("%s, continuation %d: chained onto the function form it renders %q, onto what the *Group method returned %q", fn, ki, of, og)
		}
	}
	// no form may modify the Code values it is given: build the call with items whose objects we
	// keep (Ref), go through every form, append to what the forms return, then compare each item
	// with a fresh build of the same recipe
	if len(c.Items) > 0 {
		withRefs := *c
		withRefs.Items = nil
		for i, it := range c.Items {
			if it == nil || it.Kind == recipe.KNil || it.Kind == recipe.KNilStmt || it.Kind == recipe.KNilGroup {
				withRefs.Items = append(withRefs.Items, it)
				continue
			}
			cp := it.Clone()
			cp.Ref = i + 1
			withRefs.Items = append(withRefs.Items, cp)
		}
		bk := &recipe.Builder{}
		var held []jen.Code
		if perr := hx.Safe(func() error {
			for _, it := range withRefs.Items {
				held = append(held, bk.Code(it)) // built once; the forms below receive these very objects
			}
			bk.CallFunc(fn, &withRefs).Id("t1")
			bk.CallMethod(jen.Id("p"), fn, &withRefs).Id("t2")
			jen.CustomFunc(jen.Options{}, func(g *jen.Group) { bk.CallGroup(g, fn, &withRefs).Id("t3").Call() })
			return nil
		}); perr != nil {
			return fmt.Errorf("%s with shared argument objects: %v", fn, perr)
		}
		for i, it := range c.Items {
			if held[i] == nil || it == nil || it.Kind != recipe.KStmt && it.Kind != recipe.KDict {
				continue
			}
			after, e1 := renderCode(held[i])
			freshCode := (&recipe.Builder{}).Code(it)
			want, e2 := renderCode(freshCode)
			if (e1 == nil) != (e2 == nil) || after != want {
				return fmt.Errorf("%s: argument %d was modified by the constructing calls: it now renders %q, a fresh build of the same argument renders %q", fn, i, after, want)
			}
		}
	}
	// the caller's slice: variadic constructs called as X(xs...) with a slice that has spare
	// capacity, the result extended by chaining, then the same slice used again
	if isVariadicCode(fn) && len(c.Items) > 0 {
		bs := &recipe.Builder{}
		mk := func() []jen.Code {
			xs := make([]jen.Code, 0, len(c.Items)+6)
			for _, it := range c.Items {
				xs = append(xs, (&recipe.Builder{}).Code(it))
			}
			return xs
		}
		_ = bs
		xs := mk()
		before := append([]jen.Code{}, xs...)
		var first, second, wantFirst, wantSecond *jen.Statement
		if perr := hx.Safe(func() error {
			first = callVariadic(fn, c, xs).Op("+").Id("viaFirst")
			second = callVariadic(fn, c, xs).Op("-").Id("viaSecond").Id("more")
			wantFirst = callVariadic(fn, c, mk()).Op("+").Id("viaFirst")
			wantSecond = callVariadic(fn, c, mk()).Op("-").Id("viaSecond").Id("more")
			return nil
		}); perr != nil {
			return fmt.Errorf("%s(xs...) twice on one slice: %v", fn, perr)
		}
		o1, e1 := renderCode(first)
		o2, e2 := renderCode(wantFirst)
		if (e1 == nil) != (e2 == nil) || o1 != o2 {
			return fmt.Errorf("%s(xs...): the statement built first renders %q after the same slice was used for a second %s(xs...) and that one was extended; built from a fresh slice it renders %q", fn, o1, fn, o2)
		}
		o3, e3 := renderCode(second)
		o4, e4 := renderCode(wantSecond)
		if (e3 == nil) != (e4 == nil) || o3 != o4 {
			return fmt.Errorf("%s(xs...): the second statement built from the caller's slice renders %q; built from a fresh slice it renders %q", fn, o3, o4)
		}
		// the caller's slice holds what it held
		for i := range before {
			if !sameCode(before[i], xs[i]) {
				return fmt.Errorf("%s(xs...): element %d of the caller's slice was replaced by the call", fn, i)
			}
		}
	}
	// a re-entrant callback: the callback of g.XFunc also emits into the enclosing group g. The
	// callback runs inside the constructing call, i.e. before the new statement is appended, so
	// what it emits comes first — exactly as with g.Add(XFunc(cb)).
	if recipe.HasFunc(fn) && fn != "Lit" && fn != "LitRune" && fn != "LitByte" {
		var viaGroup, viaAdd jen.Code
		if perr := hx.Safe(func() error {
			b9, b10 := &recipe.Builder{}, &recipe.Builder{}
			viaGroup = jen.CustomFunc(jen.Options{Open: "<", Close: ">", Separator: ";"}, func(g *jen.Group) {
				g.Id("before")
				inner := *c
				m, _ := reflect.TypeOf(g).MethodByName(fn + "Func")
				_ = m
				callGroupFuncReentrant(b9, g, fn, &inner)
				g.Id("after")
			})
			viaAdd = jen.CustomFunc(jen.Options{Open: "<", Close: ">", Separator: ";"}, func(g *jen.Group) {
				g.Id("before")
				inner := *c
				st := callFuncReentrant(b10, g, fn, &inner)
				g.Add(st)
				g.Id("after")
			})
			return nil
		}); perr != nil {
			return fmt.Errorf("%sFunc with a re-entrant callback: %v", fn, perr)
		}
		o1, e1 := renderCode(viaGroup)
		o2, e2 := renderCode(viaAdd)
		if (e1 == nil) != (e2 == nil) || o1 != o2 {
			return fmt.Errorf("%sFunc: a callback that also emits into the enclosing group: g.%sFunc(cb) renders %q, g.Add(%sFunc(cb)) renders %q", fn, fn, o1, fn, o2)
		}
	}
	// the returned statement IS the appended one: a token added to it shows in the group
	ret.Id("zz")
	wantRet.(*jen.Statement).Id("zz")
	og2, _ := renderCode(outer)
	ow2, _ := renderCode(want)
	if og2 != ow2 {
		return fmt.Errorf("%s: group form: a token appended to the returned statement does not show up in the group: %q vs %q", fn, og2, ow2)
	}
	return nil
}

// ---- (3) form policy on whole programs ----

type progCase struct {
	Name  string            `json:"name"`
	Src   recipe.Text       `json:"src"`
	Forms *recipe.Decisions `json:"forms"`
}

var root = corpus.Default()

func checkProg(c progCase) error {
	p, status, _ := rt.Translate(c.Name, []byte(c.Src), root, nil, false)
	if status != rt.OK {
		return nil
	}
	base, err := rt.Render(&recipe.Builder{}, p.Recipe)
	if err != nil {
		return nil
	}
	c.Forms.Rewind()
	b := &recipe.Builder{Forms: c.Forms}
	out, err := rt.Render(b, p.Recipe)
	if err != nil {
		return fmt.Errorf("with %d calls in non-baseline forms the File no longer renders: %s", b.NonBaseline, rt.Short(err.Error(), 600))
	}
	if err := cbCheck(b, "program build"); err != nil {
		return err
	}
	if !bytes.Equal(base, out) {
		return fmt.Errorf("with %d calls in non-baseline forms (function+Add, ...Func, group methods) the output differs from the all-method build", b.NonBaseline)
	}
	return nil
}

func TestC14(t *testing.T) {
	r := hx.Start(t, "C14")
	defer r.Finish(t)
	r.Rule("(1) the API is enumerated from the repository's non-test sources at check time: every package function returning *Statement must exist as *Statement and *Group method with identical parameters, variadic ones with a ...Func companion (Make excepted, as documented); (2) for every enumerated construct >= 50 generated argument lists (thorough 2000): function form, method form, method after a prefix vs Add, *Group method (appends, returns the appended statement), ...Func variants, GoString / Render / RenderWithFile three times each, callback counters; (3) the form policy applied at every call of real programs vs the all-method build; non-trivial = every call case (each construct is met by enumeration), program cases with >= 5 non-baseline calls; distinct by case")
	r.Assume("arguments stay inside documented preconditions (supported Lit types, Dict alone in Values); the form policy never wraps a Block that follows Case/Default into Add (adjacency is the documented trigger of the case-block format)")

	// (1)
	ckA := hx.Check[apiTable]{Name: "api_triples", Fn: checkAPI}
	if !hx.Replay(r, ckA) && r.Shard == 0 {
		tbl, err := readAPI(filepath.Join(hx.RepoDir(), "jen"))
		if err != nil {
			r.Inconclusive("cannot parse the repository: %v", err)
		} else {
			hx.One(r, ckA, *tbl)
			var missing []string
			for name, ret := range tbl.Returns {
				if ret == "*Statement" {
					if _, ok := recipe.Funcs[name]; !ok {
						missing = append(missing, name)
					}
				}
			}
			sort.Strings(missing)
			if len(missing) > 0 {
				r.Extra("constructs_not_in_harness_table", missing)
			}
			r.ClassN("api_functions", len(tbl.Funcs))
		}
	}

	// (2)
	per := r.N(50, 125)
	for ci, sig := range recipe.Constructs() {
		sig := sig
		if !r.Mine(ci) && r.Thorough() {
			continue
		}
		ck := hx.Check[callCase]{Name: "forms_" + sig.Name, Fn: checkCall}
		hx.Rapid(r, t, ck, per, func(rt *rapid.T) callCase {
			c := callCase{Call: gen.CallFor(rt, sig, 2, 4)}
			if rapid.Bool().Draw(rt, "hasbefore") {
				c.Before = rapid.SampledFrom(beforeNames()).Draw(rt, "before")
			}
			c.Seed = rapid.Uint64Range(1, 1<<40).Draw(rt, "formseed")
			r.NonTrivial(recipe.JSON(c))
			r.Class("construct:" + sig.Name)
			return c
		})
	}

	// (2') the entry points of a Group holding valid statements, before and after its content changes
	// without its item count changing
	hx.Rapid(r, t, hx.Check[groupCase]{Name: "group_entry_points", Fn: checkGroup}, r.N(400, 2500), func(rt *rapid.T) groupCase {
		c := groupCase{Late: rapid.IntRange(0, 5).Draw(rt, "late")}
		for i := rapid.IntRange(1, 4).Draw(rt, "nstmts"); i > 0; i-- {
			c.Stmts = append(c.Stmts, gen.Stmt(rt, 2))
		}
		r.NonTrivial(recipe.JSON(c))
		r.Class("group_entry_points")
		return c
	})

	// (3)
	ckP := hx.Check[progCase]{Name: "program_form_policy", Fn: checkProg}
	if !hx.Replay(r, ckP) {
		files := corpus.Files(root.Dir)
		var wg sync.WaitGroup
		sem := make(chan struct{}, runtime.NumCPU())
		for i, f := range files {
			if r.Thorough() {
				if !r.Mine(i) {
					continue
				}
			} else if (uint64(i)+r.Seed)%3 != 2 {
				continue
			}
			wg.Add(1)
			sem <- struct{}{}
			go func(i int, f string) {
				defer wg.Done()
				defer func() { <-sem }()
				src, err := os.ReadFile(f)
				if err != nil {
					return
				}
				state := r.Seed*0x9E3779B97F4A7C15 + uint64(i)*0xBF58476D1CE4E5B9 + 7
				dec := &recipe.Decisions{Draw: func(n int) int {
					state += 0x9E3779B97F4A7C15
					z := state
					z = (z ^ (z >> 30)) * 0xBF58476D1CE4E5B9
					z = (z ^ (z >> 27)) * 0x94D049BB133111EB
					z ^= z >> 31
					return int(z % uint64(n))
				}}
				p, status, _ := rt.Translate(f, src, root, nil, false)
				if status != rt.OK {
					return
				}
				// record the decisions by building once
				b := &recipe.Builder{Forms: dec}
				if _, err := rt.Render(b, p.Recipe); err != nil && b.NonBaseline == 0 {
					return
				}
				dec.Draw = nil
				c := progCase{Name: f, Src: recipe.Text(src), Forms: dec}
				if r.Violations() < 2 && hx.Safe(func() error { return checkProg(c) }) != nil {
					c.Src = recipe.Text(shrink.Source(src, func(bs []byte) bool {
						return hx.Safe(func() error { return checkProg(progCase{Name: c.Name, Src: recipe.Text(bs), Forms: c.Forms}) }) != nil
					}, 15*time.Second))
				}
				if hx.One(r, ckP, c) && b.NonBaseline >= 5 {
					r.NonTrivial(f)
					r.Class("program_with_form_policy")
				}
				r.ClassN("non_baseline_calls", b.NonBaseline)
			}(i, f)
		}
		wg.Wait()
	}
}

// callGroupFuncReentrant calls g.<fn>Func with a callback that first emits a marker into the
// enclosing group g and then adds the items to its own group.
func callGroupFuncReentrant(b *recipe.Builder, g *jen.Group, fn string, c *recipe.Call) *jen.Statement {
	m := reflect.ValueOf(g).MethodByName(fn + "Func")
	return callReentrant(b, m, g, c)
}

func callFuncReentrant(b *recipe.Builder, g *jen.Group, fn string, c *recipe.Call) *jen.Statement {
	return callReentrant(b, reflect.ValueOf(recipe.Funcs[fn+"Func"]), g, c)
}

func callReentrant(b *recipe.Builder, f reflect.Value, outer *jen.Group, c *recipe.Call) *jen.Statement {
	var args []reflect.Value
	t := f.Type()
	for i := 0; i < t.NumIn(); i++ {
		if t.In(i) == reflect.TypeOf(jen.Options{}) {
			o := jen.Options{}
			if c.Opts != nil {
				o = jen.Options{Open: string(c.Opts.Open), Close: string(c.Opts.Close), Separator: string(c.Opts.Separator), Multi: c.Opts.Multi}
			}
			args = append(args, reflect.ValueOf(o))
			continue
		}
		args = append(args, reflect.ValueOf(func(inner *jen.Group) {
			outer.Id("fromcallback")
			for _, it := range c.Items {
				inner.Add(b.Code(it))
			}
		}))
	}
	return f.Call(args)[0].Interface().(*jen.Statement)
}

func isVariadicCode(fn string) bool {
	f, ok := recipe.Funcs[fn]
	if !ok {
		return false
	}
	t := reflect.TypeOf(f)
	return t.IsVariadic() && t.In(t.NumIn()-1).Elem() == reflect.TypeOf((*jen.Code)(nil)).Elem()
}

// callVariadic calls the package function fn with the given Go slice as its variadic argument.
func callVariadic(fn string, c *recipe.Call, xs []jen.Code) *jen.Statement {
	f := reflect.ValueOf(recipe.Funcs[fn])
	var args []reflect.Value
	if f.Type().NumIn() == 2 {
		o := jen.Options{}
		if c.Opts != nil {
			o = jen.Options{Open: string(c.Opts.Open), Close: string(c.Opts.Close), Separator: string(c.Opts.Separator), Multi: c.Opts.Multi}
		}
		args = append(args, reflect.ValueOf(o))
	}
	args = append(args, reflect.ValueOf(xs))
	return f.CallSlice(args)[0].Interface().(*jen.Statement)
}

type groupCase struct {
	Stmts []*recipe.Node `json:"stmts"`
	Late  int            `json:"late"` // which returned statement gets a continuation later
}

// checkGroup builds { stmts... } through BlockFunc using the *Group method form for every
// statement, and compares GoString / Render / RenderWithFile — twice, and once more after a
// continuation was chained onto one of the statements the Group form returned.
func checkGroup(c groupCase) error {
	b := &recipe.Builder{}
	var grp *jen.Group
	var rets []*jen.Statement
	if perr := hx.Safe(func() error {
		jen.BlockFunc(func(g *jen.Group) {
			grp = g
			for _, n := range c.Stmts {
				if len(n.Calls) == 0 {
					continue
				}
				st := b.CallGroup(g, n.Calls[0].Fn, &n.Calls[0])
				rest := &recipe.Node{Calls: n.Calls[1:]}
				for i := range rest.Calls {
					st = b.CallMethod(st, rest.Calls[i].Fn, &rest.Calls[i])
				}
				rets = append(rets, st)
			}
		})
		return nil
	}); perr != nil {
		return perr
	}
	three := func() (res [3]string) {
		run := func(k int, f func() (string, error)) {
			if perr := hx.Safe(func() error {
				out, err := f()
				if err != nil {
					res[k] = "ERROR"
				} else {
					res[k] = "OK:" + out
				}
				return nil
			}); perr != nil {
				res[k] = "ERROR"
			}
		}
		run(0, func() (string, error) { return grp.GoString(), nil })
		run(1, func() (string, error) { bb := &bytes.Buffer{}; err := grp.Render(bb); return bb.String(), err })
		run(2, func() (string, error) {
			bb := &bytes.Buffer{}
			err := grp.RenderWithFile(bb, jen.NewFile(""))
			return bb.String(), err
		})
		return
	}
	for round := 0; round < 2; round++ {
		res := three()
		if res[0] != res[1] || res[1] != res[2] {
			return fmt.Errorf("Group GoString / Render / RenderWithFile(NewFile(\"\")) disagree: %q / %q / %q", res[0], res[1], res[2])
		}
	}
	if len(rets) > 0 {
		// a valid continuation: `; late()` after whatever the statement was
		rets[c.Late%len(rets)].Op(";").Id("late").Call()
		res := three()
		if res[0] != res[1] || res[1] != res[2] {
			return fmt.Errorf("after a continuation was chained onto a statement returned by the Group form: GoString / Render / RenderWithFile disagree: %q / %q / %q", res[0], res[1], res[2])
		}
		if strings.HasPrefix(res[1], "OK:") && !strings.Contains(res[1], "late()") {
			return fmt.Errorf("the continuation chained onto the returned statement does not show up in the group: %q", res[1])
		}
	}
	return nil
}
