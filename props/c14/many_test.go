package c14

import (
	"fmt"
	"testing"

	"github.com/dave/jennifer/jen"

	"verif/internal/hx"
)

// manyCase: one statement (in every form of its list construct) that refers to N packages this process has
// not met before; GoString, Render and RenderWithFile with a fresh File agree and repeat for every N.
type manyCase struct {
	N     int `json:"n"`
	Nonce int `json:"nonce"`
}

var manyNonce int

func checkMany(c manyCase) error {
	paths := make([]string, c.N)
	for i := range paths {
		paths[i] = fmt.Sprintf("many%d.example/lib/plugin%d", c.Nonce, i)
	}
	build := map[string]func() *jen.Statement{
		"List(...)": func() *jen.Statement {
			var items []jen.Code
			for _, p := range paths {
				items = append(items, jen.Qual(p, "New").Call())
			}
			return jen.Id("x").Op("=").Index().Id("T").Values(items...)
		},
		"ListFunc": func() *jen.Statement {
			return jen.Id("x").Op("=").Index().Id("T").ValuesFunc(func(g *jen.Group) {
				for _, p := range paths {
					g.Qual(p, "New").Call()
				}
			})
		},
	}
	for name, mk := range build {
		s := mk()
		first := threeRenders(s)
		if first[0] != first[1] || first[1] != first[2] {
			return fmt.Errorf("%s with %d packages: GoString, Render and RenderWithFile(NewFile(\"\")) disagree:\n%.600s\n%.600s\n%.600s", name, c.N, first[0], first[1], first[2])
		}
		if again := threeRenders(s); again != first {
			return fmt.Errorf("%s with %d packages: rendered a second time the statement gives other text", name, c.N)
		}
		if fresh := threeRenders(mk()); fresh != first {
			return fmt.Errorf("%s with %d packages: the same statement built again renders differently:\n%.600s\n%.600s", name, c.N, first[0], fresh[0])
		}
	}
	return nil
}

func TestC14Many(t *testing.T) {
	r := hx.Start(t, "C14")
	defer r.Finish(t)
	r.Rule("many_packages_in_one_statement: Values / ValuesFunc over N = 1..70, 120..135, 250..262, 505..520, 1020..1030 (thorough: every N to 1100) packages never met before: the three entry points agree, repeat, and a second build renders the same")
	ck := hx.Check[manyCase]{Name: "many_packages_in_one_statement", Fn: checkMany}
	if hx.Replay(r, ck) || r.Shard != 0 {
		return
	}
	for n := 1; n <= 1100; n++ {
		if !r.Thorough() && !(n <= 70 || n >= 120 && n <= 135 || n >= 250 && n <= 262 || n >= 505 && n <= 520 || n >= 1020 && n <= 1030) {
			continue
		}
		manyNonce++
		c := manyCase{N: n, Nonce: int(r.Seed)*100000 + manyNonce}
		hx.One(r, ck, c)
		r.NonTrivial(fmt.Sprintf("%+v", c))
	}
	r.Class("many_packages_sweep")
}
