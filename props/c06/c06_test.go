// C06 References to the local package and to dot-imports are unqualified.
package c06

import (
	"fmt"
	"testing"

	"pgregory.net/rapid"

	"verif/internal/hx"
	"verif/internal/imps"
	"verif/internal/recipe"
)

func check(sc imps.Scenario) error {
	o, err := sc.Run()
	if err != nil {
		return err
	}
	if err := o.AssertLocalDot(); err != nil {
		return err
	}
	if err := o.AssertResolution(); err != nil {
		return err
	}
	// the same Code values after they were rendered in Files where their paths are local or
	// dot-imported: in this File they must again be judged by this File's own path and hints
	for i, p := range sc.Paths {
		if p == "" || p == "C" || i > 2 {
			continue
		}
		warm := &recipe.File{Ctor: "NewFilePathName", Args: []recipe.Text{recipe.Text(p), "w"}}
		if i%2 == 1 {
			warm = &recipe.File{Ctor: "NewFile", Args: []recipe.Text{"w"}, Ops: []recipe.FileOp{{Op: "ImportAlias", Args: []recipe.Text{recipe.Text(p), "."}}}}
		}
		ow, err := sc.RunAfterWarmupIn(warm)
		if err != nil {
			return err
		}
		if err := ow.AssertLocalDot(); err != nil {
			return fmt.Errorf("after the same Code values had been rendered in a File where %q is local / dot-imported: %v", p, err)
		}
		if err := ow.AssertResolution(); err != nil {
			return fmt.Errorf("after the same Code values had been rendered in a File where %q is local / dot-imported: %v", p, err)
		}
	}
	return nil
}

func TestC06(t *testing.T) {
	r := hx.Start(t, "C06")
	defer r.Finish(t)
	r.Rule("rapid-generated scenarios with NewFilePath / NewFilePathName: references to the local path, to near misses (suffix/prefix added or removed, case flipped, parent, child), to 0..6 dot-imported paths and to ordinary paths, with and without PackagePrefix and other hints; every number of dot imports from 1 to 40 declared in ascending, descending, even-then-odd and shuffled order; non-trivial = a local path with >= 1 near miss, or >= 2 dot imports, or a dot import together with a prefix; distinct by the full scenario")
	r.Assume("a dot hint is given with ImportAlias(p, \".\") before rendering; \"C\" and the local path are never declared dot-imports")
	profiles := []struct {
		name string
		pr   imps.Profile
	}{
		{"local", imps.Profile{MaxPaths: 5, LocalCtor: true, Dots: 2, Std: true, Anon: true}},
		{"dots", imps.Profile{MaxPaths: 8, Dots: 6, Std: true, Compete: true, Anon: true, ArbPaths: true}},
		{"localdots", imps.Profile{MaxPaths: 8, LocalCtor: true, Dots: 6, Compete: true, ReservedMix: true}},
	}
	// every number of dot imports from 1 to 40, declared in four orders (a library may keep them in a
	// structure that changes shape with the count)
	ckN := hx.Check[imps.Scenario]{Name: "dot_counts", Fn: check}
	if !hx.Replay(r, ckN) && r.Shard == 0 {
		for n := 1; n <= 40; n++ {
			for order := 0; order < 4; order++ {
				sc := imps.Scenario{}
				sc.File.Ctor, sc.File.Args = "NewFile", []recipe.Text{"p"}
				if (n+order)%3 == 0 {
					sc.File.Ctor, sc.File.Args = "NewFilePathName", []recipe.Text{"dots.example/own", "p"}
				}
				idx := make([]int, n)
				for i := range idx {
					switch order {
					case 0:
						idx[i] = i
					case 1:
						idx[i] = n - 1 - i
					case 2: // even ones first, then odd ones
						if i < (n+1)/2 {
							idx[i] = 2 * i
						} else {
							idx[i] = 2*(i-(n+1)/2) + 1
						}
					default: // a fixed shuffle
						idx[i] = (i*7 + 3) % n
						if n%7 == 0 {
							idx[i] = (i*5 + 3) % n
						}
					}
				}
				for i := 0; i < n; i++ {
					sc.Paths = append(sc.Paths, fmt.Sprintf("dots.example/p%02d", i))
				}
				sc.Paths = append(sc.Paths, "dots.example/plain", "dots.example/p00x")
				seen := map[int]bool{}
				for _, i := range idx {
					if seen[i] {
						continue
					}
					seen[i] = true
					sc.File.Ops = append(sc.File.Ops, recipe.FileOp{Op: "ImportAlias", Args: []recipe.Text{recipe.Text(sc.Paths[i]), "."}})
				}
				if len(seen) != n {
					continue
				}
				var vals []*recipe.Node
				for i, p := range sc.Paths {
					vals = append(vals, recipe.Qual(p, fmt.Sprintf("S%d", i)))
				}
				sc.File.Body = []*recipe.Node{recipe.S().C("Var").C("Id", "_").C("Op", "=").C("Index").C("Interface").C("Values", vals)}
				hx.One(r, ckN, sc)
				r.NonTrivial(recipe.JSON(sc))
			}
		}
		r.Class("dot_counts_1_to_40")
	}
	for _, p := range profiles {
		ck := hx.Check[imps.Scenario]{Name: "localdot_" + p.name, Fn: check}
		g := imps.Gen(p.pr)
		hx.Rapid(r, t, ck, r.N(600, 6000), func(rt *rapid.T) imps.Scenario {
			sc := g(rt)
			f := sc.Features()
			nt := false
			if f.Local && f.NearMiss {
				r.Class("local_with_near_miss")
				nt = true
			}
			if f.Dots >= 2 {
				r.Class("dots_2plus")
				nt = true
			}
			if f.Dots > 0 && f.Prefix {
				r.Class("dot_and_prefix")
				nt = true
			}
			if f.Local {
				r.Class("local_reference")
			}
			if nt {
				r.Class("nontrivial")
				r.NonTrivial(recipe.JSON(sc))
			}
			return sc
		})
	}
}
