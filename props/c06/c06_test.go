// C06 References to the local package and to dot-imports are unqualified.
package c06

import (
	"testing"

	"pgregory.net/rapid"

	"verif/internal/hx"
	"verif/internal/imps"
	"verif/internal/recipe"
)

func check(sc imps.Scenario) error {
	o, err := sc.Run()
	if err != nil {
		return err
	}
	if err := o.AssertLocalDot(); err != nil {
		return err
	}
	return o.AssertResolution()
}

func TestC06(t *testing.T) {
	r := hx.Start(t, "C06")
	defer r.Finish(t)
	r.Rule("rapid-generated scenarios with NewFilePath / NewFilePathName: references to the local path, to near misses (suffix/prefix added or removed, case flipped, parent, child), to 0..6 dot-imported paths and to ordinary paths, with and without PackagePrefix and other hints; non-trivial = a local path with >= 1 near miss, or >= 2 dot imports, or a dot import together with a prefix; distinct by the full scenario")
	r.Assume("a dot hint is given with ImportAlias(p, \".\") before rendering; \"C\" and the local path are never declared dot-imports")
	profiles := []struct {
		name string
		pr   imps.Profile
	}{
		{"local", imps.Profile{MaxPaths: 5, LocalCtor: true, Dots: 2, Std: true, Anon: true}},
		{"dots", imps.Profile{MaxPaths: 8, Dots: 6, Std: true, Compete: true, Anon: true}},
		{"localdots", imps.Profile{MaxPaths: 8, LocalCtor: true, Dots: 6, Compete: true, ReservedMix: true}},
	}
	for _, p := range profiles {
		ck := hx.Check[imps.Scenario]{Name: "localdot_" + p.name, Fn: check}
		g := imps.Gen(p.pr)
		hx.Rapid(r, t, ck, r.N(600, 6000), func(rt *rapid.T) imps.Scenario {
			sc := g(rt)
			f := sc.Features()
			nt := false
			if f.Local && f.NearMiss {
				r.Class("local_with_near_miss")
				nt = true
			}
			if f.Dots >= 2 {
				r.Class("dots_2plus")
				nt = true
			}
			if f.Dots > 0 && f.Prefix {
				r.Class("dot_and_prefix")
				nt = true
			}
			if f.Local {
				r.Class("local_reference")
			}
			if nt {
				r.Class("nontrivial")
				r.NonTrivial(recipe.JSON(sc))
			}
			return sc
		})
	}
}
