// C06 References to the local package and to dot-imports are unqualified.
package c06

import (
	"fmt"
	"testing"

	"pgregory.net/rapid"

	"verif/internal/hx"
	"verif/internal/imps"
	"verif/internal/recipe"
)

func check(sc imps.Scenario) error {
	o, err := sc.Run()
	if err != nil {
		return err
	}
	if err := o.AssertLocalDot(); err != nil {
		return err
	}
	if err := o.AssertResolution(); err != nil {
		return err
	}
	// the same Code values after they were rendered in Files where their paths are local or
	// dot-imported: in this File they must again be judged by this File's own path and hints
	for i, p := range sc.Paths {
		if p == "" || p == "C" || i > 2 {
			continue
		}
		warm := &recipe.File{Ctor: "NewFilePathName", Args: []recipe.Text{recipe.Text(p), "w"}}
		if i%2 == 1 {
			warm = &recipe.File{Ctor: "NewFile", Args: []recipe.Text{"w"}, Ops: []recipe.FileOp{{Op: "ImportAlias", Args: []recipe.Text{recipe.Text(p), "."}}}}
		}
		ow, err := sc.RunAfterWarmupIn(warm)
		if err != nil {
			return err
		}
		if err := ow.AssertLocalDot(); err != nil {
			return fmt.Errorf("after the same Code values had been rendered in a File where %q is local / dot-imported: %v", p, err)
		}
		if err := ow.AssertResolution(); err != nil {
			return fmt.Errorf("after the same Code values had been rendered in a File where %q is local / dot-imported: %v", p, err)
		}
	}
	return nil
}

func TestC06(t *testing.T) {
	r := hx.Start(t, "C06")
	defer r.Finish(t)
	r.Rule("rapid-generated scenarios with NewFilePath / NewFilePathName: references to the local path, to near misses (suffix/prefix added or removed, case flipped, parent, child), to 0..6 dot-imported paths and to ordinary paths, with and without PackagePrefix and other hints; non-trivial = a local path with >= 1 near miss, or >= 2 dot imports, or a dot import together with a prefix; distinct by the full scenario")
	r.Assume("a dot hint is given with ImportAlias(p, \".\") before rendering; \"C\" and the local path are never declared dot-imports")
	profiles := []struct {
		name string
		pr   imps.Profile
	}{
		{"local", imps.Profile{MaxPaths: 5, LocalCtor: true, Dots: 2, Std: true, Anon: true}},
		{"dots", imps.Profile{MaxPaths: 8, Dots: 6, Std: true, Compete: true, Anon: true, ArbPaths: true}},
		{"localdots", imps.Profile{MaxPaths: 8, LocalCtor: true, Dots: 6, Compete: true, ReservedMix: true}},
	}
	for _, p := range profiles {
		ck := hx.Check[imps.Scenario]{Name: "localdot_" + p.name, Fn: check}
		g := imps.Gen(p.pr)
		hx.Rapid(r, t, ck, r.N(600, 6000), func(rt *rapid.T) imps.Scenario {
			sc := g(rt)
			f := sc.Features()
			nt := false
			if f.Local && f.NearMiss {
				r.Class("local_with_near_miss")
				nt = true
			}
			if f.Dots >= 2 {
				r.Class("dots_2plus")
				nt = true
			}
			if f.Dots > 0 && f.Prefix {
				r.Class("dot_and_prefix")
				nt = true
			}
			if f.Local {
				r.Class("local_reference")
			}
			if nt {
				r.Class("nontrivial")
				r.NonTrivial(recipe.JSON(sc))
			}
			return sc
		})
	}
}
