// C18 Standard-library packages are referred to by their real names.
package c18

import (
	"fmt"
	"github.com/dave/jennifer/jen"
	"go/ast"
	"go/parser"
	"go/token"
	"os"
	"os/exec"
	"path/filepath"
	"sort"
	"strconv"
	"strings"
	"testing"

	"pgregory.net/rapid"

	"verif/internal/hx"
	"verif/internal/imps"
	"verif/internal/recipe"
	"verif/internal/stdpkg"
)

type single struct {
	Path   string `json:"path"`
	Prefix string `json:"prefix"`
	// Extra: File settings that have nothing to do with the package: "" | preamble | noformat |
	// preamble+noformat | canonical | anon | comments | preamble+anon | anonself (Anon of the package itself)
	Extra string `json:"extra,omitempty"`
}

var extras = []string{"preamble", "noformat", "preamble+noformat", "canonical", "anon", "comments", "preamble+anon", "anonself", "latealias", "samename"}

func extraOps(extra string) []recipe.FileOp {
	var ops []recipe.FileOp
	if strings.Contains(extra, "preamble") {
		ops = append(ops, recipe.FileOp{Op: "CgoPreamble", Args: []recipe.Text{"#include <stdio.h>"}})
	}
	if strings.Contains(extra, "noformat") {
		ops = append(ops, recipe.FileOp{Op: "NoFormat"})
	}
	if strings.Contains(extra, "canonical") {
		ops = append(ops, recipe.FileOp{Op: "CanonicalPath", Args: []recipe.Text{"vanity.example/p"}})
	}
	if strings.Contains(extra, "anon") {
		ops = append(ops, recipe.FileOp{Op: "Anon", Args: []recipe.Text{"anon.example/driver"}})
	}
	if strings.Contains(extra, "comments") {
		ops = append(ops, recipe.FileOp{Op: "HeaderComment", Args: []recipe.Text{"Code generated. DO NOT EDIT."}}, recipe.FileOp{Op: "PackageComment", Args: []recipe.Text{"Package p."}})
	}
	return ops
}

func (c single) scenario() imps.Scenario {
	sc := imps.Scenario{File: recipe.File{Ctor: "NewFile", Args: []recipe.Text{"p"}}, Paths: []string{c.Path}}
	if c.Prefix != "" {
		sc.File.Ops = append(sc.File.Ops, recipe.FileOp{Op: "PackagePrefix", Args: []recipe.Text{recipe.Text(c.Prefix)}})
	}
	sc.File.Ops = append(sc.File.Ops, extraOps(c.Extra)...)
	if c.Extra == "samename" {
		// the generated package is called like the package it refers to (an errors package wrapping errors,
		// a log package around log): a name is not a path
		if n := stdpkg.Name(c.Path); n != "" && n != "main" {
			sc.File.Args = []recipe.Text{recipe.Text(n)}
		}
	}
	if c.Extra == "latealias" {
		// the File is rendered once, then an alias is asked for: the package keeps the name it was shown under
		sc.File.Ops = append(sc.File.Ops, recipe.FileOp{Op: "ImportAlias", Args: []recipe.Text{recipe.Text(c.Path), "zzlate"}})
		sc.Split = len(sc.File.Ops) // everything but the alias is early
	}
	if c.Extra == "anonself" {
		// the package is first asked for as a blank import (for its side effects) and then referenced as well
		sc.File.Ops = append(sc.File.Ops, recipe.FileOp{Op: "Anon", Args: []recipe.Text{recipe.Text(c.Path)}})
	}
	sc.File.Body = []*recipe.Node{
		recipe.S().C("Var").C("Id", "_").C("Op", "=").Add(recipe.Qual(c.Path, "S0")),
		recipe.S().C("Var").C("Id", "_").Add(recipe.Qual(c.Path, "T0")),
	}
	return sc
}

func check(sc imps.Scenario) error {
	o, err := sc.Run()
	if err != nil {
		return err
	}
	if err := o.AssertResolution(); err != nil {
		return err
	}
	if err := o.AssertLegalNames(); err != nil {
		return err
	}
	// spelled out: no alias => the qualifier is the real name; alias => the qualifier is the alias
	real := sc.Real(o.Model) // (for a staged scenario: the settings in force when the package was first named)
	for _, imp := range o.Rep.Imports {
		if imp.Name == "_" || imp.Name == "." {
			continue
		}
		for _, u := range o.Rep.Uses {
			if o.Markers[u.Marker] != imp.Path {
				continue
			}
			want := imp.Name
			if want == "" {
				want = real(imp.Path)
			}
			if u.Qualifier != want {
				return fmt.Errorf("%q is imported as %q (real name %q) but referred to as %q\n--- output ---\n%s", imp.Path, imp.Name, real(imp.Path), u.Qualifier, o.Src)
			}
		}
	}
	// every std package of the scenario printed on its own (Statement.GoString, as in a log line or a test
	// failure message), right after other stand-alone renders have failed: there is no import block then, so
	// the only name that is right is the one the package declares
	if len(o.Model.Hint) == 0 && o.Model.Prefix == "" {
		for i, p := range sc.Paths {
			n := stdpkg.Name(p)
			if n == "" || i > 3 {
				continue
			}
			hx.FailedFragments()
			var got string
			if perr := hx.Safe(func() error { got = jen.Qual(p, "X").GoString(); return nil }); perr != nil {
				return fmt.Errorf("Qual(%q, \"X\").GoString(): %v", p, perr)
			}
			if got != n+".X" {
				return fmt.Errorf("Qual(%q, \"X\") printed on its own, after other stand-alone renders had failed, gives %q; the package declares the name %q", p, got, n)
			}
		}
	}
	return nil
}

type tableCase struct {
	Table map[string]string `json:"table"`
}

// checkTable verifies a gennames table against the package clauses on disk.
func checkTable(c tableCase) error {
	if len(c.Table) < 100 {
		return fmt.Errorf("gennames produced only %d rows", len(c.Table))
	}
	for path, name := range c.Table {
		if name == "main" {
			return fmt.Errorf("gennames row %q: name is main", path)
		}
		if want := stdpkg.Name(path); want != "" && want != name {
			return fmt.Errorf("gennames row %q: name %q, package clause on disk says %q", path, name, want)
		}
	}
	for _, p := range stdpkg.All() {
		if !p.Importable || !p.Buildable || p.Path == "builtin" {
			// "builtin" holds documentation only: the go command does not treat it as a package
			// directories without buildable files for this platform (e.g. arena, behind a
			// GOEXPERIMENT tag) are not packages of the installed toolchain
			continue
		}
		if _, ok := c.Table[p.Path]; !ok {
			return fmt.Errorf("gennames has no row for the importable standard package %q", p.Path)
		}
	}
	return nil
}

func runGennames(t *testing.T) (map[string]string, error) {
	tmp := t.TempDir()
	bin := filepath.Join(tmp, "gennames")
	build := exec.Command("go", "build", "-o", bin, "./gennames")
	build.Dir = hx.RepoDir()
	build.Env = append(os.Environ(), "GOFLAGS=-mod=mod", "GOPROXY=off", "GOSUMDB=off", "GOTOOLCHAIN=local")
	if out, err := build.CombinedOutput(); err != nil {
		return nil, fmt.Errorf("building gennames: %v\n%s", err, out)
	}
	outFile := filepath.Join(tmp, "names.go")
	run := exec.Command(bin, "-standard", "-novendor", "-path", "./...", "-output", outFile, "-name", "Names", "-package", "main")
	run.Dir = tmp
	run.Env = append(os.Environ(), "GOFLAGS=", "GOPROXY=off", "GOSUMDB=off", "GOTOOLCHAIN=local")
	if out, err := run.CombinedOutput(); err != nil {
		return nil, fmt.Errorf("running gennames: %v\n%s", err, out)
	}
	fset := token.NewFileSet()
	f, err := parser.ParseFile(fset, outFile, nil, 0)
	if err != nil {
		return nil, fmt.Errorf("gennames output does not parse: %v", err)
	}
	table := map[string]string{}
	ast.Inspect(f, func(n ast.Node) bool {
		cl, ok := n.(*ast.CompositeLit)
		if !ok {
			return true
		}
		for _, e := range cl.Elts {
			kv, ok := e.(*ast.KeyValueExpr)
			if !ok {
				continue
			}
			k, ok1 := kv.Key.(*ast.BasicLit)
			v, ok2 := kv.Value.(*ast.BasicLit)
			if ok1 && ok2 {
				ks, _ := strconv.Unquote(k.Value)
				vs, _ := strconv.Unquote(v.Value)
				table[ks] = vs
			}
		}
		return false
	})
	return table, nil
}

func TestC18(t *testing.T) {
	r := hx.Start(t, "C18")
	defer r.Finish(t)
	r.Rule("(a) exhaustive: every package directory under GOROOT/src of the installed toolchain (importable, internal and vendored alike), each alone, with and without PackagePrefix; (b) rapid: sets of 2..10 std paths biased to equal last elements, mixed with non-std paths and hints, random reference order; (c) one gennames run on the installed toolchain, every row compared with the package clause on disk; non-trivial for (b) = >= 1 colliding pair; all enumerated packages count; distinct by case")
	r.Assume("the real name of a std package is the package clause of the non-test files in its directory under GOROOT/src (read with go/parser, independent of `go list`)")

	// the colliding sets come first, in a fresh process: a File must not be affected by the Files rendered before it,
	// and the single-package pass below then runs after many collisions have happened
	// (b)
	byLast := map[string][]string{}
	var importable []string
	for _, p := range stdpkg.All() {
		if p.Importable {
			importable = append(importable, p.Path)
			byLast[p.Name] = append(byLast[p.Name], p.Path)
		}
	}
	var groups [][]string
	for _, g := range byLast {
		if len(g) > 1 {
			sort.Strings(g)
			groups = append(groups, g)
		}
	}
	sort.Slice(groups, func(i, j int) bool { return groups[i][0] < groups[j][0] })
	ck := hx.Check[imps.Scenario]{Name: "std_sets", Fn: check}
	hx.Rapid(r, t, ck, r.N(500, 5000), func(rt *rapid.T) imps.Scenario {
		sc := imps.Scenario{File: recipe.File{Ctor: "NewFile", Args: []recipe.Text{"p"}}}
		seen := map[string]bool{}
		add := func(p string) {
			if !seen[p] {
				seen[p] = true
				sc.Paths = append(sc.Paths, p)
			}
		}
		collide := false
		n := rapid.IntRange(1, 10).Draw(rt, "n")
		if rapid.IntRange(0, 5).Draw(rt, "many") == 0 {
			// a File with many imports, the colliding groups somewhere among them
			n = rapid.IntRange(18, 60).Draw(rt, "nmany")
			r.Class("sets_of_18_or_more")
		}
		for len(sc.Paths) < n {
			switch rapid.IntRange(0, 3).Draw(rt, "kind") {
			case 0: // a colliding group
				g := rapid.SampledFrom(groups).Draw(rt, "group")
				for _, p := range g {
					add(p)
				}
				collide = true
			case 1:
				add(rapid.SampledFrom(importable).Draw(rt, "std"))
			case 2: // non-std with a std-like last element
				std := rapid.SampledFrom(importable).Draw(rt, "stdlike")
				add("x.y/" + std)
				add(std)
				collide = true
			case 3:
				add("github.com/u/" + rapid.SampledFrom([]string{"rand", "template", "http", "json", "a", "fmt"}).Draw(rt, "nonstd"))
			}
			if rapid.IntRange(0, 11).Draw(rt, "crowd") == 0 {
				// a crowd of third-party packages called like a std package of the set (the 7th, 20th, 40th import
				// of one base name)
				base := stdpkg.Name(rapid.SampledFrom(importable).Draw(rt, "crowdbase"))
				for _, p := range sc.Paths {
					if nm := stdpkg.Name(p); nm != "" && rapid.Bool().Draw(rt, "crowdofset") {
						base = nm
						break
					}
				}
				for k := rapid.IntRange(3, 40).Draw(rt, "ncrowd"); k > 0; k-- {
					add(fmt.Sprintf("crowd.example/v%d/%s", k, base))
				}
				collide = true
				r.Class("crowd_of_one_base_name")
			}
		}
		if rapid.Bool().Draw(rt, "prefix") {
			sc.File.Ops = append(sc.File.Ops, recipe.FileOp{Op: "PackagePrefix", Args: []recipe.Text{"pkg"}})
		}
		for nh := rapid.IntRange(0, 2).Draw(rt, "nhints"); nh > 0; nh-- {
			p := rapid.SampledFrom(sc.Paths).Draw(rt, "hintpath")
			name := rapid.SampledFrom([]string{"rand", "foo", "template", "fmt"}).Draw(rt, "hintname")
			if rapid.Bool().Draw(rt, "aliasisrealname") && stdpkg.Name(p) != "" {
				name = stdpkg.Name(p) // an alias that merely repeats the package's real name
			}
			sc.File.Ops = append(sc.File.Ops, recipe.FileOp{Op: rapid.SampledFrom([]string{"ImportAlias", "ImportAlias", "ImportName"}).Draw(rt, "hintop"), Args: []recipe.Text{recipe.Text(p), recipe.Text(name)}})
		}
		if rapid.IntRange(0, 2).Draw(rt, "extra") == 0 {
			x := rapid.SampledFrom(extras).Draw(rt, "extrakind")
			sc.File.Ops = append(sc.File.Ops, extraOps(x)...)
			if x == "latealias" {
				sc.File.Ops = append(sc.File.Ops, recipe.FileOp{Op: "ImportAlias", Args: []recipe.Text{recipe.Text(rapid.SampledFrom(sc.Paths).Draw(rt, "latealias")), "zzlate"}})
				sc.Split = len(sc.File.Ops)
			}
			if x == "anonself" {
				sc.File.Ops = append(sc.File.Ops, recipe.FileOp{Op: "Anon", Args: []recipe.Text{recipe.Text(rapid.SampledFrom(sc.Paths).Draw(rt, "anonself"))}})
			}
			r.Class("sets_with_setting:" + x)
		}
		sc.Paths = rapid.Permutation(sc.Paths).Draw(rt, "order")
		sc.File.Body = imps.GenBody(rt, sc.Paths, imps.Profile{})
		if sc.Split == 0 && rapid.IntRange(0, 3).Draw(rt, "fragmentsfirst") == 2 {
			// the last statements are first shown as fragments rendered against the File (last one first), then
			// the File is rendered twice: it meets the packages in another order than its body has them
			sc.Split = len(sc.File.Ops) + 1
			sc.Preview = rapid.IntRange(1, len(sc.File.Body)).Draw(rt, "npreview")
			r.Class("sets_with_fragment_previews")
		}
		if sc.Split == 0 && rapid.IntRange(0, 4).Draw(rt, "anonfirst") == 2 {
			// one of the packages is first only imported for its side effects (a blank import), the File is
			// rendered, and the code that refers to the package arrives afterwards
			sc.File.Ops = append(sc.File.Ops, recipe.FileOp{Op: "Anon", Args: []recipe.Text{recipe.Text(rapid.SampledFrom(sc.Paths).Draw(rt, "anonfirstpath"))}})
			sc.Split = len(sc.File.Ops) + 1
			sc.LateBody = len(sc.File.Body)
			r.Class("sets_with_blank_import_rendered_before_the_code_arrives")
		}
		if collide {
			r.Class("colliding_std_names")
			r.NonTrivial(recipe.JSON(sc))
		}
		return sc
	})

	// (a)
	ckS := hx.Check[single]{Name: "std_single", Fn: func(c single) error { return check(c.scenario()) }}
	if !hx.Replay(r, ckS) {
		n := 0
		for i, p := range stdpkg.All() {
			if !r.Mine(i) {
				continue
			}
			for _, prefix := range []string{"", "pkg"} {
				c := single{Path: p.Path, Prefix: prefix}
				hx.One(r, ckS, c)
				r.NonTrivial(fmt.Sprintf("%+v", c))
				n++
			}
			// and once under a File setting that has nothing to do with the package (rotating)
			cx := single{Path: p.Path, Prefix: []string{"", "pkg"}[(i/len(extras))%2], Extra: extras[(i+int(r.Seed))%len(extras)]}
			hx.One(r, ckS, cx)
			r.NonTrivial(fmt.Sprintf("%+v", cx))
			r.Class("single_with_setting:" + cx.Extra)
			if p.Importable {
				r.Class("importable_std_package")
			} else {
				r.Class("internal_or_vendored_std_package")
			}
		}
		r.Exhaustive(fmt.Sprintf("all %d package directories of GOROOT/src x 2 prefixes", len(stdpkg.All())))
	}

	// (a') every importable package alone once more, after the colliding sets were rendered in
	// this process: what earlier Files did must not change how a later File names a package
	ckS2 := hx.Check[single]{Name: "std_single_after_sets", Fn: func(c single) error { return check(c.scenario()) }}
	if !hx.Replay(r, ckS2) {
		for i, p := range stdpkg.All() {
			if !r.Mine(i) || !p.Importable {
				continue
			}
			hx.One(r, ckS2, single{Path: p.Path})
		}
	}

	// (c)
	ckT := hx.Check[tableCase]{Name: "gennames_table", Fn: checkTable}
	if !hx.Replay(r, ckT) && r.Shard == 0 {
		table, err := runGennames(t)
		if err != nil {
			r.Inconclusive("gennames: %v", err)
			return
		}
		unverifiable := 0
		for p := range table {
			if !stdpkg.Has(p) {
				t.Logf("gennames row not on disk: %s", p)
				unverifiable++
			}
		}
		r.ClassN("gennames_rows", len(table))
		r.ClassN("gennames_rows_unverifiable", unverifiable)
		hx.One(r, ckT, tableCase{Table: table})
		_ = strings.Join
	}
}
