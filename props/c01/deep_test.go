package c01

import (
	"fmt"
	"strings"
	"testing"

	"verif/internal/hx"
	"verif/internal/recipe"
	rtpkg "verif/internal/rt"

	"pgregory.net/rapid"
)

// deepCase is a program with one very deep or very wide construct (generated tables, long
// concatenations, machine-written dispatch code are like this).
type deepCase struct {
	Shape string `json:"shape"`
	N     int    `json:"n"`
}

func rep(n int, f func(i int) string, sep string) string {
	parts := make([]string, n)
	for i := range parts {
		parts[i] = f(i)
	}
	return strings.Join(parts, sep)
}

var deepShapes = []string{"concat", "calls", "parens", "blocks", "ifelse", "funclits", "index", "unary", "pointers", "slices", "maptypes", "functypes", "structtypes", "composite", "selectors", "args", "stmts", "fields", "cases", "valuespecs", "elements", "results", "typeparams", "labels"}

func (c deepCase) source() string {
	n := c.N
	body := ""
	switch c.Shape {
	case "concat": // left-associative chain: depth n
		body = "var _ = " + rep(n, func(i int) string { return fmt.Sprintf("%q", fmt.Sprint("s", i)) }, " + ")
	case "calls":
		body = "var _ = " + strings.Repeat("f(", n) + "x" + strings.Repeat(")", n)
	case "parens":
		body = "var _ = " + strings.Repeat("(", n) + "x" + strings.Repeat(")", n)
	case "blocks":
		body = "func g() " + strings.Repeat("{", n) + strings.Repeat("}", n)
	case "ifelse": // else-if chain
		body = "func g() { " + rep(n, func(i int) string { return fmt.Sprintf("if x == %d { f(%d) }", i, i) }, " else ") + " }"
	case "funclits":
		body = "var _ = " + strings.Repeat("func() { _ = ", n) + "x" + strings.Repeat(" }", n)
	case "index":
		body = "var _ = " + strings.Repeat("a[", n) + "0" + strings.Repeat("]", n)
	case "unary":
		body = "var _ = " + strings.Repeat("!", n) + "x"
	case "pointers":
		body = "var _ " + strings.Repeat("*", n) + "T"
	case "slices":
		body = "var _ " + strings.Repeat("[]", n) + "T"
	case "maptypes":
		body = "var _ " + strings.Repeat("map[K]", n) + "T"
	case "functypes":
		body = "var _ " + strings.Repeat("func() ", n) + "T"
	case "structtypes":
		body = "var _ " + strings.Repeat("struct{ f ", n) + "T" + strings.Repeat(" }", n)
	case "composite":
		body = "var _ = " + strings.Repeat("[]T{", n) + strings.Repeat("}", n)
	case "selectors":
		body = "var _ = x" + rep(n, func(i int) string { return fmt.Sprintf(".f%d", i) }, "")
	case "args":
		body = "var _ = f(" + rep(n, func(i int) string { return fmt.Sprint(i) }, ", ") + ")"
	case "stmts":
		body = "func g() {\n" + rep(n, func(i int) string { return fmt.Sprintf("\tf(%d)", i) }, "\n") + "\n}"
	case "fields":
		body = "type S struct {\n" + rep(n, func(i int) string { return fmt.Sprintf("\tF%d int", i) }, "\n") + "\n}"
	case "cases":
		body = "func g() {\n\tswitch x {\n" + rep(n, func(i int) string { return fmt.Sprintf("\tcase %d:\n\t\tf(%d)", i, i) }, "\n") + "\n\t}\n}"
	case "valuespecs":
		body = "const (\n" + rep(n, func(i int) string { return fmt.Sprintf("\tC%d = %d", i, i) }, "\n") + "\n)"
	case "elements":
		body = "var _ = map[string]int{\n" + rep(n, func(i int) string { return fmt.Sprintf("\t\"k%d\": %d,", i, i) }, "\n") + "\n}"
	case "results":
		body = "func g(" + rep(n, func(i int) string { return fmt.Sprintf("a%d int", i) }, ", ") + ") (" + rep(n, func(i int) string { return "int" }, ", ") + ") { return " + rep(n, func(i int) string { return fmt.Sprintf("a%d", i) }, ", ") + " }"
	case "typeparams":
		body = "func g[" + rep(n, func(i int) string { return fmt.Sprintf("T%d any", i) }, ", ") + "]() {}"
	case "labels":
		body = "func g() {\n" + rep(n, func(i int) string { return fmt.Sprintf("L%d:\n", i) }, "") + "\tf()\n}"
	}
	return "package p\n\n" + body + "\n"
}

func TestC01Deep(t *testing.T) {
	r := hx.Start(t, "C01")
	defer r.Finish(t)
	r.Rule("deep_program: 24 shapes of one very deep or very wide construct (left-associative concatenation, nested calls / parens / blocks / else-if chains / func literals / index / unary / pointer, slice, map, func and struct types / composite literals, long selector chains, argument lists, statement lists, struct fields, switch cases, const specs, map elements, results, type parameters, labels) with sizes from {1, 2, 31..33, 63..65, 100, 127..129, 255..257, 499..501, 511..513, 1000, 1023..1025, 2000} and 1..1200, through the same round trip; non-trivial = translated")
	ck := hx.Check[deepCase]{Name: "deep_program", Fn: func(c deepCase) error {
		return check(Case{Name: "deep.go", Src: recipe.Text(c.source())})
	}}
	hx.Rapid(r, t, ck, r.N(150, 1200), func(rt *rapid.T) deepCase {
		c := deepCase{Shape: rapid.SampledFrom(deepShapes).Draw(rt, "shape")}
		c.N = rapid.OneOf(rapid.SampledFrom([]int{1, 2, 31, 32, 33, 63, 64, 65, 100, 127, 128, 129, 255, 256, 257, 499, 500, 501, 511, 512, 513, 1000, 1023, 1024, 1025, 2000}), rapid.IntRange(1, 1200)).Draw(rt, "n")
		if (c.Shape == "blocks" || c.Shape == "ifelse" || c.Shape == "funclits") && c.N > 900 {
			c.N = 900 // go/parser's object resolution gives up at 1000 nested scopes
		}
		_, status, _ := rtpkg.Translate("deep.go", []byte(c.source()), rootFor(""), nil, true)
		if status == rtpkg.OK {
			r.NonTrivial(fmt.Sprintf("%+v", c))
			r.Class("deep:" + c.Shape)
			if c.N >= 500 {
				r.Class("deep:n>=500")
			}
		} else {
			r.Class("deep:untranslated:" + c.Shape + ":" + status)
		}
		return c
	})
}
