// C01 Faithful rendering: any Go program built through the DSL re-parses to itself.
package c01

import (
	"fmt"
	"go/format"
	"go/parser"
	"go/token"
	"os"
	"runtime"
	"sync"
	"sync/atomic"
	"testing"
	"time"

	"verif/internal/astcmp"
	"verif/internal/corpus"
	"verif/internal/gen"
	"verif/internal/hx"
	"verif/internal/knownfind"
	"verif/internal/recipe"
	rtpkg "verif/internal/rt"
	"verif/internal/shrink"

	"pgregory.net/rapid"
)

// Case is one source file (self-contained: the text is in the case).
type Case struct {
	Name string      `json:"name"`
	Root string      `json:"root,omitempty"` // source tree used to resolve package names ("" = the default toolchain's)
	Src  recipe.Text `json:"src"`
}

var (
	rootMu sync.Mutex
	roots  = map[string]*corpus.Root{}
)

func rootFor(dir string) *corpus.Root {
	rootMu.Lock()
	defer rootMu.Unlock()
	if r, ok := roots[dir]; ok {
		return r
	}
	var r *corpus.Root
	if dir == "" {
		r = corpus.Default()
	} else {
		r = corpus.NewRoot(dir)
	}
	roots[dir] = r
	return r
}

type outcome struct {
	status string
	why    string
	p      *rtpkg.Parsed
	alt    bool // also round-tripped with the alternative elements (Tag, Dict)
}

func roundTrip(c Case) (outcome, error) { return roundTripX(c, true) }

// roundTripX: with exclude set, programs in the input class of a known finding are not judged.
func roundTripX(c Case, exclude bool) (outcome, error) {
	p, status, why := rtpkg.Translate(c.Name, []byte(c.Src), rootFor(c.Root), nil, true)
	if status != rtpkg.OK {
		return outcome{status: status, why: why}, nil
	}
	if exclude && knownfind.GofmtStripsGenericLitParens(p.AST) {
		return outcome{status: "excluded-known", why: "KF1"}, nil
	}
	out, err := rtpkg.Render(&recipe.Builder{}, p.Recipe)
	if err != nil {
		return outcome{status: status, p: p}, fmt.Errorf("File.Render failed for a valid program: %s", rtpkg.Short(err.Error(), 1200))
	}
	if err := rtpkg.Compare(p.AST, out); err != nil {
		if exclude {
			// general form of KF1: gofmt turned the raw rendering into text that does not parse
			twin := p.Recipe.Clone()
			twin.Ops = append(twin.Ops, recipe.FileOp{Op: "NoFormat"})
			if raw, rerr := rtpkg.Render(&recipe.Builder{}, twin); rerr == nil && knownfind.GofmtBreaks(raw) {
				return outcome{status: "excluded-known", why: "KF1"}, nil
			}
		}
		return outcome{status: status, p: p}, err
	}
	// every third program also unformatted: the raw rendering is the same program (and, through the shared
	// render helper, the same bytes whichever way the File hands them out)
	hs := 0
	for i := 0; i < len(c.Src) && i < 4096; i++ {
		hs = hs*131 + int(c.Src[i])
	}
	if hs%3 == 0 {
		twin := p.Recipe.Clone()
		twin.Ops = append(twin.Ops, recipe.FileOp{Op: "NoFormat"})
		raw, rerr := rtpkg.Render(&recipe.Builder{}, twin)
		if rerr != nil {
			return outcome{status: status, p: p}, fmt.Errorf("the NoFormat render of a valid program fails: %s", rtpkg.Short(rerr.Error(), 1200))
		}
		if err := rtpkg.Compare(p.AST, raw); err != nil {
			return outcome{status: status, p: p}, fmt.Errorf("unformatted (NoFormat): %v", err)
		}
	}
	// the documented alternative elements: Tag(map) for conventional struct tags, Values(Dict) for keyed
	// composite literals whose keys are already in rendering order, Int() / Error() / Nil() ... for
	// predeclared names, Append(...) / Len(x) / Make(...) ... for calls of built-in functions
	alt := &recipe.Decisions{Draw: func(n int) int { return n - 1 }}
	if q, st, _ := rtpkg.Translate(c.Name, []byte(c.Src), rootFor(c.Root), alt, true); st == rtpkg.OK && q.Stats.AltTag+q.Stats.AltDict+q.Stats.AltIdent > 0 {
		out, err := rtpkg.Render(&recipe.Builder{}, q.Recipe)
		if err != nil {
			return outcome{status: status, p: p}, fmt.Errorf("File.Render failed for a valid program (struct tags through Tag, keyed literals through Dict, predeclared names and built-in calls through their own constructs): %s", rtpkg.Short(err.Error(), 1200))
		}
		if err := rtpkg.Compare(q.AST, out); err != nil {
			return outcome{status: status, p: p, alt: true}, fmt.Errorf("with struct tags built through Tag, keyed literals through Dict, predeclared names and built-in calls through their own constructs: %v", err)
		}
		return outcome{status: status, p: p, alt: true}, nil
	}
	return outcome{status: status, p: p}, nil
}

func check(c Case) error {
	_, err := roundTrip(c)
	return err
}

// probe is the check the known-finding examples are replayed through: no exclusion.
func probe(c Case) error {
	_, err := roundTripX(c, false)
	return err
}

func TestC01Corpus(t *testing.T) {
	r := hx.Start(t, "C01")
	defer r.Finish(t)
	r.Rule("every .go file of the installed toolchain's src tree (quick: a seed-chosen third; thorough: all, plus the newer toolchain's tree) translated construct by construct into the documented DSL element, rendered, re-parsed and compared with the source tree (package name, imports with names, declarations modulo comments/layout/redundant parens); non-trivial = translated (not skipped) with >= 1 non-import declaration; distinct by file content")
	r.Assume("files the translator cannot express with one File are skipped and counted by reason: dot-imported names needing type information, one path imported twice, import whose package name cannot be found on disk, source the go1.23 parser rejects")
	ck := hx.Check[Case]{Name: "corpus_roundtrip", Fn: check}
	hx.Replay(r, hx.Check[Case]{Name: "known_finding_probe", Fn: probe})
	if hx.Replay(r, ck) {
		return
	}
	type src struct{ file, root string }
	var files []src
	for _, f := range corpus.Files(rootFor("").Dir) {
		files = append(files, src{f, ""})
	}
	if r.Thorough() {
		for _, f := range corpus.Files(corpus.NewerRoot) {
			files = append(files, src{f, corpus.NewerRoot})
		}
	}
	var mine []src
	for i, f := range files {
		if r.Thorough() {
			if r.Mine(i) {
				mine = append(mine, f)
			}
		} else if (uint64(i)+r.Seed)%3 == 0 {
			mine = append(mine, f)
		}
	}
	var wg sync.WaitGroup
	sem := make(chan struct{}, runtime.NumCPU())
	var mu sync.Mutex
	for _, f := range mine {
		wg.Add(1)
		sem <- struct{}{}
		go func(fs src) {
			defer wg.Done()
			defer func() { <-sem }()
			f := fs.file
			src, err := os.ReadFile(f)
			if err != nil {
				return
			}
			c := Case{Name: f, Root: fs.root, Src: recipe.Text(src)}
			var oc outcome
			err = hx.Safe(func() error { var e error; oc, e = roundTrip(c); return e })
			r.Eval()
			mu.Lock()
			defer mu.Unlock()
			switch {
			case err != nil:
				// minimise the file: failing declaration first, then statement by statement
				if r.Violations() < 3 {
					small := shrink.Source([]byte(c.Src), func(b []byte) bool {
						return hx.Safe(func() error { return check(Case{Name: c.Name, Root: c.Root, Src: recipe.Text(b)}) }) != nil
					}, 20*time.Second)
					c.Src = recipe.Text(small)
					if e2 := hx.Safe(func() error { return check(c) }); e2 != nil {
						err = e2
					}
				}
				r.Violate(ck.Name, c, err)
			case oc.status == "excluded-known":
				r.ExcludedKnown()
			case oc.status != rtpkg.OK:
				if oc.status == rtpkg.InvalidSrc {
					r.Class(oc.status)
				} else {
					r.Class(oc.status + ":" + oc.why)
				}
			default:
				r.Class("round-tripped")
				if oc.alt {
					r.Class("round-tripped also with Tag/Dict elements")
				}
				if oc.p.Stats.Decls > 0 {
					r.NonTrivial(string(c.Src))
				}
				for k, v := range oc.p.Stats.Shapes {
					r.ClassN("shape:"+k, v)
				}
				for k, v := range oc.p.Stats.Arity {
					r.ClassN("arity:"+k, v)
				}
				r.ClassN("decls", oc.p.Stats.Decls)
				r.Sample(ck.Name, map[string]any{"file": f, "decls": oc.p.Stats.Decls, "max_depth": oc.p.Stats.MaxDepth})
			}
		}(f)
	}
	wg.Wait()
}

func TestC01Generated(t *testing.T) {
	r := hx.Start(t, "C01")
	defer r.Finish(t)
	ck := hx.Check[Case]{Name: "generated_program", Fn: check}
	discards := 0
	n := r.N(400, 3000)
	hx.Rapid(r, t, ck, n, func(rt *rapid.T) Case {
		src := gen.Program(rt, 5)
		c := Case{Name: "generated.go", Src: recipe.Text(src)}
		p, status, _ := rtpkg.Translate(c.Name, []byte(src), rootFor(""), nil, true)
		switch status {
		case rtpkg.OK:
			r.Class("generated:translated")
			r.NonTrivial(src)
			for k, v := range p.Stats.Shapes {
				r.ClassN("gshape:"+k, v)
			}
			if p.Stats.MaxDepth >= 12 {
				r.Class("generated:depth>=12")
			}
		case rtpkg.InvalidSrc:
			discards++
			r.Discard()
			t.Logf("generator bug: program does not parse:\n%s", src)
		default:
			r.Class("generated:skipped")
		}
		return c
	})
	for i := atomic.LoadInt64(&gen.ExcludedKnown); i > 0; i-- {
		r.ExcludedKnown()
	}
	if !r.Replaying() && discards*100 > n {
		r.Inconclusive("program generator: %d of %d programs do not parse (generator bug)", discards, n)
	}
}

// FuzzRoundTrip is the native coverage-guided target (thorough tier, time-boxed): source bytes
// the parser accepts go through the same round-trip oracle.
func FuzzRoundTrip(f *testing.F) {
	n := 0
	for i, file := range corpus.Files(rootFor("").Dir) {
		if i%29 != 0 {
			continue
		}
		if st, err := os.Stat(file); err != nil || st.Size() > 3000 {
			continue
		}
		if src, err := os.ReadFile(file); err == nil {
			f.Add(src)
			n++
		}
		if n >= 150 {
			break
		}
	}
	f.Add([]byte("package p\n\nfunc f() { L: for { break L }; switch x := y.(type) { case int, string: _ = x; default: }; a[1:2:3] = b[:]; return }\n"))
	f.Fuzz(func(t *testing.T, src []byte) {
		if len(src) > 1<<14 {
			t.Skip()
		}
		// Domain of the byte-level target: sources that the toolchain's own formatter round-trips.
		// go/parser is lenient in places (`func() (A[0])` parses although 0 is no type) and gofmt
		// turns some of what it accepts into text that no longer parses; such inputs say nothing
		// about jennifer.
		if !gofmtStable(src) {
			t.Skip()
		}
		if err := check(Case{Name: "fuzz.go", Src: recipe.Text(src)}); err != nil {
			t.Fatalf("%v\n--- source ---\n%s", err, src)
		}
	})
}

func gofmtStable(src []byte) bool {
	a, err := parser.ParseFile(token.NewFileSet(), "", src, 0)
	if err != nil {
		return false
	}
	out, err := format.Source(src)
	if err != nil {
		return false
	}
	b, err := parser.ParseFile(token.NewFileSet(), "", out, 0)
	if err != nil {
		return false
	}
	return astcmp.Dump(a.Decls) == astcmp.Dump(b.Decls)
}
