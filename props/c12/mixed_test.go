package c12

import (
	"fmt"
	"go/token"
	"strings"
	"testing"

	"pgregory.net/rapid"

	"verif/internal/hx"
	"verif/internal/impcheck"
	"verif/internal/litx"
	"verif/internal/recipe"
)

// mixedCase: several string / rune / byte literals rendered by ONE File, in one list and again in
// a second statement. Every literal must come out as the tokens it renders to on its own (which
// the single-literal check ties to its value and kind): what one literal left in the File must
// not change the next.
type mixedCase struct {
	Items  []Case `json:"items"`
	Holder string `json:"holder"` // the list construct holding them
	// Pkgs: last path elements of packages the same File refers to — names of the predeclared types the
	// literals are converted to (byte, rune, string, ...), which must not end up as import names
	Pkgs []string `json:"pkgs,omitempty"`
}

func litOf(c Case) *recipe.Node {
	switch c.Kind {
	case "string":
		if c.Func {
			return recipe.S().C("LitFunc", recipe.V(string(c.S)))
		}
		return recipe.S().C("Lit", recipe.V(string(c.S)))
	case "rune":
		if c.Func {
			return recipe.S().C("LitRuneFunc", recipe.Rune(c.R))
		}
		return recipe.S().C("LitRune", recipe.Rune(c.R))
	}
	if c.Func {
		return recipe.S().C("LitByteFunc", recipe.Byte(c.B))
	}
	return recipe.S().C("LitByte", recipe.Byte(c.B))
}

var holders = map[string]func(items []*recipe.Node) *recipe.Node{
	"values": func(items []*recipe.Node) *recipe.Node {
		return recipe.S().C("Var").C("Id", "_").C("Op", "=").C("Index").C("Interface").C("Values", items)
	},
	"call":   func(items []*recipe.Node) *recipe.Node { return recipe.Id("f").C("Call", items) },
	"list":   func(items []*recipe.Node) *recipe.Node { return recipe.S().C("Return").C("List", items) },
	"case":   func(items []*recipe.Node) *recipe.Node { return recipe.S().C("Case", items).C("Block") },
	"index":  func(items []*recipe.Node) *recipe.Node { return recipe.Id("a").C("Index", items) },
	"custom": func(items []*recipe.Node) *recipe.Node { return recipe.S().C("Custom", &recipe.Opts{Open: "[", Close: "]", Separator: ",", Multi: true}, items) },
}

func checkMixed(c mixedCase) error {
	// each literal alone, in a File of its own
	var alone [][]litx.Tok
	for _, it := range c.Items {
		text, err := litx.RenderStmt(litOf(it), nil)
		if err != nil {
			return fmt.Errorf("render of %+v alone: %v", it, err)
		}
		ts, err := litx.Scan(text)
		if err != nil {
			return fmt.Errorf("%+v alone renders %q which does not scan: %v", it, text, err)
		}
		alone = append(alone, ts)
	}
	mk := holders[c.Holder]
	var items, marks []*recipe.Node
	for i, it := range c.Items {
		items = append(items, litOf(it))
		marks = append(marks, recipe.Id(fmt.Sprintf("ZZ%dZZ", i)))
	}
	// two statements of one File (the second sees whatever the first left in the File)
	render := func(a, b *recipe.Node) (string, error) {
		return litx.RenderStmt(a.C("Line").Then(b), nil)
	}
	got, err := render(mk(items), mk(cloneAll(items)))
	if err != nil {
		return fmt.Errorf("render of %d literals in one File: %v", len(items), err)
	}
	plain, err := render(mk(marks), mk(cloneAll(marks)))
	if err != nil {
		return err
	}
	gs, err := litx.Scan(got)
	if err != nil {
		return fmt.Errorf("%d literals in one File render %q which does not scan: %v", len(items), got, err)
	}
	ps, _ := litx.Scan(plain)
	var want []litx.Tok
	for _, p := range ps {
		var i int
		if p.Tok == token.IDENT && strings.HasPrefix(p.Lit, "ZZ") {
			if _, err := fmt.Sscanf(p.Lit, "ZZ%dZZ", &i); err == nil {
				want = append(want, alone[i]...)
				continue
			}
		}
		want = append(want, p)
	}
	if len(want) != len(gs) {
		return fmt.Errorf("%d literals in one %s: %d tokens, want %d (each literal as it renders alone)\n%s", len(items), c.Holder, len(gs), len(want), got)
	}
	for i := range want {
		if want[i] != gs[i] {
			return fmt.Errorf("%d literals in one %s: token %d is %v %s, but rendered alone that literal gives %v %s\n%s", len(items), c.Holder, i, gs[i].Tok, gs[i].Lit, want[i].Tok, want[i].Lit, got)
		}
	}
	if len(c.Pkgs) > 0 {
		// the literals next to references to packages named like predeclared types: the File type-checks,
		// i.e. byte(0x61) still converts to the predeclared byte
		fr := &recipe.File{Ctor: "NewFile", Args: []recipe.Text{"p"}}
		markers := map[string]string{}
		vals := recipe.S().C("Var").C("Id", "_").C("Op", "=").C("Index").C("Interface").C("Values", cloneAll(items))
		fr.Body = append(fr.Body, vals)
		for i, name := range c.Pkgs {
			path := "example.com/wire/" + name
			m := fmt.Sprintf("S%d", i)
			markers[m] = path
			ref := recipe.S().C("Var").C("Id", "_").C("Op", "=").Add(recipe.Qual(path, m))
			if i%2 == 0 {
				fr.Body = append([]*recipe.Node{ref}, fr.Body...)
			} else {
				fr.Body = append(fr.Body, ref)
			}
		}
		var src string
		if perr := hx.Safe(func() error { src = recipe.BuildFile(fr).GoString(); return nil }); perr != nil {
			return fmt.Errorf("literals next to imports of packages named like types: %v", perr)
		}
		rep, err := impcheck.Analyze([]byte(src), &impcheck.World{Real: func(string) string { return "zzreal" }, Markers: markers, HasLocal: true})
		if err != nil {
			return err
		}
		if len(rep.TypeErrors) > 0 {
			return fmt.Errorf("a File with string / rune / byte literals and imports of packages named like predeclared types does not type-check: %s\n%s", strings.Join(rep.TypeErrors, "; "), src)
		}
	}
	return nil
}

func TestC12Together(t *testing.T) {
	r := hx.Start(t, "C12")
	defer r.Finish(t)
	r.Rule("literals_concurrently: 3..8 mixed-literal cases (tables of 10..60 literals) judged at the same time, each on a goroutine of its own sharing nothing with the others, three rounds; every case must hold as it does alone")
	names := []string{"values", "call", "list", "case", "index", "custom"}
	hx.Rapid(r, t, hx.Check[hx.Batch[mixedCase]]{Name: "literals_concurrently", Fn: hx.Together(checkMixed)}, r.N(30, 300), func(rt *rapid.T) hx.Batch[mixedCase] {
		b := hx.Batch[mixedCase]{Rounds: 3}
		for i := rapid.IntRange(3, 8).Draw(rt, "files"); i > 0; i-- {
			c := mixedCase{Holder: rapid.SampledFrom(names).Draw(rt, "holder")}
			for k := rapid.IntRange(10, 60).Draw(rt, "n"); k > 0; k-- {
				it := Case{Kind: "string", S: recipe.Text(genString(rt))}
				if len(it.S) > 60 {
					it.S = it.S[:60]
				}
				switch rapid.IntRange(0, 5).Draw(rt, "kind") {
				case 0:
					it = Case{Kind: "rune", R: rapid.Rune().Draw(rt, "r")}
				case 1:
					it = Case{Kind: "byte", B: rapid.Byte().Draw(rt, "b")}
				}
				c.Items = append(c.Items, it)
			}
			b.Cases = append(b.Cases, c)
		}
		r.NonTrivial(recipe.JSON(b))
		r.Class("mixed:tables_rendered_concurrently")
		return b
	})
}

func cloneAll(ns []*recipe.Node) []*recipe.Node {
	var out []*recipe.Node
	for _, n := range ns {
		out = append(out, n.Clone())
	}
	return out
}

func TestC12Mixed(t *testing.T) {
	r := hx.Start(t, "C12")
	defer r.Finish(t)
	r.Rule("mixed_literals_one_file: 1..6 string / rune / byte literals (the same 13 characters in all three kinds, plus random strings; Func variants) as items of Values / Call / List / Case / Index / multi-line Custom, twice in one File; the token sequence must be the construct holding identifiers with each identifier replaced by the tokens the literal renders to alone in a File of its own")
	names := []string{"values", "call", "list", "case", "index", "custom"}
	hx.Rapid(r, t, hx.Check[mixedCase]{Name: "mixed_literals_one_file", Fn: checkMixed}, r.N(3000, 30000), func(rt *rapid.T) mixedCase {
		c := mixedCase{Holder: rapid.SampledFrom(names).Draw(rt, "holder")}
		// a few characters, each as string, rune and byte: same character, different literal
		chars := []rune{'a', '0', '"', '\'', '\\', '\n', 0, 0x7f, 0xc8, 'é', '日', 0x2028, 0x1F600}
		n := rapid.IntRange(1, 6).Draw(rt, "n")
		if rapid.IntRange(0, 9).Draw(rt, "table") == 0 {
			// literal tables: long lists of nothing but literals
			n = rapid.SampledFrom([]int{15, 16, 17, 31, 32, 33, 48, 64, 100, 128, 255, 256, 257}).Draw(rt, "tablesize")
			r.Class("mixed:literal_table")
		}
		same := false
		for i := 0; i < n; i++ {
			var it Case
			switch rapid.IntRange(0, 3).Draw(rt, "kind") {
			case 0:
				ch := rapid.SampledFrom(chars).Draw(rt, "ch")
				it = Case{Kind: "string", S: recipe.Text(string(ch))}
			case 1:
				it = Case{Kind: "rune", R: rapid.SampledFrom(chars).Draw(rt, "rch")}
			case 2:
				it = Case{Kind: "byte", B: uint8(rapid.SampledFrom(chars).Draw(rt, "bch"))}
			default:
				it = Case{Kind: "string", S: recipe.Text(genString(rt))}
				if len(it.S) > 40 {
					it.S = it.S[:40]
				}
			}
			it.Func = rapid.IntRange(0, 4).Draw(rt, "func") == 0
			for _, prev := range c.Items {
				if prev.Kind != it.Kind && (string(prev.S) == string(rune(it.R)) || string(it.S) == string(rune(prev.R)) || prev.Kind != "string" && it.Kind != "string" && (int32(prev.B) == it.R || prev.R == int32(it.B))) {
					same = true
				}
			}
			c.Items = append(c.Items, it)
		}
		if rapid.IntRange(0, 3).Draw(rt, "withpkgs") == 0 {
			for i := rapid.IntRange(1, 3).Draw(rt, "npkgs"); i > 0; i-- {
				c.Pkgs = append(c.Pkgs, rapid.SampledFrom([]string{"byte", "rune", "string", "uint8", "int32", "any", "cap", "len"}).Draw(rt, "pkg"))
			}
			r.Class("mixed:with_type_named_imports")
		}
		if same {
			r.Class("mixed:same_character_in_two_kinds")
		}
		if n == 1 {
			r.Class("mixed:single_item")
		}
		r.Class("mixed:" + c.Holder)
		r.NonTrivial(recipe.JSON(c))
		return c
	})
}
