// C12 String, rune and byte literals preserve their exact content.
package c12

import (
	"fmt"
	"go/constant"
	"go/token"
	"go/types"
	"strconv"
	"strings"
	"testing"
	"unicode"
	"unicode/utf8"

	"pgregory.net/rapid"

	"verif/internal/hx"
	"verif/internal/litx"
	"verif/internal/recipe"
)

type Case struct {
	Kind string      `json:"kind"` // string | rune | byte
	S    recipe.Text `json:"s,omitempty"`
	R    int32       `json:"r,omitempty"`
	B    uint8       `json:"b,omitempty"`
	Func bool        `json:"func,omitempty"`
}

func check(c Case) error {
	var lit *recipe.Node
	switch c.Kind {
	case "string":
		fn := "Lit"
		if c.Func {
			fn = "LitFunc"
		}
		lit = recipe.S().C(fn, recipe.V(string(c.S)))
	case "rune":
		fn := "LitRune"
		if c.Func {
			fn = "LitRuneFunc"
		}
		lit = recipe.S().C(fn, recipe.Rune(c.R))
	case "byte":
		fn := "LitByte"
		if c.Func {
			fn = "LitByteFunc"
		}
		lit = recipe.S().C(fn, recipe.Byte(c.B))
	}
	b := &recipe.Builder{}
	// a := <lit>; b   — rendered as two items of a File, scanned as one token stream
	fr := recipe.Id("a").C("Op", ":=").Then(lit)
	text, err := litx.RenderStmt(fr, b)
	if err != nil {
		return fmt.Errorf("render: %v", err)
	}
	if c.Func && (len(b.Callbacks) != 1 || b.Callbacks[0].Runs != 1 || b.Callbacks[0].Late != 0) {
		return fmt.Errorf("callback ran %d times", b.Callbacks[0].Runs)
	}
	// the same statement printed on its own (Statement.GoString / Render), right after other stand-alone
	// renders have failed or panicked half-way: the same tokens
	if h := len(text) % 8; h == 0 {
		hx.FailedFragments()
		var frag string
		if perr := hx.Safe(func() error {
			st := (&recipe.Builder{}).Stmt(recipe.Id("a").C("Op", ":=").Then(lit.Clone()))
			if len(text)%2 == 0 {
				frag = st.GoString()
				return nil
			}
			buf := &strings.Builder{}
			if err := st.Render(buf); err != nil {
				return err
			}
			frag = buf.String()
			return nil
		}); perr != nil {
			return fmt.Errorf("the statement %q rendered on its own after failed stand-alone renders: %v", text, perr)
		}
		ft, err1 := litx.Scan(frag)
		tt, err2 := litx.Scan(text)
		if err1 != nil || err2 != nil || len(ft) != len(tt) {
			return fmt.Errorf("the statement renders %q inside a File and %q on its own (after other stand-alone renders had failed)", text, frag)
		}
		for i := range ft {
			if ft[i] != tt[i] {
				return fmt.Errorf("the statement renders %q inside a File and %q on its own (after other stand-alone renders had failed)", text, frag)
			}
		}
	}
	src := text + "\nb"
	toks, err := litx.Scan(src)
	if err != nil {
		return fmt.Errorf("rendered statement %q does not scan: %v", text, err)
	}
	kinds := func() string {
		var ks []string
		for _, t := range toks {
			ks = append(ks, t.Tok.String())
		}
		return strings.Join(ks, " ")
	}
	switch c.Kind {
	case "string":
		if kinds() != "IDENT := STRING IDENT" {
			return fmt.Errorf("Lit(%q) renders %q: token kinds %s, want IDENT := STRING IDENT", string(c.S), text, kinds())
		}
		u, err := strconv.Unquote(toks[2].Lit)
		if err != nil || u != string(c.S) {
			return fmt.Errorf("Lit(%q) renders the literal %s which unquotes to %q (%v)", string(c.S), toks[2].Lit, u, err)
		}
		tv, err := litx.Eval(toks[2].Lit)
		if err != nil || tv.Value == nil || tv.Value.Kind() != constant.String || constant.StringVal(tv.Value) != string(c.S) || !types.Identical(tv.Type, types.Typ[types.UntypedString]) {
			return fmt.Errorf("Lit(%q) renders %s which evaluates to %v of type %v (%v)", string(c.S), toks[2].Lit, tv.Value, tv.Type, err)
		}
	case "rune":
		if kinds() != "IDENT := CHAR IDENT" {
			return fmt.Errorf("LitRune(%U) renders %q: token kinds %s, want IDENT := CHAR IDENT", c.R, text, kinds())
		}
		tv, err := litx.Eval(toks[2].Lit)
		if err != nil || tv.Value == nil || !types.Identical(tv.Type, types.Typ[types.UntypedRune]) {
			return fmt.Errorf("LitRune(%U) renders %s: %v type %v", c.R, toks[2].Lit, err, tv.Type)
		}
		if v, ok := constant.Int64Val(tv.Value); !ok || v != int64(c.R) {
			return fmt.Errorf("LitRune(%U) renders %s whose value is %v", c.R, toks[2].Lit, tv.Value)
		}
	case "byte":
		if kinds() != "IDENT := IDENT ( INT ) IDENT" {
			return fmt.Errorf("LitByte(%d) renders %q: token kinds %s", c.B, text, kinds())
		}
		expr := text[len("a := "):]
		tv, err := litx.Eval(expr)
		if err != nil || tv.Value == nil || !types.Identical(tv.Type, types.Universe.Lookup("byte").Type()) {
			return fmt.Errorf("LitByte(%d) renders %q: %v type %v", c.B, expr, err, tv.Type)
		}
		if v, ok := constant.Int64Val(tv.Value); !ok || v != int64(c.B) {
			return fmt.Errorf("LitByte(%d) renders %q whose value is %v", c.B, expr, tv.Value)
		}
	}
	if toks[0].Lit != "a" || toks[len(toks)-1].Lit != "b" || toks[1].Tok != token.DEFINE {
		return fmt.Errorf("surrounding code changed: %q", src)
	}
	if c.Kind == "string" {
		// the string is also what the File's settings are keyed by (a dot-import hint, a name hint,
		// the File's own path): a literal is still a literal
		s := string(c.S)
		for _, fr := range []*recipe.File{
			{Ctor: "NewFile", Args: []recipe.Text{"p"}, Ops: []recipe.FileOp{{Op: "ImportAlias", Args: []recipe.Text{c.S, "."}}}},
			{Ctor: "NewFile", Args: []recipe.Text{"p"}, Ops: []recipe.FileOp{{Op: "ImportName", Args: []recipe.Text{c.S, "x"}}, {Op: "PackagePrefix", Args: []recipe.Text{"pkg"}}}},
			{Ctor: "NewFilePathName", Args: []recipe.Text{c.S, "p"}},
		} {
			fr.Ops = append(fr.Ops, recipe.FileOp{Op: "NoFormat"})
			fr.Body = []*recipe.Node{recipe.Id("a").C("Op", ":=").Then(lit.Clone())}
			var out string
			if perr := hx.Safe(func() error {
				f := (&recipe.Builder{}).File(fr)
				buf := &strings.Builder{}
				if err := f.Render(buf); err != nil {
					return err
				}
				out = buf.String()
				return nil
			}); perr != nil {
				return fmt.Errorf("Lit(%q) in a File whose settings name the same string: %v", s, perr)
			}
			if !strings.HasSuffix(out, text) {
				return fmt.Errorf("Lit(%q) renders %q alone but, in a File whose settings (%s) name the same string, the File renders %q", s, text, recipe.JSON(fr.Ops), out)
			}
		}
	}
	if c.Kind == "byte" {
		return nil
	}
	// the literal as an item of list constructs, multi-line and comma-separated ones included:
	// it must stay one token there too
	want := toks[2]
	containers := []func(items ...*recipe.Node) *recipe.Node{
		func(items ...*recipe.Node) *recipe.Node {
			return recipe.S().C("Custom", &recipe.Opts{Open: "[", Close: "]", Separator: ",", Multi: true}, items)
		},
		func(items ...*recipe.Node) *recipe.Node { return recipe.Id("f").C("Call", items) },
		func(items ...*recipe.Node) *recipe.Node { return recipe.Id("T").C("Values", items) },
		func(items ...*recipe.Node) *recipe.Node { return recipe.S().C("Block", items) },
		func(items ...*recipe.Node) *recipe.Node {
			return recipe.Id("T").C("Values", recipe.Dict(recipe.Pair{K: items[0], V: items[1]}, recipe.Pair{K: recipe.Id("zzzz"), V: items[2]}))
		},
	}
	for ci, mk := range containers {
		text, err := litx.RenderStmt(mk(lit.Clone(), lit.Clone(), lit.Clone()), nil)
		if err != nil {
			return fmt.Errorf("container %d: %v", ci, err)
		}
		ts, err := litx.Scan(text)
		if err != nil {
			return fmt.Errorf("container %d: %q does not scan: %v", ci, text, err)
		}
		n := 0
		for _, t := range ts {
			if t.Tok == want.Tok {
				if t.Lit != want.Lit {
					return fmt.Errorf("inside a list construct the literal %s appears as %s\n%s", want.Lit, t.Lit, text)
				}
				n++
			} else if t.Tok == token.STRING || t.Tok == token.CHAR {
				return fmt.Errorf("inside a list construct an unexpected literal token %s appears\n%s", t.Lit, text)
			}
		}
		if n != 3 {
			return fmt.Errorf("the literal was given three times to a list construct, %d literal tokens came out\n%s", n, text)
		}
		// the code tokens around the three literals are those of the same construct holding identifiers
		plain, _ := litx.RenderStmt(mk(recipe.Id("zz"), recipe.Id("zz"), recipe.Id("zz")), nil)
		ps, _ := litx.Scan(plain)
		if len(ps) != len(ts) {
			return fmt.Errorf("the construct has %d tokens with identifiers and %d with the literal\n%s", len(ps), len(ts), text)
		}
		for i := range ps {
			if ps[i].Lit == "zz" {
				continue
			}
			if ps[i] != ts[i] {
				return fmt.Errorf("token %d of the construct is %v %q with identifiers and %v %q with the literal\n%s", i, ps[i].Tok, ps[i].Lit, ts[i].Tok, ts[i].Lit, text)
			}
		}
	}
	return nil
}

var hostile = []string{"\"", "'", "`", "\\", "\n", "\r", "\t", "\x00", "\x7f", "\x80", "\xff", "\xc3", "\xc3\x28", "\xed\xa0\x80", "\xef\xbf\xbd", "\u2028", "\u2029", "\ufeff", "\u00a0", "\u200b", "\U0010ffff", "\U0001f600",
	"\"; panic(1); x := \"", "` + `", "*/", "/*", "//", "${x}", "%d", "%!", "\\n", "\\\"", "\\x", "日本語", "é", "\"\"", "``", "\r\n", " ", "a", "0"}

// genLongText draws long, mostly printable multi-line text (SQL, templates, CRLF files):
// 100..4000 bytes, lines ended by \n or \r\n.
func genLongText(t *rapid.T) string {
	words := []string{"SELECT", "id,", "name", "FROM", "users", "WHERE", "{{.Name}}", "x := 1", "<div>", "</div>", "#", "-- comment", "日本語", "tab\there", "a", "the quick brown fox", "'single'", "100%", "é"}
	eol := rapid.SampledFrom([]string{"\n", "\r\n", "\n", "\r"}).Draw(t, "eol")
	lines := rapid.IntRange(3, 60).Draw(t, "nlines")
	sb := strings.Builder{}
	for i := 0; i < lines; i++ {
		for w := rapid.IntRange(0, 8).Draw(t, "nwords"); w > 0; w-- {
			sb.WriteString(rapid.SampledFrom(words).Draw(t, "word"))
			sb.WriteByte(' ')
		}
		if rapid.IntRange(0, 9).Draw(t, "mixeol") == 0 {
			sb.WriteString(rapid.SampledFrom([]string{"\n", "\r\n", "\r", "\n\n"}).Draw(t, "eol2"))
		} else {
			sb.WriteString(eol)
		}
	}
	s := sb.String()
	if rapid.IntRange(0, 4).Draw(t, "special") == 0 {
		s += rapid.SampledFrom([]string{"`", "\"", "\\", "\x00", "\xff", "\t"}).Draw(t, "tail")
	}
	return s
}

func genString(t *rapid.T) string {
	if rapid.IntRange(0, 9).Draw(t, "long") == 0 {
		return genLongText(t)
	}
	n := rapid.IntRange(0, 12).Draw(t, "nparts")
	sb := strings.Builder{}
	for i := 0; i < n; i++ {
		switch rapid.IntRange(0, 3).Draw(t, "part") {
		case 0, 1:
			sb.WriteString(rapid.SampledFrom(hostile).Draw(t, "hostile"))
		case 2:
			sb.Write(rapid.SliceOfN(rapid.Byte(), 0, 16).Draw(t, "bytes"))
		case 3:
			sb.WriteString(rapid.String().Draw(t, "str"))
		}
	}
	s := sb.String()
	if len(s) > 400 {
		s = s[:400]
	}
	return s
}

func nontrivialString(s string) bool {
	for i := 0; i < len(s); i++ {
		b := s[i]
		if b < 0x20 || b > 0x7e || b == '"' || b == '\\' || b == '`' {
			return true
		}
	}
	return false
}

func TestC12(t *testing.T) {
	r := hx.Start(t, "C12")
	defer r.Finish(t)
	r.Rule("strings: rapid byte strings of 0..400 bytes (one in ten: long multi-line text of 100..4000 bytes with LF / CRLF / CR line ends) biased to quote, backquote, backslash, newline, CR, tab, NUL, 0x7f, 0x80-0xff, invalid UTF-8, surrogate halves, U+2028, BOM, code fragments, comment markers; runes: quick all code points < 0x300, all boundaries and a seed-strided 30k of the rest, thorough all 1,112,064 valid code points (sharded); bytes: all 256; Func variants included; non-trivial = string with a byte outside printable ASCII or one of \" \\ `, rune outside ASCII letters/digits; distinct by value")
	ck := hx.Check[Case]{Name: "literal", Fn: check}
	if !hx.Replay(r, ck) {
		if r.Shard == 0 {
			for b := 0; b < 256; b++ {
				for _, fn := range []bool{false, true} {
					hx.One(r, ck, Case{Kind: "byte", B: uint8(b), Func: fn})
				}
				r.NonTrivial(fmt.Sprint("byte", b))
			}
			r.ClassN("bytes", 256)
			for _, s := range hostile {
				hx.One(r, ck, Case{Kind: "string", S: recipe.Text(s)})
				r.NonTrivial("s:" + s)
			}
		}
		// exact lengths: a run of one filler with a hostile byte at the end, in the middle or nowhere
		if r.Shard == 0 {
			lens := []int{}
			for n := 0; n <= 130; n++ {
				lens = append(lens, n)
			}
			for _, p := range []int{8, 9, 10, 11, 12, 13, 14, 15, 16} {
				lens = append(lens, 1<<uint(p)-1, 1<<uint(p), 1<<uint(p)+1)
			}
			lens = append(lens, 1000, 10000, 100000, 1<<20+1)
			fill := []string{"a", "\"", "\n", "é", "\xff", "%"}
			for i, n := range lens {
				f := fill[(i+int(r.Seed))%len(fill)]
				body := strings.Repeat(f, n/len(f)+1)[:n]
				for _, tail := range []string{"", "\\", "`"} {
					hx.One(r, ck, Case{Kind: "string", S: recipe.Text(body + tail), Func: i%2 == 1})
					hx.One(r, ck, Case{Kind: "string", S: recipe.Text(body[:n/2] + tail + body[n/2:])})
				}
				r.NonTrivial(fmt.Sprint("len", n, f))
			}
			r.ClassN("length_sweep", len(lens))
		}
		// runes
		stride := 37
		nr := 0
		for cp := 0; cp <= unicode.MaxRune; cp++ {
			if cp >= 0xD800 && cp <= 0xDFFF {
				continue // surrogate halves are not valid code points
			}
			if r.Thorough() {
				if !r.Mine(cp) {
					continue
				}
			} else {
				boundary := cp < 0x300 || cp >= 0xD7F0 && cp <= 0xE010 || cp >= 0xFFF0 && cp <= 0x10010 || cp >= 0x10FFF0 || cp >= 0x2020 && cp <= 0x2030 || cp >= 0xFEF0 && cp <= 0xFF00
				if !boundary && (uint64(cp)+r.Seed)%uint64(stride) != 0 {
					continue
				}
			}
			c := Case{Kind: "rune", R: int32(cp), Func: cp%5 == 0}
			hx.One(r, ck, c)
			nr++
			if !(cp < 0x80 && (unicode.IsLetter(rune(cp)) || unicode.IsDigit(rune(cp)))) {
				r.NonTrivial(fmt.Sprint("rune", cp))
			}
		}
		r.ClassN("runes", nr)
		if r.Thorough() {
			r.Exhaustive("all 1,112,064 valid code points; all 256 bytes")
		} else {
			r.Exhaustive("all 256 bytes; all code points < 0x300")
		}
	}
	hx.Rapid(r, t, hx.Check[Case]{Name: "string_random", Fn: check}, r.N(10000, 100000), func(rt *rapid.T) Case {
		c := Case{Kind: "string", S: recipe.Text(genString(rt)), Func: rapid.IntRange(0, 4).Draw(rt, "func") == 0}
		s := string(c.S)
		if nontrivialString(s) {
			r.NonTrivial("s:" + s)
			r.Class("string_nontrivial")
		}
		if !utf8.ValidString(s) {
			r.Class("string_invalid_utf8")
		}
		if strings.ContainsAny(s, "\"`\\") {
			r.Class("string_with_quote_chars")
		}
		if len(s) >= 120 && strings.Count(s, "\n") >= 3 {
			r.Class("string_long_multiline")
			if strings.Contains(s, "\r") {
				r.Class("string_long_multiline_with_CR")
			}
		}
		return c
	})
}

// FuzzString is the native coverage-guided target (thorough tier, time-boxed).
func FuzzString(f *testing.F) {
	for _, s := range hostile {
		f.Add([]byte(s))
	}
	f.Fuzz(func(t *testing.T, b []byte) {
		if err := check(Case{Kind: "string", S: recipe.Text(b)}); err != nil {
			t.Fatal(err)
		}
	})
}
