// C11 Numeric and boolean literals preserve value and type.
package c11

import (
	"bytes"
	"fmt"
	"github.com/dave/jennifer/jen"
	"go/ast"
	"go/constant"
	"go/parser"
	"go/token"
	"go/types"
	"math"
	"sort"
	"strings"
	"testing"

	"pgregory.net/rapid"

	"verif/internal/hx"
	"verif/internal/impcheck"
	"verif/internal/litx"
	"verif/internal/recipe"
)

type Case struct {
	Val  *recipe.Value `json:"val"`
	Func bool          `json:"func"`          // LitFunc instead of Lit
	Ctx  string        `json:"ctx,omitempty"` // "" alone | assign | call | a key of contexts
}

var basic = map[string]types.BasicKind{
	"bool": types.Bool, "int": types.Int, "int8": types.Int8, "int16": types.Int16, "int32": types.Int32, "int64": types.Int64,
	"uint": types.Uint, "uint8": types.Uint8, "uint16": types.Uint16, "uint32": types.Uint32, "uint64": types.Uint64, "uintptr": types.Uintptr,
	"float32": types.Float32, "float64": types.Float64, "complex64": types.Complex64, "complex128": types.Complex128,
}

func litNode(c Case) (*recipe.Node, *recipe.Builder) {
	b := &recipe.Builder{}
	fn := "Lit"
	if c.Func {
		fn = "LitFunc"
	}
	lit := recipe.S().C(fn, c.Val)
	return lit, b
}

func check(c Case) error {
	// one case in eight is judged in the environment of another machine (32-bit target, other OS, no Go
	// installation, other locale): a literal is a function of the value handed to Lit
	h := 0
	for _, ch := range c.Val.T + string(c.Val.V) {
		h = h*31 + int(ch)
	}
	if h%8 == 3 {
		var err error
		hx.ForeignEnv(func() { err = check0(c) })
		if err != nil {
			return fmt.Errorf("with GOARCH=386 GOOS=plan9 GOROOT=/nonexistent/go LANG=tr_TR.UTF-8 ... in the environment: %v", err)
		}
		return nil
	}
	return check0(c)
}

func check0(c Case) error {
	v := c.Val.Go()
	lit, b := litNode(c)
	text, err := litx.RenderStmt(lit, b)
	if err != nil {
		return fmt.Errorf("render: %v", err)
	}
	if c.Func {
		if len(b.Callbacks) != 1 || b.Callbacks[0].Runs != 1 || b.Callbacks[0].Late != 0 {
			return fmt.Errorf("LitFunc callback ran %d times (%d after the constructing call returned)", b.Callbacks[0].Runs, b.Callbacks[0].Late)
		}
		plain, err := litx.RenderStmt(recipe.S().C("Lit", c.Val), nil)
		if err != nil {
			return err
		}
		if plain != text {
			return fmt.Errorf("LitFunc renders %q, Lit of the same value %q", text, plain)
		}
	}
	// embedded: the literal's text must be the same inside a larger statement
	switch c.Ctx {
	case "assign":
		whole, err := litx.RenderStmt(recipe.Id("x").C("Op", ":=").Then(lit), nil)
		if err != nil {
			return err
		}
		if whole != "x := "+text {
			return fmt.Errorf("embedded in an assignment the literal renders %q, alone %q", whole, text)
		}
	case "call":
		whole, err := litx.RenderStmt(recipe.Id("f").C("Call", lit, lit), nil)
		if err != nil {
			return err
		}
		if whole != "f ("+text+","+text+")" {
			return fmt.Errorf("embedded in a call the literal renders %q, alone %q", whole, text)
		}
	}
	if build, ok := contexts[c.Ctx]; ok {
		// the literal chained into a larger statement (before a block, a comment, another operator, as a
		// case expression, ...): the statement must render exactly as it does with an identifier in the
		// literal's place, the identifier replaced by the literal's own text
		mk := func() *recipe.Node { return recipe.Id("ZZLIT") }
		marked, err := litx.RenderStmt(build(mk), nil)
		if err != nil {
			return err
		}
		whole, err := litx.RenderStmt(build(func() *recipe.Node { return lit.Clone() }), nil)
		if err != nil {
			return fmt.Errorf("context %s: %v", c.Ctx, err)
		}
		if want := strings.ReplaceAll(marked, "ZZLIT", text); whole != want {
			return fmt.Errorf("context %s: the statement renders %q; with an identifier in the literal's place, replaced by the literal's text %q, it is %q", c.Ctx, whole, text, want)
		}
	}
	if err := valueCheck(c, text); err != nil {
		return err
	}
	// the literal rendered as a fragment of its own (Statement.GoString / Render / RenderWithFile): the
	// same value and type; one case in four after fragment renders that failed, recovered as a caller would
	hsh := 0
	for _, ch := range string(c.Val.V) {
		hsh = hsh*31 + int(ch)
	}
	if hsh%4 == 0 {
		func() {
			defer func() { _ = recover() }()
			_ = jen.Var().Id("leaked").Op("=").Render(&bytes.Buffer{}) // gofmt rejects it
			_ = jen.Op("-").Lit(struct{ A int }{}).GoString()          // documented panic
		}()
		func() {
			defer func() { _ = recover() }()
			_ = jen.Id("leaked2").Op(")").RenderWithFile(&bytes.Buffer{}, jen.NewFile("q"))
			_ = jen.Var().Id("leaked3").Op("=").Lit([]int{}).RenderWithFile(&bytes.Buffer{}, jen.NewFile("q"))
		}()
	}
	var frags [3]string
	if perr := hx.Safe(func() error {
		st := (&recipe.Builder{}).Stmt(recipe.S().C("Lit", c.Val))
		frags[0] = st.GoString()
		b1, b2 := &bytes.Buffer{}, &bytes.Buffer{}
		if err := st.Render(b1); err != nil {
			return err
		}
		if err := st.RenderWithFile(b2, jen.NewFile("q")); err != nil {
			return err
		}
		frags[1], frags[2] = b1.String(), b2.String()
		return nil
	}); perr != nil {
		return fmt.Errorf("%s(%v) rendered as a fragment: %v", c.Val.T, v, perr)
	}
	for i, fr := range frags {
		if err := valueCheck(c, fr); err != nil {
			return fmt.Errorf("rendered as a fragment (%s): %v", []string{"GoString", "Render", "RenderWithFile"}[i], err)
		}
	}
	return nil
}

// valueCheck: text evaluates to a constant of the value and type of the case.
func valueCheck(c Case, text string) error {
	v := c.Val.Go()
	tv, err := litx.Eval(text)
	if err != nil {
		return fmt.Errorf("%s(%v) renders %q which does not evaluate: %v", c.Val.T, v, text, err)
	}
	if tv.Value == nil {
		return fmt.Errorf("%s(%v) renders %q which is not a constant expression", c.Val.T, v, text)
	}
	want := types.Typ[basic[c.Val.T]]
	switch c.Val.T {
	case "bool", "int", "float64", "complex128":
		if !types.Identical(types.Default(tv.Type), want) {
			return fmt.Errorf("%s(%v) renders %q whose default type is %v", c.Val.T, v, text, types.Default(tv.Type))
		}
	default:
		if !types.Identical(tv.Type, want) {
			return fmt.Errorf("%s(%v) renders %q of type %v", c.Val.T, v, text, tv.Type)
		}
	}
	bad := func() error {
		return fmt.Errorf("%s(%v) renders %q whose value is %s", c.Val.T, v, text, tv.Value.ExactString())
	}
	switch x := v.(type) {
	case bool:
		if tv.Value.Kind() != constant.Bool || constant.BoolVal(tv.Value) != x {
			return bad()
		}
	case float64:
		f, _ := constant.Float64Val(constant.ToFloat(tv.Value))
		if constant.ToFloat(tv.Value).Kind() != constant.Float || f != x {
			return bad()
		}
	case float32:
		f, _ := constant.Float32Val(constant.ToFloat(tv.Value))
		if constant.ToFloat(tv.Value).Kind() != constant.Float || f != x {
			return bad()
		}
	case complex128:
		cv := constant.ToComplex(tv.Value)
		re, _ := constant.Float64Val(constant.Real(cv))
		im, _ := constant.Float64Val(constant.Imag(cv))
		if cv.Kind() != constant.Complex || re != real(x) || im != imag(x) {
			return bad()
		}
	case complex64:
		cv := constant.ToComplex(tv.Value)
		re, _ := constant.Float32Val(constant.Real(cv))
		im, _ := constant.Float32Val(constant.Imag(cv))
		if cv.Kind() != constant.Complex || re != real(x) || im != imag(x) {
			return bad()
		}
	default: // integers: exact decimal text
		iv := constant.ToInt(tv.Value)
		if iv.Kind() != constant.Int || iv.ExactString() != string(c.Val.V) {
			return bad()
		}
	}
	return nil
}

// contexts build a statement around the literal (x() yields the literal, a fresh node each time).
var contexts = map[string]func(x func() *recipe.Node) *recipe.Node{
	"if_block": func(x func() *recipe.Node) *recipe.Node {
		return recipe.S().C("If").C("Id", "v").C("Op", "==").Then(x()).C("Block")
	},
	"switch_block": func(x func() *recipe.Node) *recipe.Node { return recipe.S().C("Switch").Then(x()).C("Block") },
	"for_block": func(x func() *recipe.Node) *recipe.Node {
		return recipe.S().C("For").C("Id", "v").C("Op", "<").Then(x()).C("Block", recipe.Id("f").C("Call"))
	},
	"range_block": func(x func() *recipe.Node) *recipe.Node {
		return recipe.S().C("For").C("Id", "i").C("Op", ":=").C("Range").Then(x()).C("Block")
	},
	"case": func(x func() *recipe.Node) *recipe.Node {
		return recipe.S().C("Switch", recipe.Id("v")).C("Block", recipe.S().C("Case", x(), x()).C("Block", recipe.Id("w").C("Op", "=").Then(x())), recipe.S().C("Default").C("Block", recipe.S().C("Return", x())))
	},
	"binary": func(x func() *recipe.Node) *recipe.Node {
		return recipe.Id("w").C("Op", "=").Then(x()).C("Op", "+").Then(x())
	},
	"comment": func(x func() *recipe.Node) *recipe.Node {
		return recipe.Id("w").C("Op", "=").Then(x()).C("Comment", "c")
	},
	"line": func(x func() *recipe.Node) *recipe.Node {
		return recipe.Id("w").C("Op", "=").Then(x()).C("Line").C("Id", "next")
	},
	"values": func(x func() *recipe.Node) *recipe.Node {
		return recipe.S().C("Index").C("Id", "T").C("Values", x(), x())
	},
	"dict": func(x func() *recipe.Node) *recipe.Node {
		return recipe.S().C("Map", recipe.Id("K")).C("Id", "V").C("Values", recipe.Dict(recipe.Pair{K: x(), V: x()}))
	},
	"defs": func(x func() *recipe.Node) *recipe.Node {
		return recipe.S().C("Const").C("Defs", recipe.Id("a").C("Op", "=").Then(x()), recipe.Id("b").C("Id", "T").C("Op", "=").Then(x()))
	},
	// declarations that name a type: the literal keeps its own type whatever the declared one is (an interface
	// holds the value with the type the literal has)
	"var_any": func(x func() *recipe.Node) *recipe.Node {
		return recipe.S().C("Var").C("Id", "V").C("Id", "any").C("Op", "=").Then(x())
	},
	"var_anyfn": func(x func() *recipe.Node) *recipe.Node {
		return recipe.S().C("Var").C("Id", "V").C("Any").C("Op", "=").Then(x())
	},
	"var_named": func(x func() *recipe.Node) *recipe.Node {
		return recipe.S().C("Var").C("Id", "V").C("Id", "Stringer").C("Op", "=").Then(x()).C("Line").C("Var").C("Id", "W").C("Interface").C("Op", "=").Then(x())
	},
	"var_list": func(x func() *recipe.Node) *recipe.Node {
		return recipe.S().C("Var").C("List", recipe.Id("a"), recipe.Id("b")).C("Id", "any").C("Op", "=").C("List", x(), x())
	},
	"index":  func(x func() *recipe.Node) *recipe.Node { return recipe.Id("a").C("Index", x()).C("Index", x(), x()) },
	"parens": func(x func() *recipe.Node) *recipe.Node { return recipe.S().C("Parens", x()).C("Dot", "m").C("Call") },
	"add": func(x func() *recipe.Node) *recipe.Node {
		return recipe.Id("w").C("Op", "=").Add(x()).C("Op", "-").Add(x())
	},
	"go_defer": func(x func() *recipe.Node) *recipe.Node {
		return recipe.S().C("Defer").C("Id", "f").C("Call", x()).C("Line").C("Go").C("Id", "g").C("Call", x())
	},
	"params": func(x func() *recipe.Node) *recipe.Node {
		return recipe.S().C("Func").C("Params").C("Index", x()).C("Id", "T").C("Block", recipe.S().C("Return", recipe.S().C("Index", x()).C("Id", "T").C("Values")))
	},
}

func contextNames() []string {
	var out []string
	for k := range contexts {
		out = append(out, k)
	}
	sort.Strings(out)
	return out
}

// ---- several literals rendered with ONE File ----

type listCase struct {
	Vals []*recipe.Value `json:"vals"`
	// Pkgs: last path elements of packages the same File refers to (names of predeclared types,
	// which must not end up as import names shadowing the types the literals are converted to)
	Pkgs []string `json:"pkgs,omitempty"`
}

// checkList renders all values as elements of one composite literal in one File, cuts the
// output at the element boundaries the parser reports and evaluates every element.
func checkList(c listCase) error {
	var items []*recipe.Node
	for _, v := range c.Vals {
		items = append(items, recipe.S().C("Lit", v))
	}
	fr := &recipe.File{Ctor: "NewFile", Args: []recipe.Text{"p"}, Body: []*recipe.Node{
		recipe.S().C("Var").C("Id", "_").C("Op", "=").C("Index").C("Interface").C("Values", items),
		recipe.S().C("Var").C("Id", "_").C("Op", "=").C("Index").C("Interface").C("Values", items), // and again, same File
	}}
	markers := map[string]string{}
	for i, name := range c.Pkgs {
		path := "example.com/wire/" + name
		m := fmt.Sprintf("S%d", i)
		markers[m] = path
		ref := recipe.S().C("Var").C("Id", "_").C("Op", "=").Add(recipe.Qual(path, m))
		if i%2 == 0 {
			fr.Body = append([]*recipe.Node{ref}, fr.Body...) // referenced before the literals ...
		} else {
			fr.Body = append(fr.Body, ref) // ... or after them
		}
	}
	var src string
	if err := hx.Safe(func() error {
		f := (&recipe.Builder{}).File(fr)
		src = f.GoString()
		return nil
	}); err != nil {
		return fmt.Errorf("rendering %d literals in one File: %v", len(c.Vals), err)
	}
	if len(c.Pkgs) > 0 {
		// the whole file must type-check: a conversion like int32(-7) means the predeclared type
		rep, err := impcheck.Analyze([]byte(src), &impcheck.World{Real: func(string) string { return "zzreal" }, Markers: markers, HasLocal: true})
		if err != nil {
			return err
		}
		if len(rep.TypeErrors) > 0 {
			return fmt.Errorf("a File with typed literals and imports of packages named like types does not type-check: %s\n%s", strings.Join(rep.TypeErrors, "; "), src)
		}
	}
	fset := token.NewFileSet()
	af, err := parser.ParseFile(fset, "", src, 0)
	if err != nil {
		return fmt.Errorf("output does not parse: %v\n%s", err, src)
	}
	n := 0
	var ferr error
	ast.Inspect(af, func(nd ast.Node) bool {
		cl, ok := nd.(*ast.CompositeLit)
		if !ok || ferr != nil {
			return ferr == nil
		}
		if len(cl.Elts) != len(c.Vals) {
			ferr = fmt.Errorf("%d values were given, the literal has %d elements\n%s", len(c.Vals), len(cl.Elts), src)
			return false
		}
		for i, e := range cl.Elts {
			text := src[fset.Position(e.Pos()).Offset:fset.Position(e.End()).Offset]
			alone, err := litx.RenderStmt(recipe.S().C("Lit", c.Vals[i]), nil)
			if err != nil {
				ferr = err
				return false
			}
			if a, b := strings.Join(strings.Fields(text), ""), strings.Join(strings.Fields(alone), ""); a != b {
				ferr = fmt.Errorf("element %d, %s(%v): rendered as %q next to the other literals of this File, as %q alone", i, c.Vals[i].T, c.Vals[i].Go(), text, alone)
				return false
			}
			if err := valueCheck(Case{Val: c.Vals[i]}, text); err != nil {
				ferr = fmt.Errorf("element %d of the list: %v", i, err)
				return false
			}
			n++
		}
		return false
	})
	if ferr != nil {
		return ferr
	}
	if n != 2*len(c.Vals) {
		return fmt.Errorf("expected two literals of %d elements, saw %d elements", len(c.Vals), n)
	}
	return nil
}

func shape(text string) string {
	switch {
	case strings.Contains(text, "e+"):
		return "e+"
	case strings.Contains(text, "e-"):
		return "e-"
	case strings.Contains(text, "0x"):
		return "hex"
	case strings.Contains(text, "."):
		return "dot"
	}
	return "plain"
}

func note(r *hx.Run, c Case) {
	r.Class("type:" + c.Val.T)
	if text, err := litx.RenderStmt(recipe.S().C("Lit", c.Val), nil); err == nil {
		r.Class("shape:" + shape(text))
	}
	switch string(c.Val.V) {
	case "0", "1", "-1", "true", "false":
	default:
		r.NonTrivial(c.Val.T + ":" + string(c.Val.V) + fmt.Sprint(c.Func, c.Ctx))
	}
}

// ---- generators ----

var f64bounds = []float64{0, math.Copysign(0, -1), 1, -1, 0.5, 1.5, math.SmallestNonzeroFloat64, -math.SmallestNonzeroFloat64, math.MaxFloat64, -math.MaxFloat64,
	math.SmallestNonzeroFloat32, math.MaxFloat32, 1 << 53, 1<<53 + 2, 1 << 63, 1 << 64, 1e21, 1e20, 999999999999999900000, 1e-5, 1e-4, 0.00001, 0.000001, 1e-7, 100000, 1e6, 123456789, 2.2250738585072014e-308, 4.9e-324, 1e100, 1e-100, math.Pi, math.E}

func genFloat64(t *rapid.T) float64 {
	switch rapid.IntRange(0, 5).Draw(t, "fkind") {
	case 0:
		return rapid.SampledFrom(f64bounds).Draw(t, "bound")
	case 1: // every decade around the fixed/exponent switch-overs, both signs
		e := rapid.IntRange(-330, 310).Draw(t, "decade")
		m := rapid.SampledFrom([]float64{1, 3, 9.999999999999998, 1.0000000000000002, 5}).Draw(t, "mant")
		f := m * math.Pow(10, float64(e))
		if math.IsInf(f, 0) || math.IsNaN(f) {
			f = math.MaxFloat64
		}
		if rapid.Bool().Draw(t, "neg") {
			f = -f
		}
		return f
	case 2: // integral values
		n := rapid.Int64().Draw(t, "int")
		return float64(n)
	case 3: // small integral / short decimals
		return float64(rapid.IntRange(-100000, 100000).Draw(t, "small")) / float64(rapid.SampledFrom([]int{1, 2, 4, 5, 10, 100, 1000}).Draw(t, "div"))
	}
	for {
		f := math.Float64frombits(rapid.Uint64().Draw(t, "bits"))
		if !math.IsInf(f, 0) && !math.IsNaN(f) {
			return f
		}
	}
}

func genFloat32(t *rapid.T) float32 {
	switch rapid.IntRange(0, 3).Draw(t, "f32kind") {
	case 0:
		return rapid.SampledFrom([]float32{0, float32(math.Copysign(0, -1)), 1, -1, math.SmallestNonzeroFloat32, math.MaxFloat32, -math.MaxFloat32, 1 << 24, 1<<24 + 2, 1e21, 1e-5, 1e-7, 16777216, 0.1, 3.4e38, 1.1754944e-38}).Draw(t, "bound32")
	case 1:
		f := float32(genFloat64(t))
		if math.IsInf(float64(f), 0) {
			return math.MaxFloat32
		}
		return f
	}
	for {
		f := math.Float32frombits(rapid.Uint32().Draw(t, "bits32"))
		if !math.IsInf(float64(f), 0) && !math.IsNaN(float64(f)) {
			return f
		}
	}
}

func genInt(t *rapid.T, bits int, signed bool) (int64, uint64) {
	switch rapid.IntRange(0, 3).Draw(t, "ikind") {
	case 0: // boundaries
		if signed {
			min := int64(-1) << uint(bits-1)
			max := -(min + 1)
			return rapid.SampledFrom([]int64{0, 1, -1, min, max, min + 1, max - 1, 2, -2, 10, -10, 127, 128, 255, 256, -128, -129}).Draw(t, "ibound") % (max + 1), 0
		}
		max := uint64(1)<<uint(bits-1)<<1 - 1
		return 0, rapid.SampledFrom([]uint64{0, 1, 2, 10, 255, 256, max, max - 1, max / 2, max/2 + 1}).Draw(t, "ubound") & max
	case 1: // powers of two +- 1
		sh := rapid.IntRange(0, bits-1).Draw(t, "shift")
		d := rapid.IntRange(-1, 1).Draw(t, "delta")
		if signed {
			v := int64(1)<<uint(sh) + int64(d)
			if sh == bits-1 {
				v = -(int64(1) << uint(sh)) + int64(d+1)
			}
			if rapid.Bool().Draw(t, "ineg") && v != math.MinInt64 {
				v = -v
			}
			return clampS(v, bits), 0
		}
		return 0, (uint64(1)<<uint(sh) + uint64(int64(d))) & (uint64(1)<<uint(bits-1)<<1 - 1)
	default: // random bit-length
		n := rapid.IntRange(1, bits).Draw(t, "bitlen")
		raw := rapid.Uint64().Draw(t, "raw") >> uint(64-n)
		if signed {
			v := int64(raw >> 1)
			if raw&1 == 1 {
				v = -v - 1
			}
			return clampS(v, bits), 0
		}
		return 0, raw
	}
}

func clampS(v int64, bits int) int64 {
	if bits == 64 {
		return v
	}
	min := int64(-1) << uint(bits-1)
	max := -(min + 1)
	if v < min {
		return min
	}
	if v > max {
		return max
	}
	return v
}

func genValue(t *rapid.T) *recipe.Value {
	typ := rapid.SampledFrom([]string{"int", "int32", "int64", "uint", "uint32", "uint64", "uintptr", "float64", "float64", "float64", "float32", "float32", "complex128", "complex64", "int8", "uint8", "int16", "uint16", "bool"}).Draw(t, "type")
	switch typ {
	case "bool":
		return recipe.V(rapid.Bool().Draw(t, "b"))
	case "int":
		s, _ := genInt(t, 64, true)
		return recipe.V(int(s))
	case "int8":
		s, _ := genInt(t, 8, true)
		return recipe.V(int8(s))
	case "int16":
		s, _ := genInt(t, 16, true)
		return recipe.V(int16(s))
	case "int32":
		s, _ := genInt(t, 32, true)
		return recipe.V(int32(s))
	case "int64":
		s, _ := genInt(t, 64, true)
		return recipe.V(s)
	case "uint":
		_, u := genInt(t, 64, false)
		return recipe.V(uint(u))
	case "uint8":
		_, u := genInt(t, 8, false)
		return recipe.V(uint8(u))
	case "uint16":
		_, u := genInt(t, 16, false)
		return recipe.V(uint16(u))
	case "uint32":
		_, u := genInt(t, 32, false)
		return recipe.V(uint32(u))
	case "uint64":
		_, u := genInt(t, 64, false)
		return recipe.V(u)
	case "uintptr":
		_, u := genInt(t, 64, false)
		return recipe.V(uintptr(u))
	case "float64":
		return recipe.V(genFloat64(t))
	case "float32":
		return recipe.V(genFloat32(t))
	case "complex128":
		return recipe.V(complex(genFloat64(t), genFloat64(t)))
	default:
		return recipe.V(complex(genFloat32(t), genFloat32(t)))
	}
}

func TestC11(t *testing.T) {
	r := hx.Start(t, "C11")
	defer r.Finish(t)
	r.Rule("exhaustive: bool, all int8/uint8 values (thorough: all int16/uint16 too; quick: every 37th), every decade 1e-330..1e310 x 5 mantissas x both signs for float64; rapid: boundary values, powers of two +-1 and random bit-lengths for wider integers, subnormals/extremes/integral/short-decimal/random-bit-pattern finite floats, complex from pairs; Lit and LitFunc, alone and embedded in an assignment / a call; lists of 2..30 literals (each value with relatives: swapped / equal complex parts, same bits in another type) rendered twice with one File and compared element by element with their rendering alone; non-trivial = value not in {0, 1, -1, true, false}; distinct by (type, value, form, context)")
	r.Assume("NaN and infinities are outside the property (finite values only); -0.0 and 0.0 are the same Go constant")
	ck := hx.Check[Case]{Name: "literal", Fn: check}
	if !hx.Replay(r, ck) && r.Shard == 0 {
		one := func(v interface{}) {
			for _, fn := range []bool{false, true} {
				c := Case{Val: recipe.V(v), Func: fn}
				hx.One(r, ck, c)
				note(r, c)
			}
		}
		one(true)
		one(false)
		for i := -128; i <= 127; i++ {
			one(int8(i))
		}
		for i := 0; i <= 255; i++ {
			one(uint8(i))
		}
		step := 37
		if r.Thorough() {
			step = 1
		}
		for i := -32768; i <= 32767; i += step {
			one(int16(i))
		}
		for i := 0; i <= 65535; i += step {
			one(uint16(i))
		}
		for e := -330; e <= 310; e++ {
			for _, m := range []float64{1, 3, 9.999999999999998, 1.0000000000000002, 5} {
				f := m * math.Pow(10, float64(e))
				if math.IsInf(f, 0) {
					continue
				}
				one(f)
				one(-f)
				if f32 := float32(f); !math.IsInf(float64(f32), 0) {
					one(f32)
				}
			}
		}
		for _, f := range f64bounds {
			one(f)
			one(complex(f, -f))
		}
		r.Exhaustive("bool, int8, uint8 (thorough: int16, uint16), float64 decades 1e-330..1e310")
	}
	genList := func(rt *rapid.T, lo, hi int) listCase {
		c := listCase{}
		n := rapid.IntRange(lo, hi).Draw(rt, "nvals")
		for len(c.Vals) < n {
			v := genValue(rt)
			c.Vals = append(c.Vals, v)
			// relatives of v that a careless cache or table could confuse with it
			switch x := v.Go().(type) {
			case complex128:
				c.Vals = append(c.Vals, recipe.V(complex(imag(x), real(x))), recipe.V(complex(real(x), real(x))), recipe.V(complex(-real(x), -imag(x))))
			case complex64:
				c.Vals = append(c.Vals, recipe.V(complex(imag(x), real(x))), recipe.V(complex128(x)))
			case float64:
				c.Vals = append(c.Vals, recipe.V(float32(x)), recipe.V(-x), recipe.V(int64(math.Float64bits(x))), recipe.V(math.Float64bits(x)))
			case int64:
				c.Vals = append(c.Vals, recipe.V(uint64(x)), recipe.V(int(x)), recipe.V(int32(x)))
			case uint8:
				c.Vals = append(c.Vals, recipe.V(int8(x)), recipe.V(uint16(x)), recipe.V(int(x)))
			}
		}
		if rapid.IntRange(0, 2).Draw(rt, "typepkgs") == 0 {
			for i := rapid.IntRange(1, 3).Draw(rt, "npkgs"); i > 0; i-- {
				c.Pkgs = append(c.Pkgs, rapid.SampledFrom([]string{"int8", "int16", "int32", "int64", "uint", "uint8", "uint16", "uint32", "uint64", "uintptr", "float32", "float64", "complex64", "complex128", "bool", "string", "byte", "rune", "int"}).Draw(rt, "typepkg"))
			}
			r.Class("literal_lists_with_type_named_imports")
		}
		// only finite values are in the property's domain (float32 of a large float64 is +Inf)
		var finite []*recipe.Value
		for _, v := range c.Vals {
			ok := true
			switch x := v.Go().(type) {
			case float32:
				ok = !math.IsInf(float64(x), 0) && !math.IsNaN(float64(x))
			case float64:
				ok = !math.IsInf(x, 0) && !math.IsNaN(x)
			case complex64:
				ok = !math.IsInf(float64(real(x)), 0) && !math.IsInf(float64(imag(x)), 0) && !math.IsNaN(float64(real(x))) && !math.IsNaN(float64(imag(x)))
			case complex128:
				ok = !math.IsInf(real(x), 0) && !math.IsInf(imag(x), 0) && !math.IsNaN(real(x)) && !math.IsNaN(imag(x))
			}
			if ok {
				finite = append(finite, v)
			}
		}
		c.Vals = finite
		return c
	}
	hx.Rapid(r, t, hx.Check[listCase]{Name: "literals_in_one_file", Fn: checkList}, r.N(1500, 15000), func(rt *rapid.T) listCase {
		c := genList(rt, 2, 9)
		r.NonTrivial(recipe.JSON(c))
		r.Class("literal_lists")
		return c
	})
	// several Files with literal tables rendered at the same time, each by a goroutine of its own that shares
	// nothing with the others: every File still holds its own values
	hx.Rapid(r, t, hx.Check[hx.Batch[listCase]]{Name: "literals_concurrently", Fn: hx.Together(checkList)}, r.N(40, 400), func(rt *rapid.T) hx.Batch[listCase] {
		b := hx.Batch[listCase]{Rounds: 3}
		for i := rapid.IntRange(3, 8).Draw(rt, "files"); i > 0; i-- {
			c := genList(rt, 10, 40)
			c.Pkgs = nil
			if len(c.Vals) > 0 {
				b.Cases = append(b.Cases, c)
			}
		}
		r.NonTrivial(recipe.JSON(b))
		r.Class("literal_tables_rendered_concurrently")
		return b
	})
	hx.Rapid(r, t, hx.Check[Case]{Name: "literal_random", Fn: check}, r.N(15000, 250000), func(rt *rapid.T) Case {
		c := Case{Val: genValue(rt), Func: rapid.IntRange(0, 3).Draw(rt, "func") == 0, Ctx: rapid.SampledFrom(append([]string{"", "", "assign", "call"}, contextNames()...)).Draw(rt, "ctx")}
		note(r, c)
		return c
	})
}
