package c11

import (
	"fmt"
	"go/ast"
	"go/parser"
	"go/token"
	"math"
	"strconv"
	"testing"

	"pgregory.net/rapid"

	"verif/internal/hx"
	"verif/internal/recipe"
)

// tableCase: literals as the values of a keyed table (a Dict of n pairs), or as a long plain list. Each
// literal stays with its key / at its position, with its value and type, whatever the size of the table.
type tableCase struct {
	Vals  []*recipe.Value `json:"vals"`
	Keyed bool            `json:"keyed"`
}

func checkTable(c tableCase) error {
	var lit *recipe.Node
	if c.Keyed {
		var pairs []recipe.Pair
		for i, v := range c.Vals {
			pairs = append(pairs, recipe.Pair{K: recipe.Lit(fmt.Sprintf("k%05d", i)), V: recipe.S().C("Lit", v)})
		}
		lit = recipe.S().C("Map", recipe.S().C("String")).C("Interface").C("Values", recipe.Dict(pairs...))
	} else {
		var items []*recipe.Node
		for _, v := range c.Vals {
			items = append(items, recipe.S().C("Lit", v))
		}
		lit = recipe.S().C("Index").C("Interface").C("Values", items)
	}
	fr := &recipe.File{Ctor: "NewFile", Args: []recipe.Text{"p"}, Body: []*recipe.Node{recipe.S().C("Var").C("Id", "_").C("Op", "=").Then(lit)}}
	var src string
	if err := hx.Safe(func() error { src = (&recipe.Builder{}).File(fr).GoString(); return nil }); err != nil {
		return fmt.Errorf("rendering a table of %d literals: %v", len(c.Vals), err)
	}
	fset := token.NewFileSet()
	af, err := parser.ParseFile(fset, "", src, 0)
	if err != nil {
		return fmt.Errorf("a table of %d literals does not parse: %v", len(c.Vals), err)
	}
	var ferr error
	seen := 0
	ast.Inspect(af, func(nd ast.Node) bool {
		cl, ok := nd.(*ast.CompositeLit)
		if !ok || ferr != nil {
			return ferr == nil
		}
		if len(cl.Elts) != len(c.Vals) {
			ferr = fmt.Errorf("%d literals were given, the table has %d elements", len(c.Vals), len(cl.Elts))
			return false
		}
		for pos, e := range cl.Elts {
			i := pos
			val := e
			if c.Keyed {
				kv, ok := e.(*ast.KeyValueExpr)
				if !ok {
					ferr = fmt.Errorf("element %d is no key: value pair", pos)
					return false
				}
				k, _ := strconv.Unquote(kv.Key.(*ast.BasicLit).Value)
				if _, err := fmt.Sscanf(k, "k%05d", &i); err != nil || i < 0 || i >= len(c.Vals) {
					ferr = fmt.Errorf("unexpected key %q", k)
					return false
				}
				val = kv.Value
			}
			text := src[fset.Position(val.Pos()).Offset:fset.Position(val.End()).Offset]
			if err := valueCheck(Case{Val: c.Vals[i]}, text); err != nil {
				where := fmt.Sprintf("position %d of %d", i, len(c.Vals))
				if c.Keyed {
					where = fmt.Sprintf("key k%05d of a table of %d pairs", i, len(c.Vals))
				}
				ferr = fmt.Errorf("%s: %v", where, err)
				return false
			}
			seen++
		}
		return false
	})
	if ferr != nil {
		return ferr
	}
	if seen != len(c.Vals) {
		return fmt.Errorf("%d literals given, %d found", len(c.Vals), seen)
	}
	return nil
}

func TestC11Tables(t *testing.T) {
	r := hx.Start(t, "C11")
	defer r.Finish(t)
	r.Rule("literal_tables: keyed tables (Dict) of 1..70 and 100..1100 literals and plain lists of up to 8200 literals (sizes around 2^k): every literal is found under its key / at its position with its value and type")
	ck := hx.Check[tableCase]{Name: "literal_tables", Fn: checkTable}
	hx.Rapid(r, t, ck, r.N(110, 600), func(rt *rapid.T) tableCase {
		c := tableCase{Keyed: rapid.IntRange(0, 3).Draw(rt, "keyed") > 0}
		n := rapid.IntRange(1, 70).Draw(rt, "n")
		switch rapid.IntRange(0, 9).Draw(rt, "size") {
		case 0:
			n = rapid.SampledFrom([]int{100, 127, 128, 129, 255, 256, 257, 1000, 1100}).Draw(rt, "big")
		case 1:
			if !c.Keyed {
				n = rapid.SampledFrom([]int{4095, 4096, 4097, 5000, 8191, 8192, 8193}).Draw(rt, "huge")
			}
		}
		for len(c.Vals) < n {
			v := genValue(rt)
			if finite(v) {
				c.Vals = append(c.Vals, v)
			}
			if n > 200 {
				// long tables: mostly small integers of changing types, the drawn values in between
				for k := 0; k < 40 && len(c.Vals) < n; k++ {
					switch (len(c.Vals) + k) % 3 {
					case 0:
						c.Vals = append(c.Vals, recipe.V(len(c.Vals)))
					case 1:
						c.Vals = append(c.Vals, recipe.V(int16(len(c.Vals)%30000)))
					default:
						c.Vals = append(c.Vals, recipe.V(float64(len(c.Vals))+0.5))
					}
				}
			}
		}
		r.NonTrivial(fmt.Sprintf("%v/%d/%s", c.Keyed, len(c.Vals), recipe.JSON(c.Vals[0])))
		if n > 4000 {
			r.Class("tables_over_4000")
		} else if n > 12 {
			r.Class("tables_over_12")
		}
		return c
	})
}

// finite: the value is inside the property's domain.
func finite(v *recipe.Value) bool {
	switch x := v.Go().(type) {
	case float32:
		return !math.IsInf(float64(x), 0) && !math.IsNaN(float64(x))
	case float64:
		return !math.IsInf(x, 0) && !math.IsNaN(x)
	case complex64:
		return !math.IsInf(float64(real(x)), 0) && !math.IsInf(float64(imag(x)), 0) && !math.IsNaN(float64(real(x))) && !math.IsNaN(float64(imag(x)))
	case complex128:
		return !math.IsInf(real(x), 0) && !math.IsInf(imag(x), 0) && !math.IsNaN(real(x)) && !math.IsNaN(imag(x))
	}
	return true
}
