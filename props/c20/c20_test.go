// C20 Clone isolation: clones and originals never corrupt each other.
//
// Generated: histories of appends (of varying lengths and through different
// builder methods, so that slice capacity is and is not exhausted) to an
// original statement and to any number of possibly nested clones.
// Oracle: a list model. Two semantics of Clone satisfy the property — the
// clone is a live view of its original plus its own tokens (what the pinned
// code does: it wraps a pointer), or the clone is a snapshot plus its own
// tokens (a copying implementation). Both are modelled; every statement must
// agree with one of them after every step, and the parts of the property that
// do not depend on the choice (the original only ever shows its own tokens, a
// clone's own tokens are its suffix in order, a fresh clone equals its
// original) are the same in both.
package c20

import (
	"bytes"
	"fmt"
	"go/scanner"
	"go/token"
	"io"
	"regexp"
	"strings"
	"testing"

	"github.com/dave/jennifer/jen"
	"pgregory.net/rapid"

	"verif/internal/hx"
)

type Op struct {
	Kind   string `json:"kind"` // "append" | "clone" | "doclone" (Clone of the callback parameter inside Do, with appends before and after it in the callback) | "addstmt" (Add of another live statement, Arg)
	Arg    int    `json:"arg,omitempty"`
	Target int    `json:"target"` // index into the list of live statements (taken modulo its length)
	Via    string `json:"via,omitempty"`
	N      int    `json:"n,omitempty"` // number of items for via=add
}

type Case struct {
	Init int  `json:"init"` // tokens in the original before the history starts
	Ops  []Op `json:"ops"`
}

var vias = []string{"id", "op", "lit", "litfunc", "idexpr", "dot", "call", "add", "index", "qual", "qualconf", "tag", "tag", "caseblock", "defaultblock", "casehead", "defaulthead", "blockafter", "blockafter"}

func genCase(maxOps int) func(t *rapid.T) Case {
	return func(t *rapid.T) Case {
		c := Case{Init: rapid.IntRange(0, 9).Draw(t, "init")}
		n := rapid.IntRange(1, maxOps).Draw(t, "nops")
		live := 1
		for i := 0; i < n; i++ {
			if rapid.IntRange(0, 3).Draw(t, "isclone") == 0 {
				kind := "clone"
				if rapid.IntRange(0, 4).Draw(t, "indo") == 0 {
					kind = "doclone"
				}
				c.Ops = append(c.Ops, Op{Kind: kind, Target: rapid.IntRange(0, live-1).Draw(t, "target"), N: rapid.IntRange(0, 2).Draw(t, "docall")})
				live++
				continue
			}
			if rapid.IntRange(0, 99).Draw(t, "chain") == 57 {
				// a long chain of clones of clones, each with a token of its own; only the last one is kept
				c.Ops = append(c.Ops, Op{Kind: "clonechain", Target: rapid.IntRange(0, live-1).Draw(t, "target"), N: rapid.SampledFrom([]int{20, 64, 99, 100, 101, 130}).Draw(t, "chainlen")})
				live++
				continue
			}
			if rapid.IntRange(0, 11).Draw(t, "groupadd") == 5 {
				// the statement is handed to a group (a File, or the group of a BlockFunc callback) and tokens are
				// chained onto what Group.Add returns
				c.Ops = append(c.Ops, Op{Kind: "groupadd", Target: rapid.IntRange(0, live-1).Draw(t, "target"), N: rapid.IntRange(0, 3).Draw(t, "how")})
				live++
				continue
			}
			if rapid.IntRange(0, 11).Draw(t, "spread") == 5 {
				// one slice of items (a nil among them) handed to a variadic construct on two statements
				c.Ops = append(c.Ops, Op{Kind: "spread", Target: rapid.IntRange(0, live-1).Draw(t, "target"), Arg: rapid.IntRange(0, live-1).Draw(t, "arg"), Via: rapid.SampledFrom([]string{"call", "index", "add", "block", "list"}).Draw(t, "spreadvia"), N: rapid.IntRange(0, 7).Draw(t, "nilat")})
				continue
			}
			if live > 1 && rapid.IntRange(0, 7).Draw(t, "addstmt") == 0 {
				c.Ops = append(c.Ops, Op{Kind: "addstmt", Target: rapid.IntRange(0, live-1).Draw(t, "target"), Arg: rapid.IntRange(0, live-1).Draw(t, "arg")})
				continue
			}
			op := Op{Kind: "append", Target: rapid.IntRange(0, live-1).Draw(t, "target"), Via: rapid.SampledFrom(vias).Draw(t, "via")}
			if op.Via == "add" {
				op.N = rapid.IntRange(0, 9).Draw(t, "n")
			}
			c.Ops = append(c.Ops, op)
		}
		return c
	}
}

type st struct {
	s      *jen.Statement
	parent int      // -1 for the original
	snap   []string // snapshot model: content of the parent at clone time (references unexpanded)
	own    []string // tokens appended to this statement itself; "\x00<j>" stands for statement j added with Add
	// snapCase: what the original showed when this clone was taken ended in a Case / Default head. A Block
	// appended to the clone before anything else then follows that head directly if the clone holds a copy of
	// the items (no braces), and follows a wrapped statement if the clone is a view (braces): the braces of
	// such a Block are written "\x01{" and "\x01}" in own and expanded per model.
	snapCase bool
}

func render(s *jen.Statement) ([]string, error) {
	f := jen.NewFile("p")
	f.NoFormat = true
	f.Add(jen.Id("ZZSTART"))
	f.Add(s)
	buf := &bytes.Buffer{}
	if err := f.Render(buf); err != nil {
		return nil, err
	}
	src := buf.Bytes()
	fs := token.NewFileSet()
	file := fs.AddFile("", fs.Base(), len(src))
	var sc scanner.Scanner
	sc.Init(file, src, nil, 0)
	var toks []string
	for {
		_, tok, lit := sc.Scan()
		if tok == token.EOF {
			break
		}
		if tok == token.SEMICOLON && lit == "\n" {
			continue
		}
		if lit == "" {
			lit = tok.String()
		}
		toks = append(toks, confName(lit))
	}
	if len(toks) < 2 || toks[0] != "package" || toks[1] != "p" {
		return nil, fmt.Errorf("unexpected file head %q", toks)
	}
	// (an import block may stand between the package clause and the first item)
	for i, t := range toks {
		if t == "ZZSTART" {
			return toks[i+1:], nil
		}
	}
	return nil, fmt.Errorf("start marker not found in %q", toks)
}

// selfContained reports whether s can be reached from itself through *Statement items.
func selfContained(s *jen.Statement, onPath map[*jen.Statement]bool) bool {
	if s == nil {
		return false
	}
	if onPath[s] {
		return true
	}
	onPath[s] = true
	defer delete(onPath, s)
	for _, c := range *s {
		if st, ok := c.(*jen.Statement); ok && selfContained(st, onPath) {
			return true
		}
	}
	return false
}

func scanLine(line string) ([]string, error) {
	src := []byte(line)
	fs := token.NewFileSet()
	file := fs.AddFile("", fs.Base(), len(src))
	var sc scanner.Scanner
	sc.Init(file, src, nil, 0)
	var toks []string
	for {
		_, tok, lit := sc.Scan()
		if tok == token.EOF {
			break
		}
		if tok == token.SEMICOLON && lit == "\n" {
			continue
		}
		if lit == "" {
			lit = tok.String()
		}
		toks = append(toks, confName(lit))
	}
	return toks, nil
}

var confRe = regexp.MustCompile(`^conf[0-9]+$`)

// confName: conf1, conf2, ... are read as conf (which of two packages called conf gets the bare name depends on
// the File, not on the statement).
func confName(t string) string {
	if confRe.MatchString(t) {
		return "conf"
	}
	return t
}

type failingWriter struct{}

func (failingWriter) Write(p []byte) (int, error) { return 0, fmt.Errorf("writer fails") }

func check(c Case) error {
	counter := 0
	next := func() string {
		counter++
		if counter%3 == 0 {
			// long names of one length that agree in their first forty bytes
			return fmt.Sprintf("OrganizationsLocationsRepositoriesPackagesGet%05dCall", counter)
		}
		return fmt.Sprintf("t%d", counter)
	}
	// apply appends one token-producing call and returns the tokens it must add
	// endsInCase: the statement's own last item is a Case group or the default keyword (then a Block appended
	// next renders as a clause body, without braces); a fresh clone's only item is the statement it wraps
	endsInCase := map[*jen.Statement]bool{}
	hasOwn := map[*jen.Statement]bool{} // something was appended to the statement itself since it was created
	hasConf := map[*jen.Statement]bool{}
	// fragment: the statement rendered on its own (Statement.Render) right after a fragment of another
	// statement failed to render gives what RenderWithFile with a fresh File gives
	fragment := func(step int, s *jen.Statement) error {
		func() {
			defer func() { _ = recover() }()
			_ = jen.Qual("example.com/zero/conf", "Z").Op(")").Render(io.Discard)
			_ = jen.Qual("example.com/zero/conf", "Z").Render(failingWriter{})
		}()
		b1, b2 := &bytes.Buffer{}, &bytes.Buffer{}
		var e1, e2 error
		if perr := hx.Safe(func() error { e1 = s.Render(b1); e2 = s.RenderWithFile(b2, jen.NewFile("")); return nil }); perr != nil {
			return nil
		}
		if e1 == nil && e2 == nil && !bytes.Equal(b1.Bytes(), b2.Bytes()) {
			return fmt.Errorf("step %d: a statement rendered with Statement.Render, right after a fragment of another statement had failed to render, gives %q; RenderWithFile with a fresh File gives %q", step, b1.Bytes(), b2.Bytes())
		}
		return nil
	}
	var list []*st
	entry := func(s *jen.Statement) *st {
		for _, x := range list {
			if x.s == s {
				return x
			}
		}
		return nil
	}
	// endsCase: the content of the statement, as a copy of all items would hold it, ends in a clause head
	endsCase := func(x *st) bool {
		if x == nil {
			return false
		}
		if hasOwn[x.s] {
			return endsInCase[x.s]
		}
		return x.parent >= 0 && x.snapCase
	}
	// braces of a Block appended to s now
	braces := func(s *jen.Statement) (open, close []string) {
		if hasOwn[s] {
			if endsInCase[s] {
				return nil, nil
			}
			return []string{"{"}, []string{"}"}
		}
		if x := entry(s); x != nil && x.parent >= 0 && x.snapCase {
			return []string{"\x01{"}, []string{"\x01}"}
		}
		return []string{"{"}, []string{"}"}
	}
	var apply func(s *jen.Statement, via string, n int) []string
	apply0 := func(s *jen.Statement, via string, n int) []string {
		switch via {
		case "casehead":
			a := next()
			s.Case(jen.Id(a))
			return []string{"case", a, ":"}
		case "defaulthead":
			s.Default()
			return []string{"default", ":"}
		case "blockafter":
			a := next()
			open, close := braces(s)
			s.Block(jen.Id(a))
			return append(append(open, a), close...)
		}
		return nil
	}
	apply1 := func(s *jen.Statement, via string, n int) []string {
		switch via {
		case "id":
			a := next()
			s.Id(a)
			return []string{a}
		case "op":
			a := next()
			s.Op(a)
			return []string{a}
		case "lit":
			counter++
			s.Lit(1000000 + counter)
			return []string{fmt.Sprint(1000000 + counter)}
		case "litfunc":
			// the value comes from a callback that hands out numbers: asked once, when the token is appended
			counter++
			base := 2000000 + counter*10
			calls := 0
			s.LitFunc(func() interface{} { calls++; return base + calls - 1 })
			return []string{fmt.Sprint(base)}
		case "idexpr":
			// an identifier token whose text is an expression (a caller's shortcut)
			a, b := next(), next()
			s.Id(a + "+" + b + "*2")
			return []string{a, "+", b, "*", "2"}
		case "dot":
			a := next()
			s.Dot(a)
			return []string{".", a}
		case "call":
			a, b := next(), next()
			s.Call(jen.Id(a), jen.Id(b))
			return []string{"(", a, ",", b, ")"}
		case "caseblock": // a case clause: the Block directly after Case renders without braces
			a, b := next(), next()
			s.Case(jen.Id(a)).Block(jen.Id(b))
			return []string{"case", a, ":", b}
		case "defaultblock":
			a := next()
			s.Default().Block(jen.Id(a))
			return []string{"default", ":", a}
		case "tag":
			a := next()
			s.Tag(map[string]string{"k": a})
			return []string{"`k:\"" + a + "\"`"}
		case "index":
			a := next()
			s.Index(jen.Id(a))
			return []string{"[", a, "]"}
		case "qual":
			a := next()
			s.Qual("", a) // the empty path is the local path of NewFile("p"): renders bare
			return []string{a}
		case "qualconf":
			// two packages called conf: whichever a File meets first is conf there, the other conf1 (rendered
			// names are compared with the digits removed, see confName)
			a := next()
			s.Qual([]string{"example.com/one/conf", "example.com/two/conf"}[counter%2], a)
			hasConf[s] = true
			return []string{"conf", ".", a}
		case "add":
			var items []jen.Code
			var toks []string
			for i := 0; i < n; i++ {
				a := next()
				items = append(items, jen.Id(a))
				toks = append(toks, a)
			}
			s.Add(items...)
			return toks
		}
		panic("via " + via)
	}
	apply = func(s *jen.Statement, via string, n int) []string {
		before := len(*s)
		var toks []string
		switch via {
		case "casehead", "defaulthead", "blockafter":
			toks = apply0(s, via, n)
		default:
			toks = apply1(s, via, n)
		}
		if len(*s) != before {
			endsInCase[s] = via == "casehead" || via == "defaulthead"
			hasOwn[s] = true
		}
		return toks
	}
	orig := &jen.Statement{}
	list = []*st{{s: orig, parent: -1}}
	for i := 0; i < c.Init; i++ {
		list[0].own = append(list[0].own, apply(orig, "id", 0)...)
	}
	// the two models give a statement's content with references to other statements unexpanded
	var liveU func(i int) []string
	liveU = func(i int) []string {
		x := list[i]
		if x.parent < 0 {
			return append([]string{}, x.own...)
		}
		return append(liveU(x.parent), x.own...)
	}
	snapU := func(i int) []string {
		x := list[i]
		if x.parent < 0 {
			return append([]string{}, x.own...)
		}
		return append(append([]string{}, x.snap...), x.own...)
	}
	// a reference renders as whatever the referenced statement renders now (observed in the same pass
	// and itself judged against its own models)
	expand := func(content []string, cur [][]string, live bool) string {
		var out []string
		for _, t := range content {
			if strings.HasPrefix(t, "\x01") {
				if live {
					out = append(out, t[1:])
				}
				continue
			}
			if strings.HasPrefix(t, "\x00") {
				j := 0
				fmt.Sscanf(t[1:], "%d", &j)
				out = append(out, cur[j]...)
				continue
			}
			out = append(out, t)
		}
		return strings.Join(out, " ")
	}
	// deps: the statements whose content shows in statement j (itself, what it views, what it holds)
	var deps func(j int, seen map[int]bool)
	deps = func(j int, seen map[int]bool) {
		if seen[j] {
			return
		}
		seen[j] = true
		if list[j].parent >= 0 {
			deps(list[j].parent, seen)
		}
		for _, t := range append(append([]string{}, list[j].snap...), list[j].own...) {
			if strings.HasPrefix(t, "\x00") {
				k := 0
				fmt.Sscanf(t[1:], "%d", &k)
				deps(k, seen)
			}
		}
	}
	// Clone may give a live view of the original or a snapshot of it; whichever it is, it is the same
	// for every clone of the history
	liveOK, snapOK := true, true
	judge := func(step int, what, where string, i int, g string, cur [][]string) error {
		l, sn := expand(liveU(i), cur, true), expand(snapU(i), cur, false)
		if g != l && g != sn {
			return fmt.Errorf("step %d (%s): %s statement %d (parent %d) renders %q; want %q (clone is a view of its original) or %q (clone is a snapshot)", step, what, where, i, list[i].parent, g, l, sn)
		}
		if g != l {
			liveOK = false
		}
		if g != sn {
			snapOK = false
		}
		if !liveOK && !snapOK {
			return fmt.Errorf("step %d (%s): %s statement %d (parent %d) renders %q, which is %q as a view of its original and %q as a snapshot — but earlier in this history another clone behaved the other way: Clone has no consistent meaning", step, what, where, i, list[i].parent, g, l, sn)
		}
		return nil
	}
	// second observation channel: one File that holds every statement (added when it is created)
	// and is rendered after every step — what a File remembers between renders must not go stale
	pf := jen.NewFile("p")
	pf.NoFormat = true
	pf.Add(jen.Id("ZZSEP"))
	pf.Add(orig)
	renderAll := func() ([][]string, error) {
		buf := &bytes.Buffer{}
		if err := pf.Render(buf); err != nil {
			return nil, err
		}
		body := buf.String()
		if i := strings.Index(body, "ZZSEP"); i >= 0 {
			body = body[i:] // (package clause and import block cut off)
		}
		toks, err := scanLine(body)
		if err != nil {
			return nil, err
		}
		var out [][]string
		for _, t := range toks {
			if t == "ZZSEP" {
				out = append(out, nil)
				continue
			}
			if len(out) == 0 {
				return nil, fmt.Errorf("output does not start with the separator: %q", buf.String())
			}
			out[len(out)-1] = append(out[len(out)-1], t)
		}
		return out, nil
	}
	verify := func(step int, what string) error {
		// the history never adds a statement to something that shows it; if the objects now form a cycle
		// all the same (two statements sharing storage), rendering would recurse without end
		for i, x := range list {
			if selfContained(x.s, map[*jen.Statement]bool{}) {
				return fmt.Errorf("step %d (%s): statement %d now contains itself although nothing it shows was ever added to it: storage is shared between statements", step, what, i)
			}
		}
		{
			lines, err := renderAll()
			if err != nil {
				return fmt.Errorf("step %d (%s): File holding all statements: %v", step, what, err)
			}
			if len(lines) != len(list) {
				return fmt.Errorf("step %d (%s): the File holding all %d statements renders %d lines", step, what, len(list), len(lines))
			}
			for i := range list {
				if err := judge(step, what, "in a File rendered after every step,", i, strings.Join(lines[i], " "), lines); err != nil {
					return err
				}
			}
		}
		cur := make([][]string, len(list))
		for i, x := range list {
			got, err := render(x.s)
			if err != nil {
				return fmt.Errorf("step %d (%s): statement %d: render error %v", step, what, i, err)
			}
			cur[i] = got
		}
		for i := range list {
			if err := judge(step, what, "", i, strings.Join(cur[i], " "), cur); err != nil {
				return err
			}
		}
		return nil
	}
	if err := verify(-1, "init"); err != nil {
		return err
	}
	for step, op := range c.Ops {
		i := op.Target % len(list)
		switch op.Kind {
		case "clone":
			// the snapshot is whatever the parent renders right now
			cur, err := render(list[i].s)
			if err != nil {
				return err
			}
			cl := list[i].s.Clone()
			list = append(list, &st{s: cl, parent: i, snap: snapU(i), snapCase: endsCase(list[i])})
			pf.Add(jen.Id("ZZSEP"))
			pf.Add(cl)
			// (also as fragments: Statement.Render of the original and of its fresh clone succeed or fail together and
			// give the same bytes)
			{
				b1, b2 := &bytes.Buffer{}, &bytes.Buffer{}
				var e1, e2 error
				if perr := hx.Safe(func() error { e1 = list[i].s.Render(b1); e2 = cl.Render(b2); return nil }); perr == nil {
					if (e1 == nil) != (e2 == nil) || e1 == nil && !bytes.Equal(b1.Bytes(), b2.Bytes()) {
						return fmt.Errorf("step %d: Statement.Render of statement %d gives %q (error: %v), of its fresh clone %q (error: %v)", step, i, b1.Bytes(), e1 != nil, b2.Bytes(), e2 != nil)
					}
				}
			}
			got, err := render(cl)
			if err != nil {
				return err
			}
			if strings.Join(got, " ") != strings.Join(cur, " ") {
				return fmt.Errorf("step %d: fresh clone of statement %d renders %q, original renders %q", step, i, got, cur)
			}
		case "doclone":
			// Clone of the callback parameter inside Do: it is a clone of the statement Do was called on
			var cl *jen.Statement
			var cur, atClone []string
			var atCloneCase bool
			var rerr error
			list[i].s.Do(func(s *jen.Statement) {
				for k := 0; k < op.N; k++ {
					list[i].own = append(list[i].own, apply(s, "id", 0)...)
				}
				cur, rerr = render(s)
				atClone = snapU(i)
				atCloneCase = endsCase(list[i])
				cl = s.Clone()
				for k := 0; k < op.N; k++ {
					list[i].own = append(list[i].own, apply(s, "dot", 0)...)
				}
			})
			if rerr != nil {
				return rerr
			}
			_ = cur
			list = append(list, &st{s: cl, parent: i, snap: atClone, snapCase: atCloneCase})
			pf.Add(jen.Id("ZZSEP"))
			pf.Add(cl)
		case "clonechain":
			at := snapU(i)
			cur := list[i].s
			var own []string
			for k := 0; k < op.N; k++ {
				cur = cur.Clone()
				own = append(own, apply(cur, "dot", 0)...)
			}
			hasOwn[cur] = true
			list = append(list, &st{s: cur, parent: i, snap: at, own: own})
			pf.Add(jen.Id("ZZSEP"))
			pf.Add(cur)
		case "addstmt":
			j := op.Arg % len(list)
			seen := map[int]bool{}
			deps(j, seen)
			if seen[i] {
				// statement j shows statement i: adding it to i would make i contain itself
				list[i].own = append(list[i].own, apply(list[i].s, "id", 0)...)
			} else {
				list[i].s.Op("+").Add(list[j].s)
				endsInCase[list[i].s] = false
				hasOwn[list[i].s] = true
				list[i].own = append(list[i].own, "+", fmt.Sprintf("\x00%d", j))
			}
		case "groupadd":
			// g.Add(x) appends a statement holding x to the group and returns that statement: what is chained
			// onto the result is no business of x
			var w *jen.Statement
			if op.N%2 == 0 {
				hf := jen.NewFile("h")
				w = hf.Add(list[i].s)
			} else {
				jen.BlockFunc(func(g *jen.Group) { w = g.Add(list[i].s) })
			}
			if w == nil {
				return fmt.Errorf("step %d: Group.Add returned nil", step)
			}
			own := []string{fmt.Sprintf("\x00%d", i)}
			list = append(list, &st{s: w, parent: -1})
			k := len(list) - 1
			for n := 0; n <= op.N/2; n++ {
				own = append(own, apply(w, "dot", 0)...)
			}
			list[k].own = own
			pf.Add(jen.Id("ZZSEP"))
			pf.Add(w)
		case "spread":
			// the caller's slice: three items and a nil somewhere, room to grow
			j := op.Arg % len(list)
			a, b, d := next(), next(), next()
			items := make([]jen.Code, 0, 8)
			items = append(items, jen.Id(a), jen.Id(b), jen.Id(d))
			at := op.N % 4
			items = append(items[:at], append([]jen.Code{nil}, items[at:]...)...)
			var toks []string
			for _, tgt := range []int{i, j} {
				s := list[tgt].s
				open, close := braces(s)
				switch op.Via {
				case "call":
					s.Call(items...)
					toks = []string{"(", a, ",", b, ",", d, ")"}
				case "index":
					s.Index(items...)
					toks = []string{"[", a, ":", b, ":", d, "]"}
				case "list":
					s.List(items...)
					toks = []string{a, ",", b, ",", d}
				case "block":
					s.Block(items...)
					toks = append(append(append([]string{}, open...), a, b, d), close...)
				default:
					s.Add(items...)
					toks = []string{a, b, d}
				}
				endsInCase[s] = false
				hasOwn[s] = true
				list[tgt].own = append(list[tgt].own, toks...)
			}
		case "append":
			list[i].own = append(list[i].own, apply(list[i].s, op.Via, op.N)...)
			if op.Via == "qualconf" {
				for _, x := range list {
					if hasConf[x.s] || x.parent == i {
						if err := fragment(step, x.s); err != nil {
							return err
						}
					}
				}
			}
		}
		if err := verify(step, op.Kind); err != nil {
			return err
		}
	}
	return nil
}

// classify computes the non-triviality rule and class labels of a history.
func classify(r *hx.Run, c Case) {
	type info struct{ parent, depth, lenAtClone int }
	lens := []int{c.Init}
	infos := []info{{-1, 0, 0}}
	appendedAfter := map[int]map[int]bool{} // clone index -> which side got appends after the clone (0 parent, 1 clone)
	maxDepth, interleave := 0, 0
	lastSide := map[int]int{}
	for _, op := range c.Ops {
		i := op.Target % len(lens)
		if op.Kind == "groupadd" {
			infos = append(infos, info{-1, 0, 0})
			lens = append(lens, 1)
			continue
		}
		if op.Kind == "clone" || op.Kind == "doclone" || op.Kind == "clonechain" {
			infos = append(infos, info{i, infos[i].depth + 1, lens[i]})
			lens = append(lens, lens[i])
			if infos[len(infos)-1].depth > maxDepth {
				maxDepth = infos[len(infos)-1].depth
			}
			continue
		}
		lens[i]++
		for ci, in := range infos {
			if in.parent < 0 {
				continue
			}
			side := -1
			if ci == i {
				side = 1
			} else if in.parent == i {
				side = 0
			}
			if side >= 0 {
				if appendedAfter[ci] == nil {
					appendedAfter[ci] = map[int]bool{}
				}
				appendedAfter[ci][side] = true
				if prev, ok := lastSide[ci]; ok && prev != side {
					interleave++
				}
				lastSide[ci] = side
			}
		}
	}
	nontrivial := false
	for ci, in := range infos {
		if in.parent >= 0 && in.lenAtClone >= 3 && appendedAfter[ci][0] && appendedAfter[ci][1] {
			nontrivial = true
		}
	}
	for _, op := range c.Ops {
		if op.Kind == "doclone" {
			r.Class("clone_inside_Do")
			break
		}
	}
	for _, op := range c.Ops {
		if op.Kind == "clonechain" {
			r.Class(fmt.Sprintf("clone_chain_of_%d", op.N))
		}
	}
	for _, op := range c.Ops {
		if op.Kind == "addstmt" {
			r.Class("statement_added_to_statement")
			break
		}
	}
	for _, op := range c.Ops {
		if op.Kind == "groupadd" {
			r.Class("statement_added_to_group_and_result_chained")
			break
		}
	}
	for _, op := range c.Ops {
		if op.Kind == "spread" {
			r.Class("one_item_slice_given_to_two_statements")
			break
		}
	}
	r.Class(fmt.Sprintf("clone_depth_%d", min(maxDepth, 4)))
	switch {
	case interleave == 0:
		r.Class("interleavings_0")
	case interleave < 4:
		r.Class("interleavings_1-3")
	default:
		r.Class("interleavings_4+")
	}
	if nontrivial {
		r.Class("nontrivial")
		r.NonTrivial(fmt.Sprintf("%+v", c))
	}
}

func TestC20(t *testing.T) {
	r := hx.Start(t, "C20")
	defer r.Finish(t)
	r.Rule("rapid-generated histories of append/clone operations (appends via Id, Op, Lit, Dot, Call, Index, Qual, Tag, Case+Block, Default+Block, Case / Default alone and a Block appended later, Add with 0..9 items, Add of another statement of the history; Group.Add of a statement with tokens chained onto the result; one caller slice holding a nil handed to Call / Index / List / Block / Add on two statements; chains of 20..130 clones of clones; clones also taken of the callback parameter inside Do, with appends before and after in the callback; every statement is rendered on its own through a fresh File and, as a line of one File that holds all statements and is rendered after every step); non-trivial = the history has a clone taken when its original had >= 3 items, followed by appends to both the original and that clone; distinct by the full history")
	r.Assume("go/scanner token stream of a NoFormat File render is taken as 'the rendering' of a statement")
	maxOps := 60
	if r.Thorough() {
		maxOps = 120
	}
	ck := hx.Check[Case]{Name: "history", Fn: check}
	hx.Rapid(r, t, ck, r.N(1500, 1200), func(rt *rapid.T) Case {
		c := genCase(maxOps)(rt)
		classify(r, c)
		return c
	})
}
