package c03

import (
	"bytes"
	"fmt"
	"go/ast"
	"go/parser"
	"go/token"
	"strconv"
	"testing"

	"github.com/dave/jennifer/jen"
	"pgregory.net/rapid"

	"verif/internal/hx"
)

// dottedCase: qualified identifiers whose name is itself a selector chain (Qual(p, "V2.Client") renders
// p.V2.Client) next to packages whose path ends like that chain begins ("…/api.V2" and "Client"). The two
// are different references however alike they look once written out.
type dottedCase struct {
	Nonce int      `json:"nonce"` // makes the paths new to the process
	Base  string   `json:"base"`
	Mid   string   `json:"mid"`
	Name  string   `json:"name"`
	Order []string `json:"order"` // "dotted-name" | "dotted-path" | "plain", in the order they are built; may span two Files
	Split bool     `json:"split"` // the second and later references go into a second File
}

func checkDotted(c dottedCase) error {
	base := fmt.Sprintf("n%d.example/%s", c.Nonce, c.Base)
	type ref struct{ path, name string }
	refs := map[string]ref{
		"dotted-name": {base, c.Mid + "." + c.Name},       // base . Mid.Name
		"dotted-path": {base + "." + c.Mid, c.Name},        // (base.Mid) . Name
		"plain":       {base + "/" + c.Mid, c.Name + "2"}, // something unrelated
	}
	files := []*jen.File{jen.NewFile("p")}
	if c.Split {
		files = append(files, jen.NewFile("q"))
	}
	want := make([][]ref, len(files))
	for i, kind := range c.Order {
		fi := 0
		if c.Split && i > 0 {
			fi = 1
		}
		r := refs[kind]
		files[fi].Var().Id("_").Op("=").Qual(r.path, r.name)
		want[fi] = append(want[fi], r)
	}
	for fi, f := range files {
		if len(want[fi]) == 0 {
			continue
		}
		buf := &bytes.Buffer{}
		var err error
		if perr := hx.Safe(func() error { err = f.Render(buf); return nil }); perr != nil {
			return perr
		}
		if err != nil {
			return fmt.Errorf("File %d does not render: %v", fi, err)
		}
		af, err := parser.ParseFile(token.NewFileSet(), "", buf.Bytes(), 0)
		if err != nil {
			return fmt.Errorf("output does not parse: %v\n%s", err, buf.Bytes())
		}
		nameOf := map[string]string{} // import name -> path
		for _, is := range af.Imports {
			p, _ := strconv.Unquote(is.Path.Value)
			if is.Name == nil {
				return fmt.Errorf("import %q has no explicit name although its package name can only be guessed\n%s", p, buf.Bytes())
			}
			nameOf[is.Name.Name] = p
		}
		k := 0
		for _, d := range af.Decls {
			gd, ok := d.(*ast.GenDecl)
			if !ok || gd.Tok != token.VAR {
				continue
			}
			expr := gd.Specs[0].(*ast.ValueSpec).Values[0]
			// flatten the selector chain
			var parts []string
			for {
				se, ok := expr.(*ast.SelectorExpr)
				if !ok {
					break
				}
				parts = append([]string{se.Sel.Name}, parts...)
				expr = se.X
			}
			id, ok := expr.(*ast.Ident)
			if !ok || k >= len(want[fi]) {
				return fmt.Errorf("unexpected declaration in\n%s", buf.Bytes())
			}
			w := want[fi][k]
			k++
			gotPath, gotName := nameOf[id.Name], ""
			for i, p := range parts {
				if i > 0 {
					gotName += "."
				}
				gotName += p
			}
			if gotPath != w.path || gotName != w.name {
				return fmt.Errorf("Qual(%q, %q) was built, the output refers to %q of package %q\n%s", w.path, w.name, gotName, gotPath, buf.Bytes())
			}
		}
		if k != len(want[fi]) {
			return fmt.Errorf("%d references were built into File %d, %d are in the output\n%s", len(want[fi]), fi, k, buf.Bytes())
		}
	}
	return nil
}

func TestC03Dotted(t *testing.T) {
	r := hx.Start(t, "C03")
	defer r.Finish(t)
	r.Rule("dotted_names: Qual(base, \"Mid.Name\") and Qual(base+\".Mid\", \"Name\") (and an unrelated third reference) built in every order, in one File or spread over two, with paths new to the process; each reference must come out with the path and the name it was built with")
	hx.Rapid(r, t, hx.Check[dottedCase]{Name: "dotted_names", Fn: checkDotted}, r.N(300, 3000), func(rt *rapid.T) dottedCase {
		c := dottedCase{
			Nonce: rapid.IntRange(0, 1<<30).Draw(rt, "nonce"),
			Base:  rapid.SampledFrom([]string{"api", "x/api", "v1", "a.b"}).Draw(rt, "base"),
			Mid:   rapid.SampledFrom([]string{"V2", "v2", "Sub", "x"}).Draw(rt, "mid"),
			Name:  rapid.SampledFrom([]string{"Client", "New", "X"}).Draw(rt, "name"),
			Split: rapid.Bool().Draw(rt, "split"),
		}
		c.Order = rapid.Permutation([]string{"dotted-name", "dotted-path", "plain"}).Draw(rt, "order")
		c.Order = c.Order[:rapid.IntRange(2, 3).Draw(rt, "n")]
		r.NonTrivial(fmt.Sprintf("%+v", c))
		r.Class("dotted_names")
		return c
	})
}
