// C03 Every qualified identifier resolves to the package it was built with.
package c03

import (
	"fmt"
	"testing"

	"pgregory.net/rapid"

	"verif/internal/hx"
	"verif/internal/imps"
	"verif/internal/recipe"
)

func check(sc imps.Scenario) error {
	o, err := sc.Run()
	if err != nil {
		return err
	}
	return o.AssertResolution()
}

func classify(r *hx.Run, sc imps.Scenario) {
	f := sc.Features()
	nt := false
	mark := func(b bool, name string) {
		if b {
			r.Class(name)
			nt = true
		}
	}
	mark(f.Collisions > 0, "name_collision")
	mark(f.ReservedCand > 0, "reserved_candidate")
	mark(f.Prefix, "prefix_set")
	mark(f.Std && f.NonStd, "std_nonstd_mix")
	mark(f.HintLosesCollision, "hint_in_collision")
	mark(f.AnonThenRef, "anon_then_referenced")
	mark(f.Dots > 0, "dot_import")
	mark(f.Local, "local_reference")
	mark(f.Cgo, "cgo")
	if nt && f.Paths >= 2 {
		r.Class("nontrivial")
		r.NonTrivial(recipe.JSON(sc))
	}
}

func TestC03(t *testing.T) {
	r := hx.Start(t, "C03")
	defer r.Finish(t)
	r.Rule("rapid-generated import scenarios: File constructor, history of ImportName/ImportNames/ImportAlias/Anon/PackagePrefix calls, body referencing 1..12 paths 1..4 times each through marker symbols (values, calls, types; in lists, Dicts, case lists, Defs, params, struct fields); non-trivial = >= 2 referenced paths and one of: colliding candidate names, reserved candidate, prefix set, std+non-std mix, hint taking part in a collision, Anon-then-referenced, dot import, local reference, cgo; distinct by the full scenario")
	r.Assume("the declared name of a non-std package is the name given with ImportName (the user asserted it) or else a name nothing can guess; std names are read from GOROOT/src package clauses")
	r.Assume("hints are identifiers ('.' only with ImportAlias); ImportAlias(p, \"_\") on a referenced path and import paths go/parser rejects are outside the domain")
	ck := hx.Check[imps.Scenario]{Name: "resolution", Fn: check}
	profiles := []struct {
		name string
		pr   imps.Profile
		w    int
	}{
		{"general", imps.Profile{MaxPaths: 12, Std: true, Cgo: true, Dots: 2, Anon: true, ReservedMix: true}, 2},
		{"compete", imps.Profile{MaxPaths: 10, Compete: true, Std: true, Anon: true}, 1},
		{"local", imps.Profile{MaxPaths: 6, LocalCtor: true, Dots: 3, Std: true, Anon: true}, 1},
		{"arbitrary", imps.Profile{MaxPaths: 8, ArbPaths: true, ReservedMix: true, Compete: true}, 1},
		{"many", imps.Profile{MaxPaths: 90, ArbPaths: true, Compete: true, Std: true, Anon: true, Dots: 2}, 0},
	}
	// N packages that all declare one name (generated clients of one API in many versions), N around the
	// places where a counter gains a digit or a bounded search might stop
	ckN := hx.Check[imps.Scenario]{Name: "same_name_crowd", Fn: check}
	if !hx.Replay(r, ckN) && r.Shard == 0 {
		for _, n := range []int{2, 9, 10, 11, 12, 16, 17, 33, 64, 65, 99, 100, 101, 102, 103, 128, 150, 256, 257, 300} {
			sc := imps.Scenario{File: recipe.File{Ctor: "NewFile", Args: []recipe.Text{"p"}}}
			if n%2 == 0 {
				sc.File.Ops = append(sc.File.Ops, recipe.FileOp{Op: "PackagePrefix", Args: []recipe.Text{"pf"}})
			}
			var vals []*recipe.Node
			for i := 0; i < n; i++ {
				sc.Paths = append(sc.Paths, fmt.Sprintf("crowd.example/api/v%03d/types", i))
				vals = append(vals, recipe.Qual(sc.Paths[i], fmt.Sprintf("S%d", i)))
			}
			sc.File.Body = []*recipe.Node{recipe.S().C("Var").C("Id", "_").C("Op", "=").C("Index").C("Interface").C("Values", vals)}
			hx.One(r, ckN, sc)
			r.NonTrivial(fmt.Sprintf("crowd of %d", n))
		}
		r.Class("same_name_crowds_to_300")
	}
	for _, p := range profiles {
		c := ck
		c.Name = "resolution/" + p.name
		c.Name = "resolution_" + p.name
		g := imps.Gen(p.pr)
		n := r.N(500, 5000) * p.w
		if p.w == 0 {
			n = r.N(60, 400) // large import sets: fewer, bigger cases
		}
		hx.Rapid(r, t, c, n, func(rt *rapid.T) imps.Scenario {
			sc := g(rt)
			classify(r, sc)
			return sc
		})
	}
}
