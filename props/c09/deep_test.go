package c09

import (
	"fmt"
	"sync"
	"testing"

	"pgregory.net/rapid"

	"verif/internal/hx"
	"verif/internal/recipe"
	rtpkg "verif/internal/rt"
)

// deepCase: Files that hold one very deep tree each (thousands of groups nested in one another, as
// generated tables and long chains produce), rendered alone and then all at once. What one render
// has in flight — however deep — is no business of another File's render.
type deepCase struct {
	Depths []int    `json:"depths"`
	Fns    []string `json:"fns"`
	Rounds int      `json:"rounds"`
}

func (c deepCase) file(i int) *recipe.File {
	f := &recipe.File{Ctor: "NewFile", Args: []recipe.Text{"p"}}
	nest := &recipe.Node{Kind: recipe.KNest, Depth: c.Depths[i], Calls: []recipe.Call{{Fn: c.Fns[i]}}}
	f.Body = append(f.Body, recipe.S().C("Var").C("Id", fmt.Sprintf("v%d", i)).C("Op", "=").Add(nest))
	return f
}

func checkDeep(c deepCase) error {
	n := len(c.Depths)
	ref := make([]string, n)
	for i := range ref {
		ref[i] = renderFile(recipe.BuildFile(c.file(i)))
	}
	for round := 0; round < c.Rounds; round++ {
		got := make([]string, n)
		var wg sync.WaitGroup
		start := make(chan struct{})
		for i := 0; i < n; i++ {
			wg.Add(1)
			go func(i int) {
				defer wg.Done()
				f := recipe.BuildFile(c.file(i))
				<-start
				got[i] = renderFile(f)
			}(i)
		}
		close(start)
		wg.Wait()
		for i := range got {
			if got[i] != ref[i] {
				return fmt.Errorf("round %d: File %d (%d nested %s groups) rendered together with %d other deep Files gives\n%s\nalone it gives\n%s", round, i, c.Depths[i], c.Fns[i], n-1, rtpkg.Short(got[i], 600), rtpkg.Short(ref[i], 600))
			}
		}
	}
	return nil
}

func TestC09Deep(t *testing.T) {
	r := hx.Start(t, "C09")
	defer r.Finish(t)
	r.Rule("deep_files_concurrently: 8..14 Files each holding 2400..3600 groups (List / Parens / Add) nested in one another, rendered alone and then all at once on goroutines released together, 3 rounds")
	hx.Rapid(r, t, hx.Check[deepCase]{Name: "deep_files_concurrently", Fn: checkDeep}, r.N(3, 12), func(rt *rapid.T) deepCase {
		c := deepCase{Rounds: 3}
		for i := rapid.IntRange(8, 14).Draw(rt, "nfiles"); i > 0; i-- {
			c.Depths = append(c.Depths, rapid.IntRange(2400, 3600).Draw(rt, "depth"))
			c.Fns = append(c.Fns, rapid.SampledFrom([]string{"List", "Parens", "Add"}).Draw(rt, "fn"))
		}
		r.NonTrivial(fmt.Sprintf("%+v", c))
		r.Class("deep_files_concurrently")
		return c
	})
}
