package c09

import (
	"bytes"
	"fmt"
	"testing"

	"github.com/dave/jennifer/jen"
	"pgregory.net/rapid"

	"verif/internal/hx"
)

// templateCase: one statement object (a template the caller keeps) is added to several Files, and
// in each File the caller chains a continuation of its own onto what Add returned. Each File shows
// the template followed by its own continuation and nothing of the other Files' continuations.
type templateCase struct {
	Tokens int    `json:"tokens"` // length of the template (tokens appended one by one)
	Files  int    `json:"files"`
	Conts  []int  `json:"conts"` // continuation length per File
	Via    string `json:"via"`   // how the template reaches the File: add | group | block
}

func (c templateCase) template() *jen.Statement {
	s := jen.Var().Id("x").Op("=")
	for i := 0; i < c.Tokens; i++ {
		if i > 0 {
			s.Op("+")
		}
		s.Lit(i)
	}
	return s
}

func (c templateCase) build(shared bool) ([]string, error) {
	tmpl := c.template()
	var out []string
	var files []*jen.File
	for i := 0; i < c.Files; i++ {
		f := jen.NewFile(fmt.Sprintf("p%d", i))
		t := tmpl
		if !shared {
			t = c.template()
		}
		var ret *jen.Statement
		switch c.Via {
		case "group":
			f.Func().Id("f").Params().BlockFunc(func(g *jen.Group) { ret = g.Add(t) })
		case "block":
			holder := jen.Add(t)
			ret = holder
			f.Func().Id("f").Params().Block(holder)
		default:
			ret = f.Add(t)
		}
		for k := 0; k < c.Conts[i]; k++ {
			ret.Op("+").Lit(1000*(i+1) + k)
		}
		files = append(files, f)
	}
	for _, f := range files {
		buf := &bytes.Buffer{}
		if err := f.Render(buf); err != nil {
			return nil, err
		}
		out = append(out, buf.String())
	}
	return out, nil
}

func checkTemplate(c templateCase) error {
	var got, want []string
	var gerr, werr error
	if perr := hx.Safe(func() error {
		got, gerr = c.build(true)
		want, werr = c.build(false)
		return nil
	}); perr != nil {
		return perr
	}
	if (gerr == nil) != (werr == nil) {
		return fmt.Errorf("shared template: err %v, fresh template per File: err %v", gerr, werr)
	}
	for i := range got {
		if got[i] != want[i] {
			return fmt.Errorf("one statement object added to %d Files, each File chaining its own continuation onto what Add returned: File %d renders\n%s\nwith a fresh copy of the statement per File it renders\n%s", c.Files, i, got[i], want[i])
		}
	}
	return nil
}

func TestC09Template(t *testing.T) {
	r := hx.Start(t, "C09")
	defer r.Finish(t)
	r.Rule("shared_template: one statement object of 1..9 tokens added to 2..4 Files (File.Add, Group.Add inside a BlockFunc, package-level Add inside a Block), each File chaining 1..3 tokens of its own onto what Add returned; every File must render what it renders with a fresh copy of the statement")
	hx.Rapid(r, t, hx.Check[templateCase]{Name: "shared_template", Fn: checkTemplate}, r.N(300, 3000), func(rt *rapid.T) templateCase {
		c := templateCase{Tokens: rapid.IntRange(1, 9).Draw(rt, "tokens"), Files: rapid.IntRange(2, 4).Draw(rt, "files"), Via: rapid.SampledFrom([]string{"add", "group", "block"}).Draw(rt, "via")}
		for i := 0; i < c.Files; i++ {
			c.Conts = append(c.Conts, rapid.IntRange(1, 3).Draw(rt, "cont"))
		}
		r.NonTrivial(fmt.Sprintf("%+v", c))
		r.Class("shared_template:" + c.Via)
		return c
	})
}
