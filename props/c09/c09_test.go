// C09 Files do not interfere: no hidden global state, safe to build concurrently.
package c09

import (
	"bytes"
	"fmt"
	"os"
	"path/filepath"
	"regexp"
	"runtime"
	"strings"
	"sync"
	"sync/atomic"
	"testing"
	"time"

	"github.com/dave/jennifer/jen"
	"pgregory.net/rapid"

	"verif/internal/gen"
	"verif/internal/hx"
	"verif/internal/imps"
	"verif/internal/recipe"
	"verif/internal/stdpkg"
)

type Case struct {
	Jobs   []*recipe.File `json:"jobs"`
	Perms  [][]int        `json:"perms"`
	Rounds int            `json:"rounds"`
	// Shared: nodes with Ref > 0 occur in several jobs; they are built once and
	// the same Code value is added to each of those Files.
	Shared bool `json:"shared,omitempty"`
	Nonce  int  `json:"nonce"` // makes the non-std paths of this case unique in the process
}

// watchdog: a single Render that normally takes milliseconds and has not returned after five
// minutes is blocked, not slow (process-wide state left behind by other Files' renders can do
// that); it is reported as a result that differs from the solo reference. The limit was 45 s
// until a thorough run on a machine busy with six other campaigns (race detector on) crossed it
// on the unchanged tree: a false alarm (DESIGN 11.2); five minutes is far beyond any load effect
// and still inside the driver's time limit for the quick tier (8 min).
const hangLimit = 5 * time.Minute

// hung is set once a render has been seen to block: the process is then beyond repair (whatever
// blocks it is process-wide), so later renders report the same at once instead of waiting again.
var hung atomic.Bool

func renderFile(f *jen.File) string {
	if hung.Load() {
		return "HUNG: an earlier File.Render in this process never returned"
	}
	done := make(chan string, 1)
	go func() { done <- renderFile0(f) }()
	select {
	case out := <-done:
		return out
	case <-time.After(hangLimit):
		hung.Store(true)
		return "HUNG: File.Render did not return within " + hangLimit.String()
	}
}

func renderFile0(f *jen.File) string {
	var out string
	if err := hx.Safe(func() error {
		buf := &bytes.Buffer{}
		if err := f.Render(buf); err != nil {
			out = "ERROR: " + err.Error()
		} else {
			out = "OK:" + buf.String()
		}
		return nil
	}); err != nil {
		return "PANIC: " + err.Error()
	}
	return out
}

// collected: what the caller's buffer already holds when the next File is rendered behind it (a generator
// that collects several Files, or a marker line and a File, in one buffer).
var collected = []byte("// ---- output of the Files rendered before this one ----\npackage earlier\n\nvar Earlier = 1\n")

// renderBehind renders f behind earlier output in one *bytes.Buffer; what the File contributed is what
// the buffer grew by.
func renderBehind(f *jen.File) string {
	if hung.Load() {
		return "HUNG: an earlier File.Render in this process never returned"
	}
	var out string
	if err := hx.Safe(func() error {
		buf := bytes.NewBuffer(append([]byte{}, collected...))
		if err := f.Render(buf); err != nil {
			out = "ERROR: " + err.Error()
			if !bytes.Equal(buf.Bytes(), collected) {
				out = "FAILED RENDER CHANGED THE BUFFER: " + buf.String()
			}
			return nil
		}
		if !bytes.HasPrefix(buf.Bytes(), collected) {
			out = "EARLIER OUTPUT IN THE BUFFER WAS CHANGED: " + buf.String()
			return nil
		}
		out = "OK:" + string(buf.Bytes()[len(collected):])
		return nil
	}); err != nil {
		return "PANIC: " + err.Error()
	}
	return out
}

func stripRefs(f *recipe.File) *recipe.File {
	g := f.Clone()
	for _, b := range g.Body {
		recipe.Walk(b, func(n *recipe.Node) {
			if n != nil {
				n.Ref = 0
			}
		})
	}
	return g
}

// uniquify prefixes every non-std import path of the job set with a component
// unique to the case, so that the concurrent phase is the first time this
// process sees those paths (a warmed-up memo or cache would otherwise hide
// unsynchronised shared state).
func uniquify(f *recipe.File, nonce int) *recipe.File {
	g := f.Clone()
	ren := func(p string) string {
		if p == "" || p == "C" || stdpkg.Has(p) {
			return p
		}
		return fmt.Sprintf("n%d.example/%s", nonce, p)
	}
	if g.Ctor != "NewFile" && len(g.Args) > 0 {
		g.Args[0] = recipe.Text(ren(string(g.Args[0])))
	}
	for i := range g.Ops {
		op := &g.Ops[i]
		switch op.Op {
		case "ImportName", "ImportAlias":
			op.Args[0] = recipe.Text(ren(string(op.Args[0])))
		case "Anon":
			for j := range op.Args {
				op.Args[j] = recipe.Text(ren(string(op.Args[j])))
			}
		case "ImportNames":
			m := map[string]string{}
			for k, v := range op.Map {
				m[ren(k)] = v
			}
			op.Map = m
		}
	}
	for _, b := range g.Body {
		recipe.Walk(b, func(n *recipe.Node) {
			if n == nil {
				return
			}
			for i := range n.Calls {
				if n.Calls[i].Fn == "Qual" && len(n.Calls[i].Str) > 0 {
					n.Calls[i].Str[0] = recipe.Text(ren(string(n.Calls[i].Str[0])))
				}
			}
		})
	}
	return g
}

// yieldWriter hands the bytes over in small chunks and yields in between, so
// that another goroutine can run while a Write is in progress.
type yieldWriter struct{ buf bytes.Buffer }

func (w *yieldWriter) Write(p []byte) (int, error) {
	n := len(p)
	for len(p) > 0 {
		k := 64
		if k > len(p) {
			k = len(p)
		}
		w.buf.Write(p[:k])
		p = p[k:]
		runtime.Gosched()
	}
	return n, nil
}

func renderYield(f *jen.File) string {
	if hung.Load() {
		return "HUNG: an earlier File.Render in this process never returned"
	}
	done := make(chan string, 1)
	go func() { done <- renderYield0(f) }()
	select {
	case out := <-done:
		return out
	case <-time.After(hangLimit):
		hung.Store(true)
		return "HUNG: File.Render did not return within " + hangLimit.String()
	}
}

func renderYield0(f *jen.File) string {
	var out string
	if err := hx.Safe(func() error {
		w := &yieldWriter{}
		if err := f.Render(w); err != nil {
			out = "ERROR: " + err.Error()
		} else {
			out = "OK:" + w.buf.String()
		}
		return nil
	}); err != nil {
		return "PANIC: " + err.Error()
	}
	return out
}

// saveFile saves the File to its own path several times and reads it back each time; the first
// result that differs from want (nonce normalised) is returned, else the last one.
func saveFile(f *jen.File, path, want string) string {
	out := ""
	for k := 0; k < 6; k++ {
		if hung.Load() {
			return "HUNG: an earlier File.Render in this process never returned"
		}
		if k > 0 && strings.HasPrefix(out, "OK:") {
			// what is at the path now is what an earlier run left there: close to what is about to be
			// saved, but not it (longer, other letter case, other comments, cut short, ...)
			if old, ok := recipe.Stale([]byte(out[3:]), (k+len(out))%recipe.StaleVariants); ok {
				_ = os.WriteFile(path, old, 0o644)
			}
		}
		done := make(chan string, 1)
		go func() {
			res := ""
			if perr := hx.Safe(func() error {
				if err := f.Save(path); err != nil {
					// what Render reports for the same File: the message of the formatting error
					res = "ERROR: " + err.Error()
					return nil
				}
				b, err := os.ReadFile(path)
				if err != nil {
					res = "SAVED FILE UNREADABLE: " + err.Error()
					return nil
				}
				res = "OK:" + string(b)
				return nil
			}); perr != nil {
				res = "PANIC: " + perr.Error()
			}
			done <- res
		}()
		select {
		case out = <-done:
		case <-time.After(hangLimit):
			hung.Store(true)
			return "HUNG: File.Save did not return within " + hangLimit.String()
		}
		if strings.HasPrefix(out, "PANIC: ") {
			return out
		}
		if norm(out) != want {
			return out
		}
		runtime.Gosched()
	}
	return out
}

var nonceRe = regexp.MustCompile(`n[0-9]+\.example/`)

// norm removes the per-phase nonce from an output.
func norm(s string) string { return nonceRe.ReplaceAllString(s, "nX.example/") }

func check(c Case) error {
	n := len(c.Jobs)
	// Every phase works on its own copy of the job set whose non-std paths carry a nonce unique
	// to (case, phase[, job]): each phase is the first time the process sees those paths, so
	// process-wide state left behind by one phase cannot make the next one look consistent.
	// Outputs are compared after the nonce has been normalised away.
	phase := 0
	fresh := func(perJob bool) []*recipe.File {
		phase++
		out := make([]*recipe.File, n)
		for i, j := range c.Jobs {
			nonce := c.Nonce*64 + phase*2
			if perJob {
				nonce = (c.Nonce*64+phase*2+1)*32 + i
			}
			out[i] = uniquify(j, nonce)
		}
		return out
	}
	// solo reference: every job alone, built from unshared copies, with paths no other job shares
	ref := make([]string, n)
	for i, j := range fresh(true) {
		// (the reference is built without the clone form of recipe.Builder.Stmt, everything else with it)
		recipe.NoCloneForm = true
		f := (&recipe.Builder{}).File(stripRefs(j))
		recipe.NoCloneForm = false
		ref[i] = norm(renderFile(f))
	}
	cmp := func(schedule string, i int, got string) error {
		if norm(got) != ref[i] {
			return fmt.Errorf("%s: job %d renders differently from its solo reference (paths shown with their per-phase nonce removed)\n--- solo ---\n%s\n--- %s ---\n%s", schedule, i, ref[i], schedule, norm(got))
		}
		return nil
	}
	if c.Shared {
		// one builder for all Files: nodes with the same Ref are the same Code value in every File
		jobs := fresh(false)
		// (built under the form policy: literals through LitFunc, lists through ...Func callbacks — user code
		// that runs once, when the shared value is built, whatever number of Files render it later)
		b := &recipe.Builder{Forms: recipe.Seeded(uint64(c.Nonce)*2 + 1)}
		files := make([]*jen.File, n)
		for i, j := range jobs {
			files[i] = b.File(j)
		}
		for _, perm := range c.Perms {
			for _, i := range perm {
				if err := cmp("shared Code values, rendered one after another", i%n, renderFile(files[i%n])); err != nil {
					return err
				}
			}
		}
		return nil
	}
	// concurrently, on n goroutines released together; every other round goes through File.Save:
	// all jobs save into one directory, each under its own file name, a few times over
	for round := 0; round < c.Rounds; round++ {
		jobs := fresh(false)
		got := make([]string, n)
		var wg sync.WaitGroup
		start := make(chan struct{})
		dir := ""
		if round%2 == 1 {
			d, err := os.MkdirTemp("", "c09save")
			if err != nil {
				return nil // no scratch space: nothing to say about jennifer
			}
			dir = d
		}
		for i := range jobs {
			wg.Add(1)
			go func(i int) {
				defer wg.Done()
				<-start
				f := (&recipe.Builder{}).File(jobs[i])
				if dir == "" {
					got[i] = renderYield(f)
					return
				}
				got[i] = saveFile(f, filepath.Join(dir, fmt.Sprintf("job%d.go", i)), norm(ref[i]))
			}(i)
		}
		close(start)
		wg.Wait()
		if dir != "" {
			os.RemoveAll(dir)
		}
		for i := range got {
			if err := cmp(fmt.Sprintf("concurrent round %d", round), i, got[i]); err != nil {
				return err
			}
		}
	}
	for pi, perm := range c.Perms {
		// build all, then render all; the caller uses ONE map object for the ImportNames calls of all
		// the Files it builds (emptied and refilled per call): a File's names are those it was given
		jobs := fresh(false)
		files := make([]*jen.File, n)
		func() {
			defer func() { recipe.CallerTable = nil }()
			recipe.CallerTable = map[string]string{}
			for _, i := range perm {
				files[i%n] = (&recipe.Builder{}).File(jobs[i%n])
			}
		}()
		for k := len(perm) - 1; k >= 0; k-- {
			i := perm[k] % n
			if err := cmp(fmt.Sprintf("permutation %d: build all, render all (reverse)", pi), i, renderFile(files[i])); err != nil {
				return err
			}
		}
		if pi == 0 && n >= 2 {
			// Files saved under one relative name from different working directories (a generator that walks the
			// package directories): each lands where its Save was called, none touches another's
			if err := func() error {
				back, err := os.Getwd()
				if err != nil {
					return nil
				}
				defer os.Chdir(back)
				base, err := os.MkdirTemp("", "c09rel")
				if err != nil {
					return nil
				}
				defer os.RemoveAll(base)
				js := fresh(false)
				var dirs []string
				for i := 0; i < n && i < 3; i++ {
					d := filepath.Join(base, fmt.Sprintf("pkg%d", i))
					if os.MkdirAll(d, 0o755) != nil || os.Chdir(d) != nil {
						return nil
					}
					dirs = append(dirs, d)
					f := (&recipe.Builder{}).File(js[i])
					_ = hx.Safe(func() error { _ = f.Save("zz_generated.go"); return nil })
				}
				for i, d := range dirs {
					got := "SAVED FILE UNREADABLE"
					if b, err := os.ReadFile(filepath.Join(d, "zz_generated.go")); err == nil {
						got = "OK:" + string(b)
					} else if strings.HasPrefix(ref[i], "ERROR") {
						continue // the File does not render: nothing to save
					}
					if err := cmp("Files saved under one relative name from different working directories", i, got); err != nil {
						return err
					}
				}
				return nil
			}(); err != nil {
				return err
			}
		}
		// alternate build / render
		jobs = fresh(false)
		for _, i := range perm {
			i %= n
			if pi%2 == 1 {
				// (every other permutation renders each File behind earlier output in one buffer)
				if err := cmp(fmt.Sprintf("permutation %d: build and render alternating, behind earlier output in the caller's buffer", pi), i, renderBehind((&recipe.Builder{}).File(jobs[i]))); err != nil {
					return err
				}
				continue
			}
			if err := cmp(fmt.Sprintf("permutation %d: build and render alternating", pi), i, renderFile((&recipe.Builder{}).File(jobs[i]))); err != nil {
				return err
			}
		}
	}
	return nil
}

func genJob(t *rapid.T) *recipe.File {
	f := genJob0(t)
	if rapid.IntRange(0, 2).Draw(t, "noformat") == 0 {
		f.Ops = append(f.Ops, recipe.FileOp{Op: "NoFormat"})
	}
	return f
}

func genJob0(t *rapid.T) *recipe.File {
	switch rapid.IntRange(0, 4).Draw(t, "jobkind") {
	case 4: // large, mostly unused ImportNames tables
		sc := imps.Gen(imps.Profile{MaxPaths: 6, Std: true, Anon: true, BigHints: true})(t)
		return &sc.File
	case 0:
		sc := imps.Gen(imps.Profile{MaxPaths: 8, Compete: true, Std: true, Anon: true, Dots: 1})(t)
		return &sc.File
	case 1:
		sc := imps.Gen(imps.Profile{MaxPaths: 6, LocalCtor: true, Compete: true, ReservedMix: true})(t)
		return &sc.File
	case 2:
		f := gen.FileSettings(t)
		for i := rapid.IntRange(1, 3).Draw(t, "ndecls"); i > 0; i-- {
			f.Body = append(f.Body, gen.Decl(t, 2))
		}
		return f
	}
	f := gen.FileSettings(t)
	f.Body = append(f.Body, gen.Tree(t, 3, 4))
	return f
}

func perms(t *rapid.T, n, k int) [][]int {
	var out [][]int
	base := make([]int, n)
	for i := range base {
		base[i] = i
	}
	for i := 0; i < k; i++ {
		out = append(out, rapid.Permutation(base).Draw(t, "perm"))
	}
	return out
}

func TestC09(t *testing.T) {
	r := hx.Start(t, "C09")
	defer r.Finish(t)
	rounds := 8
	if r.Thorough() {
		rounds = 30
	}
	r.Rule(fmt.Sprintf("rapid-generated sets of 4..16 jobs (File recipes from the import-scenario generator with competing names, plausible programs, random DSL trees); every job is rendered alone (reference), then all jobs sequentially in 3 random permutations (build all then render all; build and render alternating), then concurrently on one goroutine per job released by a barrier, %d rounds (every other round through File.Save: all jobs save into one directory, each under its own file name, six times over, and read the file back), the test binary being built with -race; and sets of 2..3 Files with different prefix / hints / local path that share sub-statements (the same Code value added to each), rendered one after another in random orders and compared with the same Files built from unshared copies; non-trivial = >= 2 jobs that register imports; distinct by job set", rounds))
	r.Assume("goroutine interleavings are sampled by the Go scheduler, not enumerated; the sequential-history part is deterministic")
	hx.Rapid(r, t, hx.Check[Case]{Name: "independent_jobs", Fn: func(c Case) error { r.Checkpoint("independent_jobs", c); return check(c) }}, r.N(60, 100), func(rt *rapid.T) Case {
		n := rapid.IntRange(4, 16).Draw(rt, "njobs")
		c := Case{Rounds: rounds, Nonce: rapid.IntRange(0, 1<<20).Draw(rt, "nonce")}
		for i := 0; i < n; i++ {
			c.Jobs = append(c.Jobs, genJob(rt))
		}
		if rapid.Bool().Draw(rt, "bigtables") {
			// every File declares, in a names table of 65..130 entries, its own name for one dependency all of them
			// use (a generator that refills one table per File): a File's names are those it was given
			for i, j := range c.Jobs {
				m := map[string]string{"tables.example/shared/dep": fmt.Sprintf("dep%d", i)}
				for k := rapid.IntRange(64, 129).Draw(rt, "tablesize"); k > 0; k-- {
					m[fmt.Sprintf("tables.example/unused/%d", k)] = "u"
				}
				j.Ops = append([]recipe.FileOp{{Op: "ImportNames", Map: m}}, j.Ops...)
				j.Body = append(j.Body, recipe.S().C("Var").C("Id", "_").C("Op", "=").Add(recipe.Qual("tables.example/shared/dep", "Value")))
			}
			r.Class("jobs_with_big_names_tables")
		}
		c.Perms = perms(rt, n, 3)
		r.NonTrivial(recipe.JSON(c.Jobs))
		r.ClassN("jobs", n)
		return c
	})
	hx.Rapid(r, t, hx.Check[Case]{Name: "shared_code", Fn: check}, r.N(300, 1500), func(rt *rapid.T) Case {
		// shared sub-statements referencing colliding paths
		nshared := rapid.IntRange(1, 3).Draw(rt, "nshared")
		var shared []*recipe.Node
		for i := 0; i < nshared; i++ {
			var n *recipe.Node
			if rapid.Bool().Draw(rt, "sharedkind") {
				n = gen.Decl(rt, 2)
			} else {
				var vals []*recipe.Node
				for k := rapid.IntRange(1, 4).Draw(rt, "nvals"); k > 0; k-- {
					vals = append(vals, recipe.Qual(rapid.SampledFrom([]string{"a/d", "b/d", "c/d", "fmt", "x/fmt", "local/pkg", "math/rand", "crypto/rand"}).Draw(rt, "spath"), "S"))
				}
				n = recipe.S().C("Var").C("Id", "_").C("Op", "=").C("Index").C("Interface").C("Values", vals)
				if rapid.Bool().Draw(rt, "caseblock") {
					n = recipe.S().C("Func").C("Id", "_").C("Params").C("Block", recipe.S().C("Switch").C("Block", recipe.S().C("Case", vals).C("Block", recipe.Nil(), recipe.S().C("Return"))))
				}
			}
			n.Ref = i + 1
			shared = append(shared, n)
		}
		nf := rapid.IntRange(2, 3).Draw(rt, "nfiles")
		c := Case{Shared: true, Nonce: rapid.IntRange(0, 1<<20).Draw(rt, "nonce")}
		for i := 0; i < nf; i++ {
			f := gen.FileSettings(rt)
			if rapid.Bool().Draw(rt, "localctor") {
				f.Ctor, f.Args = "NewFilePathName", []recipe.Text{"local/pkg", "p"}
			}
			if rapid.Bool().Draw(rt, "dot") {
				f.Ops = append(f.Ops, recipe.FileOp{Op: "ImportAlias", Args: []recipe.Text{recipe.Text(rapid.SampledFrom([]string{"a/d", "fmt", "b/d"}).Draw(rt, "dotpath")), "."}})
			}
			for _, s := range shared {
				if rapid.IntRange(0, 3).Draw(rt, "use") > 0 {
					f.Body = append(f.Body, s)
				}
			}
			if rapid.Bool().Draw(rt, "own") {
				f.Body = append(f.Body, gen.Decl(rt, 1))
			}
			c.Jobs = append(c.Jobs, f)
		}
		c.Perms = perms(rt, nf, 2)
		c.Perms = append(c.Perms, c.Perms[0]) // and each File once more
		r.NonTrivial(recipe.JSON(c.Jobs))
		r.Class("shared_sets")
		return c
	})
}
