package c09

import (
	"bytes"
	"context"
	"encoding/hex"
	"encoding/json"
	"fmt"
	"io"
	"math"
	"os"
	"os/exec"
	"strings"
	"testing"
	"time"

	"pgregory.net/rapid"

	"verif/internal/hx"
	"verif/internal/recipe"
)

// freshCase: Job is rendered here after the Before files have been rendered in this process
// (which has rendered thousands of other Files by then), and alone in a process of its own.
// The solo reference of the other checks is computed in this very process, so process-wide
// state that conflates two inputs (a memo keyed by a value that compares equal for both)
// shows in neither side of that comparison; the fresh process has no such history.
type freshCase struct {
	Before []*recipe.File `json:"before"`
	Job    *recipe.File   `json:"job"`
}

// values that are different inputs but compare equal, or print alike, in one way or another
func confusable() []*recipe.Node {
	nz := math.Copysign(0, -1)
	nz32 := float32(math.Copysign(0, -1))
	vals := []interface{}{
		0.0, nz, float32(0), nz32, complex(0, 0), complex(nz, 0), complex(0, nz), complex(nz, nz), complex64(complex(nz32, 0)), complex64(complex(0, nz32)), complex64(0),
		0, int8(0), int16(0), int32(0), int64(0), uint(0), uint8(0), uint16(0), uint32(0), uint64(0), uintptr(0),
		1, 1.0, float32(1), int64(1), uint8(1), true, false, "", "0", "0.0", "-0.0", "1", "true",
		1e21, 1e20, 100000000000000000000.0, float32(1e21), 0.1, float32(0.1), 0.30000000000000004, 0.3,
		math.MaxInt64, uint64(math.MaxInt64), uint64(math.MaxUint64), int64(math.MinInt64), -1, int8(-1), uint8(255),
	}
	var out []*recipe.Node
	for _, v := range vals {
		out = append(out, recipe.Lit(v))
	}
	out = append(out, recipe.S().C("LitRune", recipe.Rune('0')), recipe.S().C("LitRune", recipe.Rune(0)), recipe.S().C("LitByte", recipe.Byte('0')), recipe.S().C("LitByte", recipe.Byte(0)), recipe.S().C("LitRune", recipe.Rune('a')), recipe.Lit("a"), recipe.S().C("LitByte", recipe.Byte('a')))
	return out
}

func litFile(t *rapid.T, label string) *recipe.File {
	pool := confusable()
	f := &recipe.File{Ctor: "NewFile", Args: []recipe.Text{"p"}}
	if rapid.IntRange(0, 2).Draw(t, label+"noformat") == 0 {
		f.Ops = append(f.Ops, recipe.FileOp{Op: "NoFormat"})
	}
	var vals []*recipe.Node
	for i := rapid.IntRange(1, 6).Draw(t, label+"nvals"); i > 0; i-- {
		vals = append(vals, pool[rapid.IntRange(0, len(pool)-1).Draw(t, label+"val")].Clone())
	}
	f.Body = append(f.Body, recipe.S().C("Var").C("Id", "_").C("Op", "=").C("Index").C("Interface").C("Values", vals))
	return f
}

func checkFresh(c freshCase) error {
	for _, b := range c.Before {
		_ = renderFile(recipe.BuildFile(b))
	}
	here := renderFile(recipe.BuildFile(c.Job))
	in, _ := json.Marshal(c.Job)
	ctx, cancel := context.WithTimeout(context.Background(), 2*time.Minute)
	defer cancel()
	cmd := exec.CommandContext(ctx, os.Args[0], "-test.run=^TestFreshChild$")
	// (the fresh process is also another machine: no Go installation where this one has it)
	cmd.Env = append(os.Environ(), "VERIF_C09_CHILD=1", "VERIF_OUT=", "GORACE=atexit_sleep_ms=0", "GOROOT=/nonexistent/go", "GOPATH=/nonexistent/gopath", "HOME=/nonexistent", "TZ=Pacific/Kiritimati", "LANG=tr_TR.UTF-8")
	cmd.Dir = os.TempDir()
	cmd.Stdin = bytes.NewReader(in)
	out, err := cmd.Output()
	if err != nil {
		return nil // cannot re-execute: nothing to compare (not a property failure)
	}
	i := bytes.Index(out, []byte("RESULT:"))
	if i < 0 {
		return nil
	}
	hs := strings.TrimSpace(string(out[i+len("RESULT:"):]))
	if j := strings.IndexAny(hs, "\n "); j >= 0 {
		hs = hs[:j]
	}
	b, err := hex.DecodeString(hs)
	if err != nil {
		return nil
	}
	if string(b) != here {
		return fmt.Errorf("a File renders differently in this process (after %d other Files of this case and everything rendered before) and alone in a fresh process\n--- here ---\n%s\n--- fresh process ---\n%s", len(c.Before), here, b)
	}
	return nil
}

// TestFreshChild is the re-executed half: one File, rendered in a process that has rendered nothing else.
func TestFreshChild(t *testing.T) {
	if os.Getenv("VERIF_C09_CHILD") == "" {
		t.Skip("helper")
	}
	in, _ := io.ReadAll(os.Stdin)
	f := &recipe.File{}
	if err := json.Unmarshal(in, f); err != nil {
		t.Fatal(err)
	}
	fmt.Printf("RESULT:%s\n", hex.EncodeToString([]byte(renderFile(recipe.BuildFile(f)))))
}

func TestC09Fresh(t *testing.T) {
	if os.Getenv("VERIF_C09_CHILD") != "" {
		t.Skip("child")
	}
	r := hx.Start(t, "C09")
	defer r.Finish(t)
	r.Rule("fresh_process_reference: a File (two in three: a list of literals drawn from ~60 values that are different inputs but compare equal or print alike — signed zeros of every float and complex type, zeros and ones of every integer type, 1 / 1.0 / \"1\", runes vs one-character strings vs bytes; else a general job) rendered in this process after 1..3 sibling Files of the same kind (and everything the test process rendered before) must equal the same File rendered alone in a re-executed fresh process")
	hx.Rapid(r, t, hx.Check[freshCase]{Name: "fresh_process_reference", Fn: checkFresh}, r.N(150, 1000), func(rt *rapid.T) freshCase {
		c := freshCase{}
		lit := rapid.IntRange(0, 2).Draw(rt, "literals") > 0
		for i := rapid.IntRange(1, 3).Draw(rt, "nbefore"); i > 0; i-- {
			if lit {
				c.Before = append(c.Before, litFile(rt, "b"))
			} else {
				c.Before = append(c.Before, stripRefs(genJob(rt)))
			}
		}
		if lit {
			c.Job = litFile(rt, "j")
			if rapid.IntRange(0, 3).Draw(rt, "toolchainpaths") == 2 {
				// references to directories of the installed toolchain's src tree that are no ordinary packages
				for _, p := range []string{"arena", "crypto/boring", "runtime/msan", "syscall/js", "cmd/asm"} {
					if rapid.Bool().Draw(rt, "tp") {
						c.Job.Body = append(c.Job.Body, recipe.S().C("Var").C("Id", "_").C("Op", "=").Add(recipe.Qual(p, "X")))
					}
				}
				r.Class("fresh:toolchain_paths")
			}
			r.Class("fresh:confusable_literals")
		} else {
			c.Job = stripRefs(genJob(rt))
			r.Class("fresh:general_job")
		}
		r.NonTrivial(recipe.JSON(c))
		return c
	})
}
