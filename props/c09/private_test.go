package c09

import (
	"bytes"
	"fmt"
	"reflect"
	"sort"
	"testing"

	"github.com/dave/jennifer/jen"

	"verif/internal/hx"
)

// privateCase: File A uses a zero-argument construct bare (g.Line(), g.Null(), g.Return(), f.Line() ...),
// File B — unrelated — chains code of its own onto what the same construct returned to it. File A, built
// before or after B, renders what it renders when B never existed.
type privateCase struct {
	Method string `json:"method"`
	Level  string `json:"level"` // group | file
}

func zeroArgGroupMethods() []string {
	var out []string
	t := reflect.TypeOf(&jen.Group{})
	st := reflect.TypeOf(&jen.Statement{})
	for i := 0; i < t.NumMethod(); i++ {
		m := t.Method(i)
		if m.Type.NumIn() == 1 && m.Type.NumOut() == 1 && m.Type.Out(0) == st {
			out = append(out, m.Name)
		}
	}
	sort.Strings(out)
	return out
}

func checkPrivate(c privateCase) error {
	call := func(g *jen.Group) *jen.Statement {
		return reflect.ValueOf(g).MethodByName(c.Method).Call(nil)[0].Interface().(*jen.Statement)
	}
	build := func(pkg string, chain bool) *jen.File {
		f := jen.NewFile(pkg)
		f.NoFormat = true
		use := func(g *jen.Group) {
			g.Id("before")
			s := call(g)
			if chain {
				s.Id("ZZLEAK").Op("=").Qual("os", "Args")
			}
			g.Id("after")
		}
		if c.Level == "file" {
			use(f.Group)
		} else {
			f.Func().Id("f").Params().BlockFunc(use)
		}
		return f
	}
	render := func(f *jen.File) (string, error) {
		b := &bytes.Buffer{}
		err := f.Render(b)
		return b.String(), err
	}
	var outs [4]string
	if perr := hx.Safe(func() error {
		a1 := build("a", false)
		outs[0], _ = render(a1) // before B exists
		b := build("b", true)
		_, _ = render(b)
		outs[1], _ = render(a1)                // the same File again
		outs[2], _ = render(build("a", false)) // rebuilt from scratch
		b2 := build("b", true)
		a3 := build("a", false)
		_, _ = render(b2)
		outs[3], _ = render(a3) // built after a B, rendered after it
		return nil
	}); perr != nil {
		return perr
	}
	for i := 1; i < len(outs); i++ {
		if outs[i] != outs[0] {
			return fmt.Errorf("%s.%s(): File a renders\n%s\nbefore an unrelated File chains its own code onto what %s() returned to it, and afterwards (%d)\n%s", c.Level, c.Method, outs[0], c.Method, i, outs[i])
		}
	}
	return nil
}

func TestC09Private(t *testing.T) {
	r := hx.Start(t, "C09")
	defer r.Finish(t)
	r.Rule("group_method_results_are_private: for every zero-argument *Group method that returns a *Statement (enumerated by reflection), at group level and at File level: File a uses it bare, an unrelated File b chains code of its own onto what the method returned to it; File a (rendered again, rebuilt, built afterwards) renders as before")
	ck := hx.Check[privateCase]{Name: "group_method_results_are_private", Fn: checkPrivate}
	if hx.Replay(r, ck) || r.Shard != 0 {
		return
	}
	n := 0
	for _, m := range zeroArgGroupMethods() {
		for _, lvl := range []string{"group", "file"} {
			c := privateCase{Method: m, Level: lvl}
			hx.One(r, ck, c)
			r.NonTrivial(fmt.Sprintf("%+v", c))
			n++
		}
	}
	r.ClassN("zero_argument_group_methods_x_levels", n)
}
