// C13 nil and Null() items vanish from lists; Empty() keeps its separator.
package c13

import (
	"bytes"
	"fmt"
	"go/scanner"
	"go/token"
	"os"
	"reflect"
	"regexp"
	"runtime"
	"strings"
	"sync"
	"testing"
	"time"

	"github.com/dave/jennifer/jen"
	"pgregory.net/rapid"

	"verif/internal/corpus"
	"verif/internal/hx"
	"verif/internal/mutate"
	"verif/internal/recipe"
	"verif/internal/rt"
	"verif/internal/shrink"
)

// ---- (a) synthetic lists: every construct x arity x subset of null positions ----

type listCase struct {
	Fn    string       `json:"fn"`
	Opts  *recipe.Opts `json:"opts,omitempty"`
	Arity int          `json:"arity"`
	Mask  uint32       `json:"mask"` // bit i set: position i holds a null-like item
	// GroupForm: the construct is built through its ...Func variant and the items through the *Group methods
	// (g.Null(), g.Id(..)); NullHead: real items are spelled with null tokens around them (Null().Id(x), Null().Id(x).Null(),
	// Add(nil, Id(x), nil), ...) — a statement that holds one real token is an ordinary item
	GroupForm bool `json:"groupform,omitempty"`
	NullHead  bool `json:"nullhead,omitempty"`
	// AfterFailures: the statement object first goes through renders that fail (see renderListX)
	AfterFailures bool  `json:"afterfailures,omitempty"`
	Kinds         []int `json:"kinds"` // null kind per masked position (index into mutate.NullKinds)
	Empty         int   `json:"empty"` // >= 0: that (real) position holds Empty() instead
}

var itemRe = regexp.MustCompile(`a[0-9][0-9]+`)

func tokens(src []byte) ([]string, error) {
	fs := token.NewFileSet()
	file := fs.AddFile("", fs.Base(), len(src))
	var sc scanner.Scanner
	var serr error
	sc.Init(file, src, func(pos token.Position, msg string) { serr = fmt.Errorf("%v: %s", pos, msg) }, 0)
	var toks []string
	for {
		_, tok, lit := sc.Scan()
		if tok == token.EOF {
			break
		}
		if tok == token.SEMICOLON && lit == "\n" {
			continue
		}
		if lit == "" {
			lit = tok.String()
		}
		toks = append(toks, lit)
	}
	return toks, serr
}

func renderList(fn string, opts *recipe.Opts, items []*recipe.Node) (string, error) {
	return renderListForm(fn, opts, items, false)
}

func renderListForm(fn string, opts *recipe.Opts, items []*recipe.Node, groupForm bool) (string, error) {
	return renderListX(fn, opts, items, groupForm, false)
}

type failingWriter struct{}

func (failingWriter) Write(p []byte) (int, error) { return 0, fmt.Errorf("writer fails") }

// renderListX: with afterFailures set the statement object is first put through renders that fail
// — RenderWithFile with a nil File (a caller's slip: it panics at the first qualified identifier),
// Render into a writer that fails — recovered as a caller would; then it is rendered for real.
func renderListX(fn string, opts *recipe.Opts, items []*recipe.Node, groupForm, afterFailures bool) (out string, err error) {
	if afterFailures {
		call := recipe.Call{Fn: fn, Items: items, Opts: opts}
		n := recipe.Id("head")
		n.Calls = append(n.Calls, call)
		n = n.C("Id", "tail")
		defer func() {
			if p := recover(); p != nil {
				err = fmt.Errorf("panic: %v", p)
			}
		}()
		b := &recipe.Builder{}
		if groupForm {
			b.Forms = &recipe.Decisions{Draw: func(n int) int { return n - 1 }}
		}
		st := b.Stmt(n)
		func() {
			defer func() { _ = recover() }()
			_ = st.RenderWithFile(&bytes.Buffer{}, nil)
		}()
		func() {
			defer func() { _ = recover() }()
			_ = st.Render(failingWriter{})
		}()
		f := jen.NewFile("p")
		f.NoFormat = true
		f.Add(st)
		buf := &bytes.Buffer{}
		if err := f.Render(buf); err != nil {
			return "", err
		}
		return buf.String(), nil
	}
	call := recipe.Call{Fn: fn, Items: items, Opts: opts}
	n := recipe.Id("head")
	n.Calls = append(n.Calls, call)
	n = n.C("Id", "tail")
	fr := &recipe.File{Ctor: "NewFile", Args: []recipe.Text{"p"}, Ops: []recipe.FileOp{{Op: "NoFormat"}}, Body: []*recipe.Node{n}}
	b := &recipe.Builder{}
	if groupForm {
		b.Forms = &recipe.Decisions{Draw: func(n int) int { return n - 1 }}
	}
	raw, rerr := rt.Render(b, fr)
	if rerr != nil {
		return "", rerr
	}
	return string(raw), nil
}

func checkList(c listCase) error {
	var with, without, marked []*recipe.Node
	var ids []string
	k := 0
	for i := 0; i < c.Arity; i++ {
		if c.Mask&(1<<uint(i%32)) != 0 {
			kind := mutate.NullKinds[c.Kinds[k%len(c.Kinds)]%len(mutate.NullKinds)]
			k++
			with = append(with, mutate.NullItem(kind))
			continue
		}
		if i == c.Empty {
			// Empty() in its various spellings: alone, or after / before tokens that are null
			variants := []*recipe.Node{recipe.Empty(), recipe.S().C("Null").C("Empty"), recipe.S().C("Add", recipe.Nil()).C("Empty"), recipe.S().C("Empty").C("Null"), recipe.S().C("List").C("Empty"), recipe.S().C("Add", recipe.S().C("Empty"))}
			e := variants[(int(c.Mask)+c.Arity+len(c.Kinds))%len(variants)]
			with = append(with, e)
			without = append(without, e.Clone())
			marked = append(marked, recipe.Id("MARK"))
			continue
		}
		id := fmt.Sprintf("a%02d", i)
		ids = append(ids, id)
		plain := recipe.Id(id)
		switch {
		case c.NullHead && i%8 == 4:
			// a group with delimiters whose items are all null: the delimiters stay (it is no null item)
			with = append(with, recipe.S().C("Custom", &recipe.Opts{Open: recipe.Text(id + "("), Close: ")", Separator: ","}, []*recipe.Node{recipe.Null(), recipe.Nil()}))
			plain = recipe.S().C("Custom", &recipe.Opts{Open: recipe.Text(id + "("), Close: ")", Separator: ","}, []*recipe.Node{})
		case c.NullHead && i%8 == 1:
			with = append(with, recipe.S().C("Null").C("Id", id))
		case c.NullHead && i%8 == 2:
			// the one real token exactly in the middle of null ones
			with = append(with, recipe.S().C("Null").C("Id", id).C("Null"))
		case c.NullHead && i%8 == 3:
			with = append(with, recipe.S().Add(recipe.Nil(), recipe.Id(id), recipe.Nil()))
		case c.NullHead && i%8 == 5:
			with = append(with, recipe.S().C("Null").Add(recipe.Nil()).C("Id", id).C("Null").C("List"))
		case c.NullHead && i%8 == 6:
			with = append(with, recipe.S().C("Id", id).C("Null").C("Null"))
		case c.NullHead && i%8 == 7:
			with = append(with, recipe.S().C("Null").C("Null").C("Null").C("Id", id).C("Null").C("Null").C("Null"))
		default:
			with = append(with, recipe.Id(id))
		}
		without = append(without, plain)
		marked = append(marked, plain.Clone())
	}
	if c.AfterFailures {
		// a qualified identifier as last item (a nil File panics when it meets one); the reference lists
		// hold it too but are built fresh and never put through a failing render
		with = append(with, recipe.Qual("a.b/zq", "Zq"))
		without = append(without, recipe.Qual("a.b/zq", "Zq"))
		marked = append(marked, recipe.Qual("a.b/zq", "Zq"))
	}
	got, err := renderListX(c.Fn, c.Opts, with, c.GroupForm, c.AfterFailures)
	if err != nil {
		return fmt.Errorf("render with nulls: %v", err)
	}
	want, err := renderList(c.Fn, c.Opts, without)
	if err != nil {
		return fmt.Errorf("render without nulls: %v", err)
	}
	if got != want {
		return fmt.Errorf("%s: with null items the list renders %q, without them %q", c.Fn, got, want)
	}
	// exactly the remaining items, in order
	seen := itemRe.FindAllString(got, -1)
	if strings.Join(seen, " ") != strings.Join(ids, " ") {
		return fmt.Errorf("%s: rendered items %v, want %v", c.Fn, seen, ids)
	}
	if c.Empty >= 0 && c.Empty < c.Arity && c.Mask&(1<<uint(c.Empty%32)) == 0 {
		// Empty() produces no text but takes part in separation like a real item
		mk, err := renderList(c.Fn, c.Opts, marked)
		if err != nil {
			return err
		}
		// raw text: the marker's characters removed, everything else (separators, newlines) kept
		if minus := strings.Replace(mk, "MARK", "", 1); got != minus {
			return fmt.Errorf("%s: with Empty() at %d the list renders %q; the same list with a marker there, marker removed, is %q", c.Fn, c.Empty, got, minus)
		}
	}
	return nil
}

// ---- (a'') the caller's slice: a list construct must not modify the slice it is given ----

type sliceCase struct {
	First  string `json:"first"`  // construct that receives the slice first
	Second string `json:"second"` // construct that receives the same slice afterwards
	Arity  int    `json:"arity"`
	Mask   uint32 `json:"mask"`  // positions holding a null-like item
	Kinds  []int  `json:"kinds"` // null kinds
}

func callSlice(fn string, items []jen.Code) (out string, err error) {
	defer func() {
		if p := recover(); p != nil {
			err = fmt.Errorf("panic: %v", p)
		}
	}()
	f := reflect.ValueOf(recipe.Funcs[fn])
	var st *jen.Statement
	if f.Type().NumIn() == 2 { // Custom(options, items...)
		st = f.CallSlice([]reflect.Value{reflect.ValueOf(jen.Options{Open: "<", Close: ">", Separator: ";"}), reflect.ValueOf(items)})[0].Interface().(*jen.Statement)
	} else {
		st = f.CallSlice([]reflect.Value{reflect.ValueOf(items)})[0].Interface().(*jen.Statement)
	}
	file := jen.NewFile("p")
	file.NoFormat = true
	file.Add(jen.Id("head").Add(st).Id("tail"))
	buf := &bytes.Buffer{}
	if err := file.Render(buf); err != nil {
		return "", err
	}
	return buf.String(), nil
}

func checkSlice(c sliceCase) error {
	mk := func() []jen.Code {
		var items []jen.Code
		k := 0
		b := &recipe.Builder{}
		for i := 0; i < c.Arity; i++ {
			if c.Mask&(1<<uint(i%32)) != 0 {
				items = append(items, b.Code(mutate.NullItem(mutate.NullKinds[c.Kinds[k%len(c.Kinds)]%len(mutate.NullKinds)])))
				k++
				continue
			}
			items = append(items, jen.Id(fmt.Sprintf("a%02d", i)))
		}
		return items
	}
	shared := mk()
	got1, err := callSlice(c.First, shared)
	if err != nil {
		return fmt.Errorf("%s: %v", c.First, err)
	}
	got2, err := callSlice(c.Second, shared) // the same slice again
	if err != nil {
		return fmt.Errorf("%s after %s on the same slice: %v", c.Second, c.First, err)
	}
	want1, _ := callSlice(c.First, mk())
	want2, _ := callSlice(c.Second, mk())
	if got1 != want1 {
		return fmt.Errorf("%s renders %q, want %q", c.First, got1, want1)
	}
	if got2 != want2 {
		return fmt.Errorf("the slice given to %s was then given to %s, which renders %q; with a fresh slice of the same items it renders %q (the first construct modified its caller's slice)", c.First, c.Second, got2, want2)
	}
	return nil
}

// ---- (a3) a null placeholder that is filled after the list was rendered ----

type fillCase struct {
	Fn    string `json:"fn"`
	Arity int    `json:"arity"`
	Hole  int    `json:"hole"`  // position of the placeholder
	Wrap  string `json:"wrap"`  // how the placeholder is wrapped: "" | List | Union | Add | Custom
	Other uint32 `json:"other"` // further positions holding plain Null()
}

// checkFill: a list with an empty-statement placeholder renders like the list without it; once
// the placeholder has received a token, the same list must show that token at that position.
func checkFill(c fillCase) error {
	build := func(filled bool) ([]jen.Code, *jen.Statement) {
		hole := &jen.Statement{}
		if filled {
			hole.Id("FILL")
		}
		var items []jen.Code
		for i := 0; i < c.Arity; i++ {
			switch {
			case i == c.Hole:
				switch c.Wrap {
				case "List":
					items = append(items, jen.List(hole))
				case "Union":
					items = append(items, jen.Union(hole, nil))
				case "Add":
					items = append(items, jen.Add(jen.Add(hole)))
				case "Custom":
					items = append(items, jen.Custom(jen.Options{Separator: ","}, jen.Null(), hole))
				default:
					items = append(items, hole)
				}
			case c.Other&(1<<uint(i)) != 0:
				items = append(items, jen.Null())
			default:
				items = append(items, jen.Id(fmt.Sprintf("a%02d", i)))
			}
		}
		return items, hole
	}
	items, hole := build(false)
	f := reflect.ValueOf(recipe.Funcs[c.Fn])
	var st *jen.Statement
	if f.Type().NumIn() == 2 {
		st = f.CallSlice([]reflect.Value{reflect.ValueOf(jen.Options{Open: "<", Close: ">", Separator: ";"}), reflect.ValueOf(items)})[0].Interface().(*jen.Statement)
	} else {
		st = f.CallSlice([]reflect.Value{reflect.ValueOf(items)})[0].Interface().(*jen.Statement)
	}
	render := func(s *jen.Statement) (string, error) {
		file := jen.NewFile("p")
		file.NoFormat = true
		file.Add(jen.Id("head").Add(s).Id("tail"))
		buf := &bytes.Buffer{}
		err := file.Render(buf)
		return buf.String(), err
	}
	before, err := render(st)
	if err != nil {
		return err
	}
	hole.Id("FILL") // the placeholder receives a token after the list has been rendered once
	after, err := render(st)
	if err != nil {
		return err
	}
	wantItems, _ := build(true)
	wantSt, err := callSlice(c.Fn, wantItems)
	if err != nil {
		return err
	}
	if after != wantSt {
		return fmt.Errorf("%s: a placeholder at position %d (wrapped in %q) was filled after a first render (%q); the list now renders %q, a fresh list with the filled placeholder renders %q", c.Fn, c.Hole, c.Wrap, before, after, wantSt)
	}
	return nil
}

var customOpts = []*recipe.Opts{
	{Open: "<", Close: ">", Separator: ";"},
	{Open: "", Close: "", Separator: ","},
	{Open: "(", Close: ")", Separator: ",", Multi: true},
	{Open: "[", Close: "]", Separator: "", Multi: true},
	{Open: "begin ", Close: " end", Separator: " then "},
}

func listFns() []string {
	var fns []string
	for fn := range mutate.ListFns {
		fns = append(fns, fn)
	}
	// deterministic order
	for i := range fns {
		for j := i + 1; j < len(fns); j++ {
			if fns[j] < fns[i] {
				fns[i], fns[j] = fns[j], fns[i]
			}
		}
	}
	return fns
}

// ---- (b) null policy on real programs ----

type progCase struct {
	Name string            `json:"name"`
	Root string            `json:"root,omitempty"`
	Src  recipe.Text       `json:"src"`
	Dec  *recipe.Decisions `json:"dec"`
}

var root = corpus.Default()

func checkProg(c progCase) error {
	p, status, _ := rt.Translate(c.Name, []byte(c.Src), root, nil, false)
	if status != rt.OK {
		return nil
	}
	base, err := rt.Render(&recipe.Builder{}, p.Recipe)
	if err != nil {
		return nil // C01's business
	}
	c.Dec.Rewind()
	inj, n := mutate.InjectNulls(p.Recipe, c.Dec, 6)
	if n == 0 {
		return nil
	}
	out, err := rt.Render(&recipe.Builder{}, inj)
	if err != nil {
		return fmt.Errorf("with %d injected null items the File no longer renders: %s", n, rt.Short(err.Error(), 800))
	}
	if !bytes.Equal(base, out) {
		return fmt.Errorf("with %d injected null items the output differs: %s", n, firstDiff(base, out))
	}
	return nil
}

func firstDiff(a, b []byte) string {
	la, lb := strings.Split(string(a), "\n"), strings.Split(string(b), "\n")
	for i := 0; i < len(la) && i < len(lb); i++ {
		if la[i] != lb[i] {
			return fmt.Sprintf("line %d: without %q, with %q", i+1, la[i], lb[i])
		}
	}
	return fmt.Sprintf("%d vs %d lines", len(la), len(lb))
}

func TestC13(t *testing.T) {
	r := hx.Start(t, "C13")
	defer r.Finish(t)
	r.Rule("(a) enumeration: every list construct (23 incl. Custom with 5 option sets) x arity 0..8 (thorough 0..12) x every subset of positions holding a null-like item (20 kinds: nil, typed nil *Statement / *Group, Null(), empty statement, Add(), List(), Union(), Tag(nil), Tag(map{}), delimiter-less Custom / CustomFunc groups (multi-line or not) made only of nulls, nests of those); the same Go slice handed to two constructs in a row; a null placeholder filled after a first render x Empty() at one real position; (b) null policy applied to every list construct and the File body of real programs (corpus third / all files); non-trivial = >= 1 injected null in a list with >= 1 real item; distinct by case")
	r.Assume("null-like items are only inserted as items of list constructs, never into a statement's call chain (Case(x).Null().Block() legitimately stops being a case block) and never beside a Dict in Values (documented precondition)")

	ckL := hx.Check[listCase]{Name: "synthetic_list", Fn: checkList}
	if !hx.Replay(r, ckL) {
		maxArity := 8
		if r.Thorough() {
			maxArity = 12
		}
		idx := 0
		for _, fn := range listFns() {
			optsList := []*recipe.Opts{nil}
			if fn == "Custom" {
				optsList = customOpts
			}
			for _, opts := range optsList {
				for arity := 0; arity <= maxArity; arity++ {
					for mask := uint32(0); mask < 1<<uint(arity); mask++ {
						idx++
						if !r.Mine(idx) {
							continue
						}
						// null kinds and the Empty position vary deterministically with the case index and seed
						h := uint64(idx)*2654435761 + r.Seed*40503
						c := listCase{Fn: fn, Opts: opts, Arity: arity, Mask: mask, Empty: -1, GroupForm: (h>>40)%3 == 0, NullHead: (h>>44)%3 == 0, AfterFailures: (h>>48)%5 == 0}
						for j := 0; j < 4; j++ {
							c.Kinds = append(c.Kinds, int((h>>(8*uint(j)))%uint64(len(mutate.NullKinds))))
						}
						if arity > 0 && h%3 == 0 {
							c.Empty = int((h >> 32) % uint64(arity))
						}
						hx.One(r, ckL, c)
						real := arity - popcount(mask)
						if mask != 0 && real > 0 {
							r.NonTrivial(fmt.Sprintf("%+v", c))
						}
						r.Class("construct:" + fn)
					}
				}
			}
		}
		r.Exhaustive(fmt.Sprintf("all list constructs x arity 0..%d x all subsets of null positions", maxArity))
	}

	// random null kinds at every masked position, larger arities
	ckR := hx.Check[listCase]{Name: "synthetic_list_random", Fn: checkList}
	fns := listFns()
	hx.Rapid(r, t, ckR, r.N(1500, 20000), func(rt *rapid.T) listCase {
		c := listCase{Fn: rapid.SampledFrom(fns).Draw(rt, "fn"), Arity: rapid.SampledFrom([]int{0, 1, 2, 3, 4, 5, 6, 7, 8, 9, 10, 12, 15, 16, 17, 24, 31, 32, 33, 63, 64, 65, 100, 127, 128, 129, 255, 256, 257, 1000}).Draw(rt, "arity"), Empty: -1}
		if c.Fn == "Custom" {
			c.Opts = &recipe.Opts{
				Open:      recipe.Text(rapid.SampledFrom([]string{"", "(", "<", "{", "x "}).Draw(rt, "open")),
				Close:     recipe.Text(rapid.SampledFrom([]string{"", ")", ">", "}", " y"}).Draw(rt, "close")),
				Separator: recipe.Text(rapid.SampledFrom([]string{"", ",", ";", "|", " + "}).Draw(rt, "sep")),
				Multi:     rapid.Bool().Draw(rt, "multi"),
			}
		}
		c.Mask = rapid.Uint32().Draw(rt, "mask") & (1<<uint(c.Arity) - 1)
		c.GroupForm = rapid.IntRange(0, 2).Draw(rt, "groupform") == 0
		c.NullHead = rapid.IntRange(0, 2).Draw(rt, "nullhead") == 0
		c.AfterFailures = rapid.IntRange(0, 3).Draw(rt, "afterfailures") == 0
		if c.AfterFailures {
			r.Class("after_failed_renders")
		}
		if c.GroupForm && c.NullHead {
			r.Class("group_methods_and_continued_Null")
		}
		n := rapid.IntRange(1, 8).Draw(rt, "nkinds")
		for i := 0; i < n; i++ {
			c.Kinds = append(c.Kinds, rapid.IntRange(0, len(mutate.NullKinds)-1).Draw(rt, "kind"))
		}
		if c.Arity > 0 && rapid.Bool().Draw(rt, "hasempty") {
			c.Empty = rapid.IntRange(0, c.Arity-1).Draw(rt, "empty")
		}
		if c.Mask != 0 && (c.Arity > 32 && c.Mask != 1<<32-1 || c.Arity-popcount(c.Mask) > 0) {
			r.NonTrivial(fmt.Sprintf("%+v", c))
		}
		if c.Arity > 31 {
			r.Class("arity>31")
		}
		return c
	})

	ckS := hx.Check[sliceCase]{Name: "shared_slice", Fn: checkSlice}
	hx.Rapid(r, t, ckS, r.N(1500, 15000), func(rt *rapid.T) sliceCase {
		c := sliceCase{First: rapid.SampledFrom(fns).Draw(rt, "first"), Second: rapid.SampledFrom(fns).Draw(rt, "second"), Arity: rapid.OneOf(rapid.IntRange(1, 9), rapid.IntRange(1, 9), rapid.SampledFrom([]int{15, 16, 17, 31, 32, 33, 63, 64, 65, 100, 128, 129})).Draw(rt, "arity")}
		c.Mask = rapid.Uint32().Draw(rt, "mask") & (1<<uint(c.Arity) - 1)
		for i := rapid.IntRange(1, 4).Draw(rt, "nkinds"); i > 0; i-- {
			c.Kinds = append(c.Kinds, rapid.IntRange(0, len(mutate.NullKinds)-1).Draw(rt, "kind"))
		}
		if c.Mask != 0 {
			r.NonTrivial(fmt.Sprintf("%+v", c))
			r.Class("shared_slice_with_nulls")
		}
		return c
	})

	hx.Rapid(r, t, hx.Check[fillCase]{Name: "fill_after_render", Fn: checkFill}, r.N(1500, 15000), func(rt *rapid.T) fillCase {
		c := fillCase{Fn: rapid.SampledFrom(fns).Draw(rt, "fn"), Arity: rapid.IntRange(1, 6).Draw(rt, "arity"), Wrap: rapid.SampledFrom([]string{"", "List", "Union", "Add", "Custom"}).Draw(rt, "wrap")}
		c.Hole = rapid.IntRange(0, c.Arity-1).Draw(rt, "hole")
		c.Other = rapid.Uint32().Draw(rt, "other") & (1<<uint(c.Arity) - 1)
		r.NonTrivial(fmt.Sprintf("%+v", c))
		r.Class("fill_after_render")
		return c
	})

	// (b) programs
	ckP := hx.Check[progCase]{Name: "program_null_policy", Fn: checkProg}
	if !hx.Replay(r, ckP) {
		files := corpus.Files(root.Dir)
		var wg sync.WaitGroup
		sem := make(chan struct{}, runtime.NumCPU())
		for i, f := range files {
			if r.Thorough() {
				if !r.Mine(i) {
					continue
				}
			} else if (uint64(i)+r.Seed)%3 != 1 {
				continue
			}
			wg.Add(1)
			sem <- struct{}{}
			go func(i int, f string) {
				defer wg.Done()
				defer func() { <-sem }()
				src, err := os.ReadFile(f)
				if err != nil {
					return
				}
				// decisions from a splitmix stream seeded by (seed, file index): reproducible and recorded
				state := r.Seed*0x9E3779B97F4A7C15 + uint64(i)*0xBF58476D1CE4E5B9 + 1
				dec := &recipe.Decisions{Draw: func(n int) int {
					state += 0x9E3779B97F4A7C15
					z := state
					z = (z ^ (z >> 30)) * 0xBF58476D1CE4E5B9
					z = (z ^ (z >> 27)) * 0x94D049BB133111EB
					z ^= z >> 31
					return int(z % uint64(n))
				}}
				c := progCase{Name: f, Src: recipe.Text(src), Dec: dec}
				p, status, _ := rt.Translate(c.Name, src, root, nil, false)
				if status != rt.OK {
					r.Class("program_skipped")
					return
				}
				_, n := mutate.InjectNulls(p.Recipe, dec, 6)
				if r.Violations() < 2 && hx.Safe(func() error { return checkProg(c) }) != nil {
					// minimise the program (the decisions are replayed on every candidate)
					c.Src = recipe.Text(shrink.Source(src, func(b []byte) bool {
						return hx.Safe(func() error { return checkProg(progCase{Name: c.Name, Src: recipe.Text(b), Dec: c.Dec}) }) != nil
					}, 15*time.Second))
				}
				ok := hx.One(r, ckP, c)
				r.ClassN("injected_null_items", n)
				if ok && n > 0 {
					r.Class("program_with_nulls")
					r.NonTrivial(f)
				}
			}(i, f)
		}
		wg.Wait()
	}
}

func popcount(x uint32) int {
	n := 0
	for ; x != 0; x &= x - 1 {
		n++
	}
	return n
}
