package c13

import "github.com/dave/jennifer/jen"

// The first Custom groups this process renders have no delimiters (one with items, one made of nulls only):
// what a library concludes from the first group of a kind it meets must not carry over to the next.
func init() {
	defer func() { _ = recover() }()
	_ = jen.Id("first").Op("=").Custom(jen.Options{Separator: "+"}, jen.Id("a"), jen.Null(), jen.Id("b")).GoString()
	_ = jen.Id("f").Call(jen.Id("x"), jen.Custom(jen.Options{Separator: ","}, jen.Null(), nil), jen.Id("y")).GoString()
	_ = jen.Id("g").Call(jen.List(), jen.ListFunc(func(g *jen.Group) {}), jen.Union()).GoString()
}
