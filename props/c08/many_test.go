package c08

import (
	"bytes"
	"fmt"
	"testing"

	"github.com/dave/jennifer/jen"
	"pgregory.net/rapid"

	"verif/internal/gen"
	"verif/internal/hx"
	"verif/internal/recipe"
)

// manyCase: one File rendered a great many times, and fragments rendered against it as often: render
// number 1000 gives what render number 1 gave (whatever a File counts while it renders returns to where it
// was).
type manyCase struct {
	File  *recipe.File `json:"file"`
	Times int          `json:"times"`
}

// zeroGroups: every group construct without items (some of them render nothing at all, some their
// delimiters only): the short ways out of a render function.
func zeroGroups() []*recipe.Node {
	return []*recipe.Node{
		recipe.S().C("Func").C("Id", "zz0").C("Types").C("Params").C("Params").C("Block"),
		recipe.S().C("Func").C("Params", recipe.Id("r").C("Id", "T").C("Types")).C("Id", "zz1").C("Params").C("Block", recipe.S().C("Return").C("List")),
		recipe.S().C("Var").C("Id", "zz2").C("Op", "=").C("Index").C("Int").C("Values").C("Line").C("Var").C("Id", "zz3").C("Id", "G").C("Types").C("Union"),
		recipe.S().C("Type").C("Id", "zz4").C("Types").C("Struct").C("Line").C("Type").C("Id", "zz5").C("Interface"),
		recipe.S().C("Var").C("Defs").C("Line").C("Const").C("Defs", recipe.Null()),
		recipe.S().C("Func").C("Id", "zz6").C("Params").C("Block", recipe.S().C("Switch").C("Block", recipe.S().C("Case").C("Block"), recipe.S().C("Default").C("Block"))),
	}
}

func checkMany(c manyCase) error {
	f := (&recipe.Builder{}).File(c.File)
	first := ""
	render := func() string {
		buf := &bytes.Buffer{}
		if err := f.Render(buf); err != nil {
			return "ERROR: " + err.Error()
		}
		return "OK:" + buf.String()
	}
	frag := jen.Func().Id("frag").Types().Params().Block(jen.Return().List())
	firstFrag := ""
	for i := 1; i <= c.Times; i++ {
		out := render()
		if i == 1 {
			first = out
		} else if out != first {
			return fmt.Errorf("render %d of one File differs from render 1 (nothing was changed in between)\n--- render 1 ---\n%s\n--- render %d ---\n%s", i, first, i, out)
		}
		if i%4 == 0 {
			b := &bytes.Buffer{}
			fo := "OK:"
			if err := frag.RenderWithFile(b, f); err != nil {
				fo = "ERROR: " + err.Error()
			}
			fo += b.String()
			if firstFrag == "" {
				firstFrag = fo
			} else if fo != firstFrag {
				return fmt.Errorf("fragment render %d with one File differs from the first one\n--- first ---\n%s\n--- now ---\n%s", i/4, firstFrag, fo)
			}
		}
	}
	return nil
}

func TestC08Many(t *testing.T) {
	r := hx.Start(t, "C08")
	defer r.Finish(t)
	r.Rule("many_renders: Files of plausible declarations plus group constructs without items (Types(), Params(), List(), Values(), Union(), Defs(), Case(), empty Blocks) rendered 1200..2600 times, a fragment rendered against the File every fourth time: every render equals the first")
	hx.Rapid(r, t, hx.Check[manyCase]{Name: "many_renders", Fn: checkMany}, r.N(12, 60), func(rt *rapid.T) manyCase {
		f := gen.FileSettings(rt)
		var keep []recipe.FileOp
		for _, op := range f.Ops {
			if op.Op != "NoFormat" || rapid.Bool().Draw(rt, "keepnoformat") {
				keep = append(keep, op)
			}
		}
		f.Ops = keep
		for i := rapid.IntRange(0, 2).Draw(rt, "ndecls"); i > 0; i-- {
			f.Body = append(f.Body, gen.Decl(rt, 2))
		}
		zg := zeroGroups()
		for i := rapid.IntRange(1, 3).Draw(rt, "nzero"); i > 0; i-- {
			f.Body = append(f.Body, zg[rapid.IntRange(0, len(zg)-1).Draw(rt, "zero")].Clone())
		}
		c := manyCase{File: f, Times: rapid.SampledFrom([]int{1200, 1500, 2100, 2600}).Draw(rt, "times")}
		r.NonTrivial(recipe.JSON(c))
		r.Class("many_renders")
		return c
	})
}
