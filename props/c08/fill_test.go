package c08

import (
	"bytes"
	"fmt"
	"testing"

	"github.com/dave/jennifer/jen"
	"pgregory.net/rapid"

	"verif/internal/hx"
)

// fillCase: a group obtained from a ...Func callback is kept by the caller and filled only after
// the statement (and the File holding it) has been rendered a few times while the group was
// still empty. The next render shows the items — exactly what a File shows that was built with
// the filled group and never rendered before.
type fillCase struct {
	Construct string `json:"construct"` // which ...Func construct hands out the group
	Early     int    `json:"early"`     // renders while the group is empty
	Via       string `json:"via"`       // entry point of the early renders: file | stmt | group
	Items     int    `json:"items"`     // items added afterwards
	NoFormat  bool   `json:"noformat,omitempty"`
}

var fillConstructs = []string{"TypesFunc", "ListFunc", "CustomFunc", "ParamsFunc", "CallFunc", "BlockFunc", "ValuesFunc", "IndexFunc", "DefsFunc", "StructFunc", "CaseFunc", "UnionFunc", "AddFunc"}

func (c fillCase) build(fillNow bool) (f *jen.File, st *jen.Statement, g *jen.Group) {
	f = jen.NewFile("p")
	f.NoFormat = c.NoFormat
	fill := func(x *jen.Group) {
		for i := 0; i < c.Items; i++ {
			if c.Construct == "BlockFunc" || c.Construct == "DefsFunc" {
				x.Id("_").Op("=").Qual(fmt.Sprintf("a.b/foo%d", i%2), "X")
			} else if c.Construct == "StructFunc" {
				x.Id(fmt.Sprintf("F%d", i)).Qual(fmt.Sprintf("a.b/foo%d", i%2), "X")
			} else {
				x.Qual(fmt.Sprintf("a.b/foo%d", i%2), "X")
			}
		}
	}
	cb := func(x *jen.Group) {
		g = x
		if fillNow {
			fill(x)
		}
	}
	switch c.Construct {
	case "TypesFunc":
		st = jen.Func().Id("F").TypesFunc(cb).Params().Block()
	case "ListFunc":
		st = jen.Var().Id("_").Op("=").Index().Id("T").Values(jen.ListFunc(cb))
	case "CustomFunc":
		st = jen.Var().Id("_").Op("=").Index().Id("T").Values(jen.CustomFunc(jen.Options{Separator: ","}, cb))
	case "ParamsFunc":
		st = jen.Func().Id("F").ParamsFunc(cb).Block()
	case "CallFunc":
		st = jen.Var().Id("_").Op("=").Id("f").CallFunc(cb)
	case "BlockFunc":
		st = jen.Func().Id("F").Params().BlockFunc(cb)
	case "ValuesFunc":
		st = jen.Var().Id("_").Op("=").Index().Id("T").ValuesFunc(cb)
	case "IndexFunc":
		st = jen.Var().Id("_").Id("G").IndexFunc(cb)
	case "DefsFunc":
		st = jen.Var().DefsFunc(cb)
	case "StructFunc":
		st = jen.Type().Id("S").StructFunc(cb)
	case "CaseFunc":
		st = jen.Func().Id("F").Params().Block(jen.Switch(jen.Id("v")).Block(jen.CaseFunc(cb).Block()))
	case "UnionFunc":
		st = jen.Type().Id("C").Interface(jen.UnionFunc(cb))
	case "AddFunc":
		st = jen.Var().Id("_").Op("=").Index().Id("T").Values(jen.List(jen.Id("first")), jen.ListFunc(cb))
	}
	f.Add(st)
	return f, st, g
}

func checkFillGroup(c fillCase) error {
	var got, want string
	var gerr, werr error
	if perr := hx.Safe(func() error {
		f, st, g := c.build(false)
		for i := 0; i < c.Early; i++ {
			switch c.Via {
			case "stmt":
				_ = st.RenderWithFile(&bytes.Buffer{}, f)
			case "group":
				_ = g.RenderWithFile(&bytes.Buffer{}, f)
			default:
				_ = f.Render(&bytes.Buffer{})
			}
		}
		// now the caller fills the group it kept
		full, _, _ := c.build(true)
		for i := 0; i < c.Items; i++ {
			if c.Construct == "BlockFunc" || c.Construct == "DefsFunc" {
				g.Id("_").Op("=").Qual(fmt.Sprintf("a.b/foo%d", i%2), "X")
			} else if c.Construct == "StructFunc" {
				g.Id(fmt.Sprintf("F%d", i)).Qual(fmt.Sprintf("a.b/foo%d", i%2), "X")
			} else {
				g.Qual(fmt.Sprintf("a.b/foo%d", i%2), "X")
			}
		}
		b1, b2 := &bytes.Buffer{}, &bytes.Buffer{}
		gerr = f.Render(b1)
		werr = full.Render(b2)
		got, want = b1.String(), b2.String()
		return nil
	}); perr != nil {
		return perr
	}
	if (gerr == nil) != (werr == nil) || got != want {
		return fmt.Errorf("%s: the group was rendered %d time(s) (%s) while empty, then given %d items; the File now renders\n%s\n(err %v); a File built with the filled group renders\n%s\n(err %v)", c.Construct, c.Early, c.Via, c.Items, got, gerr, want, werr)
	}
	return nil
}

func TestC08Fill(t *testing.T) {
	r := hx.Start(t, "C08")
	defer r.Finish(t)
	r.Rule("fill_group_after_render: for each of 13 ...Func constructs the group handed to the callback is kept, the statement / group / File rendered 0..3 times while the group is empty, then 1..4 items (qualified identifiers of two packages) are added to the kept group; the File must render what a File built with the filled group renders")
	hx.Rapid(r, t, hx.Check[fillCase]{Name: "fill_group_after_render", Fn: checkFillGroup}, r.N(400, 4000), func(rt *rapid.T) fillCase {
		c := fillCase{
			Construct: rapid.SampledFrom(fillConstructs).Draw(rt, "construct"),
			Early:     rapid.IntRange(0, 3).Draw(rt, "early"),
			Via:       rapid.SampledFrom([]string{"file", "stmt", "group"}).Draw(rt, "via"),
			Items:     rapid.IntRange(1, 4).Draw(rt, "items"),
			NoFormat:  rapid.IntRange(0, 3).Draw(rt, "noformat") == 0,
		}
		if c.Early > 0 {
			r.NonTrivial(fmt.Sprintf("%+v", c))
		}
		r.Class("fill:" + c.Construct)
		return c
	})
}
