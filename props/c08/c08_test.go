// C08 Rendering is repeatable and import names are stable across renders.
package c08

import (
	"bytes"
	"fmt"
	"go/ast"
	"go/parser"
	"go/token"
	"os"
	"path/filepath"
	"sort"
	"strconv"
	"strings"
	"testing"

	"github.com/dave/jennifer/jen"
	"pgregory.net/rapid"

	"verif/internal/hx"
	"verif/internal/impcheck"
	"verif/internal/recipe"
	"verif/internal/stdpkg"
)

var paths = []string{"a/d", "b/d", "c/d", "fmt", "x/fmt", "math/rand", "crypto/rand", "q/e", "x.y/D", "os", "r/e", "local/pkg", "C", "math/rand/v2"}

type Action struct {
	Kind string `json:"kind"` // add | render_file | render_stmt | render_group | hint_name | hint_alias | anon | prefix
	I    int    `json:"i,omitempty"`
	Path string `json:"path,omitempty"`
	Name string `json:"name,omitempty"`
	Reps int    `json:"reps,omitempty"`
}

type Case struct {
	NoFormat bool           `json:"noformat,omitempty"`
	Ctor     string         `json:"ctor"`
	Args     []recipe.Text  `json:"args"`
	Pool     []*recipe.Node `json:"pool"`
	Actions  []Action       `json:"actions"`
}

func marker(p int) string { return "S" + strconv.Itoa(p) }

func ref(t *rapid.T) *recipe.Node {
	p := rapid.IntRange(0, len(paths)-1).Draw(t, "path")
	return recipe.Qual(paths[p], marker(p))
}

// genStmt draws a pool statement. decl = usable as a top-level declaration.
func genStmt(t *rapid.T) *recipe.Node {
	switch rapid.IntRange(0, 10).Draw(t, "stmtkind") {
	case 10: // values that come from callbacks (an id allocator): asked once, when the statement is built
		return recipe.S().C("Var").C("Id", "_").C("Op", "=").C("Index").C("Interface").C("Values",
			recipe.S().C("LitFunc", recipe.V(rapid.IntRange(1, 99).Draw(t, "litfunc"))), ref(t), recipe.S().C("LitRuneFunc", recipe.Rune('x')), recipe.S().C("LitByteFunc", recipe.Byte(7)))
	case 9: // a struct whose field carries a tag with keys that differ in letter case only
		tag := []recipe.TagKV{{K: "json", V: "a"}, {K: "JSON", V: "b"}, {K: "Json", V: "c"}, {K: "xml", V: "d"}, {K: "XML", V: "e"}}
		k := rapid.IntRange(2, len(tag)).Draw(t, "ntagkeys")
		return recipe.S().C("Var").C("Id", "_").C("Struct", recipe.Id("F").Add(ref(t)).C("Tag", tag[:k]))
	case 8: // a fragment that cannot be formatted: its renders fail, every time in the same way, and leave nothing behind
		return recipe.Id("x").C("Op", ":=").Add(ref(t)).C("Op", rapid.SampledFrom([]string{")", "}", "+", "]"}).Draw(t, "stray")).Add(ref(t))
	case 0: // var _ = []interface{}{refs...}
		var vals []*recipe.Node
		for i := rapid.IntRange(1, 4).Draw(t, "n"); i > 0; i-- {
			vals = append(vals, ref(t))
		}
		return recipe.S().C("Var").C("Id", "_").C("Op", "=").C("Index").C("Interface").C("Values", vals)
	case 1: // var _ = T{Dict with qualified keys and values}
		var pairs []recipe.Pair
		for i := rapid.IntRange(1, 4).Draw(t, "n"); i > 0; i-- {
			pairs = append(pairs, recipe.Pair{K: ref(t), V: ref(t)})
		}
		if rapid.Bool().Draw(t, "nullpair") {
			pairs = append(pairs, recipe.Pair{K: ref(t), V: recipe.Null()})
		}
		return recipe.S().C("Var").C("Id", "_").C("Op", "=").C("Map", recipe.S().C("Interface")).C("Interface").C("Values", recipe.Dict(pairs...))
	case 2, 3: // func _() { switch v { case refs: body; default: } } with nil / null / captured case bodies
		var clauses []*recipe.Node
		for i := rapid.IntRange(1, 3).Draw(t, "nclauses"); i > 0; i-- {
			cl := recipe.S().C("Case", ref(t), ref(t))
			switch rapid.IntRange(0, 4).Draw(t, "bodykind") {
			case 0:
				cl = cl.C("Block", recipe.Nil())
			case 1:
				cl = cl.C("Block", recipe.Null())
			case 2:
				cl = cl.C("Block")
			case 3: // BlockFunc: the group is captured and rendered on its own as well
				cl.Calls = append(cl.Calls, recipe.Call{Fn: "BlockFunc", Items: []*recipe.Node{recipe.Id("_").C("Op", "=").Add(ref(t))}})
			default:
				cl = cl.C("Block", recipe.Id("_").C("Op", "=").Add(ref(t)), recipe.Nil())
			}
			clauses = append(clauses, cl)
		}
		if rapid.Bool().Draw(t, "default") {
			d := recipe.S().C("Default")
			if rapid.Bool().Draw(t, "defaultfunc") {
				d.Calls = append(d.Calls, recipe.Call{Fn: "BlockFunc", Items: []*recipe.Node{recipe.Id("_").C("Op", "=").Add(ref(t))}})
			} else {
				d = d.C("Block", recipe.Nil())
			}
			clauses = append(clauses, d)
		}
		sw := recipe.S().C("Switch", recipe.Id("v")).C("Block", clauses)
		return recipe.S().C("Func").C("Id", "_").C("Params", recipe.Id("v").C("Interface")).C("Block", sw)
	case 4: // statement-level fragment: x := f(refs)
		return recipe.Id("x").C("Op", ":=").C("Id", "f").C("Call", ref(t), ref(t))
	case 5: // func with a captured body group
		n := recipe.S().C("Func").C("Id", "_").C("Params")
		n.Calls = append(n.Calls, recipe.Call{Fn: "BlockFunc", Items: []*recipe.Node{recipe.Id("_").C("Op", "=").Add(ref(t)), recipe.S().C("Return")}})
		return n
	case 6: // type with field of qualified type
		return recipe.S().C("Var").C("Id", "_").C("Struct", recipe.Id("F").Add(ref(t)))
	}
	return recipe.S().C("Var").C("Id", "_").C("Op", "=").Add(ref(t)).C("Op", "+").Add(ref(t))
}

func genCase(maxSteps int) func(t *rapid.T) Case {
	return func(t *rapid.T) Case {
		c := Case{}
		switch rapid.IntRange(0, 2).Draw(t, "ctor") {
		case 0:
			c.Ctor, c.Args = "NewFile", []recipe.Text{"p"}
		case 1:
			c.Ctor, c.Args = "NewFilePathName", []recipe.Text{"local/pkg", "p"}
		case 2:
			c.Ctor, c.Args = "NewFilePath", []recipe.Text{"local/pkg"}
		}
		c.NoFormat = rapid.IntRange(0, 2).Draw(t, "noformat") == 0
		np := rapid.IntRange(1, 6).Draw(t, "npool")
		for i := 0; i < np; i++ {
			c.Pool = append(c.Pool, genStmt(t))
		}
		steps := rapid.IntRange(2, maxSteps).Draw(t, "steps")
		for i := 0; i < steps; i++ {
			a := Action{Kind: rapid.SampledFrom([]string{"add", "render_file", "render_file", "render_stmt", "render_stmt", "render_group", "hint_name", "hint_alias", "hint_alias", "anon", "prefix", "preamble", "canonical"}).Draw(t, "action")}
			switch a.Kind {
			case "add", "render_stmt", "render_group":
				a.I = rapid.IntRange(0, 40).Draw(t, "idx")
			case "render_file":
				// the File's other entry points render it just the same
				a.Name = rapid.SampledFrom([]string{"", "", "gostring", "save"}).Draw(t, "via")
			case "hint_name":
				a.Path = rapid.SampledFrom(paths).Draw(t, "hpath")
				a.Name = rapid.SampledFrom([]string{"d", "e", "foo", "rand", "fmt", "d1", "zz"}).Draw(t, "hname")
			case "hint_alias":
				a.Path = rapid.SampledFrom(paths).Draw(t, "hpath")
				a.Name = rapid.SampledFrom([]string{"d", "e", "foo", "rand", ".", ".", "d1", "al"}).Draw(t, "halias")
			case "anon":
				a.Path = rapid.SampledFrom(paths).Draw(t, "apath")
			case "canonical":
				// the import-path annotation of the package clause: often a path the body refers to
				a.Path = rapid.SampledFrom(append([]string{"", "example.com/canonical"}, paths...)).Draw(t, "cpath")
			case "prefix":
				a.Name = rapid.SampledFrom([]string{"", "pkg", "p2"}).Draw(t, "prefix")
			case "preamble":
				a.Name = rapid.SampledFrom([]string{"#include <stdio.h>", "", " ", "#include <a.h>\n#include <b.h>", "// raw"}).Draw(t, "preamble")
			}
			a.Reps = rapid.IntRange(2, 3).Draw(t, "reps")
			c.Actions = append(c.Actions, a)
			if a.Kind == "anon" && rapid.Bool().Draw(t, "anonthenhint") {
				// the blank import is followed by a hint for the same path, before anything refers to it
				c.Actions = append(c.Actions, Action{Kind: "hint_alias", Path: a.Path, Name: rapid.SampledFrom([]string{".", ".", "al", "d"}).Draw(t, "anonhint"), Reps: 2})
			}
		}
		return c
	}
}

// quals extracts marker -> qualifier ("" = bare) from a rendered fragment or file.
func quals(src string) (map[string]string, error) {
	fset := token.NewFileSet()
	var root ast.Node
	if f, err := parser.ParseFile(fset, "", src, 0); err == nil {
		root = f
	} else if f, err := parser.ParseFile(fset, "", "package p;"+src, 0); err == nil {
		root = f
	} else if f, err := parser.ParseFile(fset, "", "package p; func _() {"+src+"\n}", 0); err == nil {
		root = f
	} else {
		return nil, err
	}
	out := map[string]string{}
	conflict := ""
	isMarker := func(s string) bool {
		if len(s) < 2 || s[0] != 'S' {
			return false
		}
		_, err := strconv.Atoi(s[1:])
		return err == nil
	}
	sel := map[*ast.Ident]bool{}
	ast.Inspect(root, func(n ast.Node) bool {
		switch n := n.(type) {
		case *ast.SelectorExpr:
			if q, ok := n.X.(*ast.Ident); ok && isMarker(n.Sel.Name) {
				sel[n.Sel] = true
				if prev, ok := out[n.Sel.Name]; ok && prev != q.Name {
					conflict = n.Sel.Name
				}
				out[n.Sel.Name] = q.Name
			}
		case *ast.Ident:
			if isMarker(n.Name) && !sel[n] {
				if prev, ok := out[n.Name]; ok && prev != "" {
					conflict = n.Name
				}
				out[n.Name] = ""
			}
		}
		return true
	})
	if conflict != "" {
		return nil, fmt.Errorf("marker %s appears under two qualifiers in one output", conflict)
	}
	return out, nil
}

func check(c Case) error {
	fr := &recipe.File{Ctor: c.Ctor, Args: c.Args}
	b := &recipe.Builder{}
	f := b.File(fr)
	f.NoFormat = c.NoFormat
	local := ""
	if c.Ctor != "NewFile" {
		local = string(c.Args[0])
	}
	// pool objects are built once; nothing is ever appended to them afterwards
	var stmts []*jen.Statement
	var groups []*jen.Group
	for _, n := range c.Pool {
		before := len(b.Groups)
		stmts = append(stmts, b.Stmt(n))
		groups = append(groups, b.Groups[before:]...)
	}
	// model
	name := map[string]string{}     // path -> qualifier at first sighting ("" = bare)
	realAt := map[string]string{}   // path -> real package name asserted at first sighting
	hintName := map[string]string{} // current ImportName hints
	anon := map[string]bool{}
	// paths of fragments whose render with this File failed: the failed render may have registered them
	// (registration happens while rendering, the failure is only found when formatting), no output shows them
	failedRef := map[string]bool{}
	failedReal := map[string]string{}
	preamble := false // a cgo preamble was supplied: import "C" is then declared whether or not C is referenced
	lastStmt := map[int]string{}
	lastGroup := map[int]string{}
	lastFileBody := ""
	haveFileBody := false
	addedSince := true

	sight := func(step int, what, out string) error {
		qs, err := quals(out)
		if err != nil {
			return nil // an output that does not parse as Go was an error result; nothing to read
		}
		ms := make([]string, 0, len(qs))
		for m := range qs {
			ms = append(ms, m)
		}
		sort.Strings(ms)
		for _, m := range ms {
			idx, _ := strconv.Atoi(m[1:])
			p := paths[idx]
			q := qs[m]
			if prev, ok := name[p]; ok {
				if prev != q {
					return fmt.Errorf("step %d (%s): path %q appeared as qualifier %q in an earlier output of this File and now appears as %q\n%s", step, what, p, prev, q, out)
				}
				continue
			}
			name[p] = q
			if p == "C" {
				realAt[p] = "C"
			} else if h, ok := failedReal[p]; ok {
				// registered earlier, by a fragment render that failed: the hints of that moment count
				realAt[p] = h
			} else if h, ok := hintName[p]; ok {
				realAt[p] = h
			} else {
				realAt[p] = stdpkg.Name(p)
			}
		}
		return nil
	}
	renderN := func(step int, what string, reps int, fn func(w *bytes.Buffer) error) (string, error) {
		first := ""
		for i := 0; i < reps; i++ {
			buf := &bytes.Buffer{}
			var res string
			if perr := hx.Safe(func() error {
				if err := fn(buf); err != nil {
					res = "ERROR: " + err.Error()
				} else {
					res = "OK:" + buf.String()
				}
				return nil
			}); perr != nil {
				return "", fmt.Errorf("step %d (%s), render %d: %v", step, what, i+1, perr)
			}
			if i == 0 {
				first = res
			} else if res != first {
				return "", fmt.Errorf("step %d (%s): render %d of the same object differs from render 1\n--- 1 ---\n%s\n--- %d ---\n%s", step, what, i+1, first, i+1, res)
			}
		}
		return first, nil
	}
	for step, a := range c.Actions {
		switch a.Kind {
		case "add":
			// only declaration-level pool statements are added to the File (a statement-level
			// fragment would make every later File.Render fail, which teaches nothing)
			k := a.I % len(stmts)
			for j := 0; j < len(stmts); j++ {
				if fn := c.Pool[(k+j)%len(stmts)].Calls[0].Fn; fn == "Var" || fn == "Func" || fn == "Type" {
					f.Add(stmts[(k+j)%len(stmts)])
					addedSince = true
					break
				}
			}
		case "preamble":
			f.CgoPreamble(a.Name)
			preamble = true
		case "hint_name":
			if a.Path == local || a.Path == "C" {
				continue // (hints for the pseudo-package are ignored by jennifer; the model does not follow them)
			}
			f.ImportName(a.Path, a.Name)
			hintName[a.Path] = a.Name
		case "hint_alias":
			if a.Path == local || a.Path == "C" {
				continue
			}
			f.ImportAlias(a.Path, a.Name)
			delete(hintName, a.Path)
		case "anon":
			if _, sighted := name[a.Path]; sighted || failedRef[a.Path] || a.Path == local || a.Path == "C" {
				continue // Anon on an already referenced path is outside the property
			}
			f.Anon(a.Path)
			anon[a.Path] = true
		case "prefix":
			f.PackagePrefix = a.Name
		case "canonical":
			// an annotation on the package clause; it names no import and makes no path local
			f.CanonicalPath = a.Path
		case "render_stmt":
			i := a.I % len(stmts)
			what := fmt.Sprintf("Statement %d RenderWithFile", i)
			out, err := renderN(step, what, a.Reps, func(w *bytes.Buffer) error { return stmts[i].RenderWithFile(w, f) })
			if err != nil {
				return err
			}
			if prev, ok := lastStmt[i]; ok && prev != out {
				return fmt.Errorf("step %d (%s): nothing was appended to the statement, yet it renders differently from its previous render with this File\n--- before ---\n%s\n--- now ---\n%s", step, what, prev, out)
			}
			lastStmt[i] = out
			if strings.HasPrefix(out, "OK:") {
				if err := sight(step, what, out[3:]); err != nil {
					return err
				}
			} else {
				recipe.Walk(c.Pool[i], func(x *recipe.Node) {
					if x != nil {
						for _, cl := range x.Calls {
							if cl.Fn == "Qual" {
								p := string(cl.Str[0])
								if _, seen := name[p]; !seen && !failedRef[p] {
									if h, ok := hintName[p]; ok {
										failedReal[p] = h
									} else {
										failedReal[p] = stdpkg.Name(p)
									}
								}
								failedRef[p] = true
							}
						}
					}
				})
			}
		case "render_group":
			if len(groups) == 0 {
				continue
			}
			i := a.I % len(groups)
			what := fmt.Sprintf("Group %d RenderWithFile", i)
			out, err := renderN(step, what, a.Reps, func(w *bytes.Buffer) error { return groups[i].RenderWithFile(w, f) })
			if err != nil {
				return err
			}
			if prev, ok := lastGroup[i]; ok && prev != out {
				return fmt.Errorf("step %d (%s): the group renders differently from its previous render with this File\n--- before ---\n%s\n--- now ---\n%s", step, what, prev, out)
			}
			lastGroup[i] = out
			if strings.HasPrefix(out, "OK:") {
				if err := sight(step, what, out[3:]); err != nil {
					return err
				}
			}
		case "render_file":
			what := "File.Render"
			entry := func(w *bytes.Buffer) error { return f.Render(w) }
			switch a.Name {
			case "gostring":
				what = "File.GoString"
				entry = func(w *bytes.Buffer) (err error) {
					defer func() {
						if p := recover(); p != nil {
							if e, ok := p.(error); ok {
								err = e // GoString panics with the error Render returns
								return
							}
							panic(p)
						}
					}()
					w.WriteString(f.GoString())
					return nil
				}
			case "save":
				what = "File.Save"
				entry = func(w *bytes.Buffer) error {
					dir, derr := os.MkdirTemp("", "c08save")
					if derr != nil {
						return f.Render(w)
					}
					defer os.RemoveAll(dir)
					p := filepath.Join(dir, "out.go")
					if err := f.Save(p); err != nil {
						return err
					}
					b, rerr := os.ReadFile(p)
					if rerr != nil {
						return rerr
					}
					w.Write(b)
					return nil
				}
			}
			out, err := renderN(step, what, a.Reps, entry)
			if err != nil {
				return err
			}
			if !strings.HasPrefix(out, "OK:") {
				if haveFileBody && !addedSince && strings.HasPrefix(lastFileBody, "OK") {
					return fmt.Errorf("step %d: File.Render succeeded before and fails now although nothing was added: %s", step, out)
				}
				continue
			}
			src := out[3:]
			if err := sight(step, what, src); err != nil {
				return err
			}
			// the File's own view: imports and resolution
			mk := map[string]string{}
			for i, p := range paths {
				mk[marker(i)] = p
			}
			rep, aerr := impcheck.Analyze([]byte(src), &impcheck.World{
				Real: func(p string) string {
					if r, ok := realAt[p]; ok && r != "" {
						return r
					}
					return "zzreal"
				},
				Markers: mk, LocalPath: local, HasLocal: true,
			})
			if aerr != nil {
				return fmt.Errorf("step %d: %v", step, aerr)
			}
			for _, u := range rep.Uses {
				if u.Path != mk[u.Marker] {
					return fmt.Errorf("step %d: in the File's output marker %s (path %q) written %q resolves to %q\n%s", step, u.Marker, mk[u.Marker], u.Qualifier, u.Path, src)
				}
			}
			declared := map[string]impcheck.Import{}
			for _, imp := range rep.Imports {
				if _, dup := declared[imp.Path]; dup {
					return fmt.Errorf("step %d: path %q imported twice\n%s", step, imp.Path, src)
				}
				declared[imp.Path] = imp
			}
			for p, q := range name {
				if p == local {
					continue
				}
				imp, ok := declared[p]
				if !ok {
					return fmt.Errorf("step %d: path %q appeared (as %q) in an output produced with this File but the File's import block does not declare it\n%s", step, p, q, src)
				}
				switch {
				case q == "":
					if imp.Name != "." {
						return fmt.Errorf("step %d: path %q is referred to by bare names but imported as %q\n%s", step, p, imp.Name, src)
					}
				case imp.Name != "":
					if imp.Name != q {
						return fmt.Errorf("step %d: path %q appeared as %q but is imported as %q\n%s", step, p, q, imp.Name, src)
					}
				default:
					if realAt[p] != q {
						return fmt.Errorf("step %d: path %q appeared as %q, is imported without alias, but its real name is %q\n%s", step, p, q, realAt[p], src)
					}
				}
			}
			for p, imp := range declared {
				if _, ok := name[p]; ok {
					continue
				}
				if anon[p] && imp.Name == "_" {
					continue
				}
				if failedRef[p] {
					continue
				}
				if p == "C" && preamble {
					continue
				}
				return fmt.Errorf("step %d: import %q (%s) was never referenced in any output and is not anonymous\n%s", step, p, imp.Name, src)
			}
			for p := range anon {
				if _, ok := declared[p]; !ok {
					return fmt.Errorf("step %d: anonymous import %q is missing\n%s", step, p, src)
				}
			}
			// declarations unchanged when nothing was added
			body := src
			if i := strings.Index(src, "\nvar "); i >= 0 || strings.Contains(src, "\nfunc ") {
				j := strings.Index(src, "\nfunc ")
				if i < 0 || (j >= 0 && j < i) {
					i = j
				}
				body = src[i:]
			} else {
				body = ""
			}
			if haveFileBody && !addedSince && lastFileBody != "OK"+body {
				return fmt.Errorf("step %d: nothing was added to the File, yet its declarations render differently\n--- before ---\n%s\n--- now ---\n%s", step, lastFileBody, body)
			}
			lastFileBody, haveFileBody, addedSince = "OK"+body, true, false
		}
	}
	return nil
}

func classify(r *hx.Run, c Case) {
	renders, frag, hintBetween, caseblock, addBetween := 0, 0, false, false, false
	seenRender := false
	pending := false
	for _, a := range c.Actions {
		switch a.Kind {
		case "render_file", "render_stmt", "render_group":
			renders++
			if a.Kind != "render_file" {
				frag++
			}
			if seenRender && pending {
				hintBetween = true
			}
			seenRender = true
			pending = false
		case "hint_name", "hint_alias", "prefix", "anon":
			if seenRender {
				pending = true
			}
		case "add":
			if seenRender {
				pending = true
				addBetween = true
			}
		}
	}
	for _, n := range c.Pool {
		recipe.Walk(n, func(x *recipe.Node) {
			if x != nil {
				for _, cl := range x.Calls {
					if cl.Fn == "Case" || cl.Fn == "Default" {
						caseblock = true
					}
				}
			}
		})
	}
	mark := func(b bool, s string) {
		if b {
			r.Class(s)
		}
	}
	mark(renders >= 2, "render-render")
	mark(hintBetween, "render-change-render")
	mark(addBetween, "add-after-render")
	mark(frag > 0, "fragment-render")
	mark(caseblock, "case-block")
	if renders >= 2 && hintBetween && frag > 0 {
		r.Class("nontrivial")
		r.NonTrivial(recipe.JSON(c))
	}
}

func TestC08(t *testing.T) {
	r := hx.Start(t, "C08")
	defer r.Finish(t)
	r.Rule("rapid-generated histories (<= 40 steps quick, <= 120 thorough) over one File and a pool of 1..6 statements (value lists, Dicts with qualified keys and null pairs, switches whose case blocks have nil / null / empty / captured (BlockFunc) bodies, fragments, struct types) referencing 12 paths that compete for names: add a pool statement to the File, File.Render, Statement.RenderWithFile, Group.RenderWithFile (captured groups), ImportName / ImportAlias (incl. '.') for used and unused paths, Anon for a not yet referenced path, PackagePrefix changes; every render is executed 2-3 times back to back; invariants after every step; non-trivial = >= 2 renders with a hint/prefix/addition in between and >= 1 fragment render; distinct by history")
	r.Assume("Anon on a path that already appeared in an output is outside the property; pool statements are never appended to after they were built")
	maxSteps := 40
	if r.Thorough() {
		maxSteps = 120
	}
	hx.Rapid(r, t, hx.Check[Case]{Name: "history", Fn: check}, r.N(600, 4000), func(rt *rapid.T) Case {
		c := genCase(maxSteps)(rt)
		classify(r, c)
		return c
	})
}
