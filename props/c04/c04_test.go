// C04 The import block is exact: used paths and anonymous imports, nothing else.
package c04

import (
	"fmt"
	"testing"

	"pgregory.net/rapid"

	"verif/internal/hx"
	"verif/internal/imps"
	"verif/internal/recipe"
)

func check(sc imps.Scenario) error {
	o, err := sc.Run()
	if err != nil {
		return err
	}
	if err := o.AssertExactImports(); err != nil {
		return err
	}
	// the same Code values, after they were rendered inside another File: this File is still
	// freshly built, and its import block must be just as exact
	ow, err := sc.RunAfterWarmup()
	if err != nil {
		return err
	}
	if err := ow.AssertExactImports(); err != nil {
		return fmt.Errorf("after the same Code values had been rendered in another File: %v", err)
	}
	// markers of paths that only occur in pairs that render nothing must not occur in the output at all
	return nil
}

func classify(r *hx.Run, sc imps.Scenario) {
	f := sc.Features()
	nt := false
	mark := func(b bool, name string) {
		if b {
			r.Class(name)
			nt = true
		}
	}
	mark(f.UnusedHints > 0 && f.NullRef, "unused_hint_and_null_pair")
	mark(f.AnonThenRef, "anon_overlaps_reference")
	mark(f.UnusedHints >= 20, "big_unused_hint_table")
	if f.Anons > 0 {
		r.Class("anon_present")
	}
	if f.NullRef {
		r.Class("reference_in_null_pair")
	}
	if f.UnusedHints > 0 {
		r.Class("unused_hints")
	}
	if nt {
		r.Class("nontrivial")
		r.NonTrivial(recipe.JSON(sc))
	}
}

func TestC04(t *testing.T) {
	r := hx.Start(t, "C04")
	defer r.Finish(t)
	r.Rule("rapid-generated freshly built Files: bodies referencing 1..10 paths (nested in lists, Dict keys/values, case lists, Defs, params), hint tables of up to ~120 mostly unused entries, Anon sets overlapping or disjoint with referenced paths, Dict pairs with a Null() side whose other side references an otherwise unused path; the import set is read off the output (marker present or not) and compared with the import specs; non-trivial = (>=1 unused hint and >=1 reference inside a pair that renders nothing) or an Anon overlapping a referenced path or a hint table with >=20 unused entries; distinct by the full scenario")
	r.Assume("whether a reference rendered is read off the output (its marker symbol occurs or not); no model of jennifer's null-ness is involved")
	profiles := []struct {
		name string
		pr   imps.Profile
	}{
		{"nullrefs", imps.Profile{MaxPaths: 8, Std: true, Anon: true, NullRefs: true, Dots: 1}},
		{"cgo", imps.Profile{MaxPaths: 3, Std: true, Cgo: true, Anon: true, NullRefs: true}},
		{"bighints", imps.Profile{MaxPaths: 6, Std: true, Anon: true, NullRefs: true, BigHints: true}},
		{"anon", imps.Profile{MaxPaths: 10, Std: true, Cgo: true, Anon: true, Compete: true, NullRefs: true, LocalCtor: true}},
	}
	for _, p := range profiles {
		ck := hx.Check[imps.Scenario]{Name: "exact_" + p.name, Fn: check}
		g := imps.Gen(p.pr)
		hx.Rapid(r, t, ck, r.N(600, 6000), func(rt *rapid.T) imps.Scenario {
			sc := g(rt)
			classify(r, sc)
			return sc
		})
	}
}
