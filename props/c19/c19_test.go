// C19 Cgo: the "C" import is never renamed and its preamble sits directly above it.
package c19

import (
	"bytes"
	"fmt"
	"github.com/dave/jennifer/jen"
	"go/ast"
	"go/scanner"
	"go/token"
	"strings"
	"testing"

	"pgregory.net/rapid"

	"verif/internal/hx"
	"verif/internal/impcheck"
	"verif/internal/imps"
	"verif/internal/recipe"
)

type Case struct {
	Intro    string   `json:"intro"`    // qual | anon | qual+anon | preamble
	Preamble []string `json:"preamble"` // blocks given to CgoPreamble, in order
	Others   string   `json:"others"`   // none one many aliased anon dot guessc
	Prefix   string   `json:"prefix"`
	Hint     string   `json:"hint"` // none nameC aliasC dotC underC otherC
	CFirst   bool     `json:"cfirst"`
	// Late: the preamble is supplied only after the File has been rendered once; the second
	// render is what is checked.
	Late bool `json:"late,omitempty"`
	// NoFormat: the structure is checked on the unformatted output itself.
	NoFormat bool `json:"noformat,omitempty"`
	// Preview: before the File is rendered, a detached snippet that calls into C is rendered as a
	// fragment with RenderWithFile(w, file), and the File is rendered twice.
	Preview bool `json:"preview,omitempty"`
	// FailFirst: the File's first render goes into a writer that fails; the second render is what is checked.
	FailFirst bool `json:"failfirst,omitempty"`
	// Fresh: the File is built and rendered in a fresh process (the first File that process sees), after
	// the process has asked jen.IsReservedWord about the given words (a generator sanitising identifiers).
	Fresh []string `json:"fresh,omitempty"`
}

func (c Case) scenario(noFormat bool) imps.Scenario {
	sc := imps.Scenario{File: recipe.File{Ctor: "NewFile", Args: []recipe.Text{"p"}}}
	op := func(name string, args ...string) {
		o := recipe.FileOp{Op: name}
		for _, a := range args {
			o.Args = append(o.Args, recipe.Text(a))
		}
		sc.File.Ops = append(sc.File.Ops, o)
	}
	var others []string
	switch c.Others {
	case "one":
		others = []string{"x.y/a"}
	case "many":
		others = []string{"x.y/a", "fmt", "a/b/d", "math/rand"}
	case "aliased":
		others = []string{"x.y/a", "fmt"}
		op("ImportAlias", "x.y/a", "foo")
		op("ImportAlias", "fmt", "f")
	case "anon":
		op("Anon", "x.y/anon1", "x.y/anon2")
	case "dot":
		others = []string{"x.y/dotted", "x.y/a"}
		op("ImportAlias", "x.y/dotted", ".")
	case "guessc":
		others = []string{"x.y/c", "q.r/C"}
	case "sortsbefore": // paths that sort before "C"
		others = []string{"9fans.net/go/acme", "A/b", "-x/y", "B"}
	}
	if c.Prefix != "" {
		op("PackagePrefix", c.Prefix)
	}
	switch c.Hint {
	case "nameC":
		op("ImportName", "C", "foo")
	case "aliasC":
		op("ImportAlias", "C", "foo")
	case "dotC":
		op("ImportAlias", "C", ".")
	case "underC":
		op("ImportAlias", "C", "_")
	case "otherC":
		if len(others) == 0 {
			others = []string{"x.y/other"}
		}
		op("ImportName", others[0], "C")
	}
	if c.Intro == "anon" || c.Intro == "qual+anon" {
		op("Anon", "C")
	}
	for _, p := range c.Preamble {
		op("CgoPreamble", p)
	}
	if noFormat {
		op("NoFormat")
	}
	hasQual := c.Intro == "qual" || c.Intro == "qual+anon"
	if hasQual && c.CFirst {
		sc.Paths = append(sc.Paths, "C")
	}
	sc.Paths = append(sc.Paths, others...)
	if hasQual && !c.CFirst {
		sc.Paths = append(sc.Paths, "C")
	}
	var vals []*recipe.Node
	for i, p := range sc.Paths {
		vals = append(vals, recipe.Qual(p, fmt.Sprintf("S%d", i)))
		if p == "C" {
			vals = append(vals, recipe.Qual(p, fmt.Sprintf("F%d", i)).C("Call", recipe.Qual(p, fmt.Sprintf("S%d", i))))
		}
	}
	if len(vals) > 0 {
		sc.File.Body = []*recipe.Node{recipe.S().C("Var").C("Id", "_").C("Op", "=").C("Index").C("Interface").C("Values", vals)}
	} else {
		sc.File.Body = []*recipe.Node{recipe.S().C("Var").C("Id", "_").C("Op", "=").C("Lit", recipe.V(1))}
	}
	return sc
}

// expectedComments is the comment token sequence the preamble must appear as.
func expectedComments(blocks []string) []string {
	var out []string
	for _, b := range blocks {
		switch {
		case strings.HasPrefix(b, "//"):
			out = append(out, strings.Split(b, "\n")...)
		case strings.HasPrefix(b, "/*"):
			out = append(out, b)
		case strings.Contains(b, "\n"):
			s := "/*\n" + b
			if !strings.HasSuffix(b, "\n") {
				s += "\n"
			}
			out = append(out, s+"*/")
		default:
			out = append(out, "// "+b)
		}
	}
	return out
}

// commentsBeforeCImport scans src and returns the comment tokens directly in front of `import "C"`.
func commentsBeforeCImport(src []byte) ([]string, error) {
	fs := token.NewFileSet()
	file := fs.AddFile("", fs.Base(), len(src))
	var sc scanner.Scanner
	var serr error
	sc.Init(file, src, func(pos token.Position, msg string) { serr = fmt.Errorf("%v: %s", pos, msg) }, scanner.ScanComments)
	type tk struct {
		tok token.Token
		lit string
	}
	var toks []tk
	for {
		_, tok, lit := sc.Scan()
		if tok == token.EOF {
			break
		}
		if tok == token.SEMICOLON && lit == "\n" {
			continue
		}
		toks = append(toks, tk{tok, lit})
	}
	if serr != nil {
		return nil, serr
	}
	for i := 0; i+1 < len(toks); i++ {
		if toks[i].tok == token.IMPORT && toks[i+1].tok == token.STRING && toks[i+1].lit == `"C"` {
			var out []string
			for j := i - 1; j >= 0 && toks[j].tok == token.COMMENT; j-- {
				out = append([]string{toks[j].lit}, out...)
			}
			return out, nil
		}
	}
	return nil, fmt.Errorf("no `import \"C\"` declaration of its own")
}

type failingWriter struct{}

func (failingWriter) Write(p []byte) (int, error) { return 0, fmt.Errorf("writer fails") }

// renderLate builds the scenario without its preamble, renders it once, supplies the preamble
// blocks and renders again.
func renderLate(c Case, noFormat bool) ([]byte, error) {
	sc := c.scenario(noFormat)
	var early, late []recipe.FileOp
	for _, op := range sc.File.Ops {
		if op.Op == "CgoPreamble" && c.Late {
			late = append(late, op)
		} else {
			early = append(early, op)
		}
	}
	sc.File.Ops = early
	f := recipe.BuildFile(&sc.File)
	if c.Preview {
		func() {
			defer func() { _ = recover() }()
			_ = jen.Qual("C", "zzpreview").Call(jen.Lit(1)).RenderWithFile(&bytes.Buffer{}, f)
		}()
	}
	_ = f.Render(failingWriter{}) // a render that fails at the very end: nothing of it may stick
	_ = f.Render(&bytes.Buffer{})
	for i := range late {
		recipe.ApplyFileOp(f, &late[i])
	}
	buf := &bytes.Buffer{}
	if err := f.Render(buf); err != nil {
		return nil, err
	}
	return buf.Bytes(), nil
}

func check(c Case) error {
	sc := c.scenario(c.NoFormat)
	var o *imps.Outcome
	var err error
	if c.Late || c.Preview || c.FailFirst {
		o = &imps.Outcome{Model: imps.ModelOf(&sc.File), Markers: sc.Markers()}
		src, rerr := renderLate(c, c.NoFormat)
		if rerr != nil {
			o.RenderErr = rerr
		} else {
			o.Src = src
			o.Rep, err = impcheck.Analyze(src, &impcheck.World{Real: sc.Real(o.Model), Markers: o.Markers, LocalPath: o.Model.Local, HasLocal: true})
		}
	} else if len(c.Fresh) > 0 {
		var ok bool
		o, ok, err = sc.RunFresh(c.Fresh)
		if !ok {
			return nil // cannot re-execute: nothing to judge
		}
		if err == nil && o.RenderErr != nil {
			return fmt.Errorf("in a fresh process: %v", o.RenderErr)
		}
	} else {
		o, err = sc.Run()
	}
	if err != nil {
		return err
	}
	if err := o.AssertResolution(); err != nil {
		return err
	}
	if err := o.AssertLegalNames(); err != nil {
		return err
	}
	fail := func(format string, a ...interface{}) error {
		return fmt.Errorf("%s\n--- output ---\n%s", fmt.Sprintf(format, a...), o.Src)
	}
	ci := -1
	perDecl := map[int]int{}
	decls := map[int]bool{}
	for i, imp := range o.Rep.Imports {
		perDecl[imp.Decl]++
		decls[imp.Decl] = true
		if imp.Path == "C" {
			if ci >= 0 {
				return fail("\"C\" is imported twice")
			}
			ci = i
			if imp.Name != "" {
				return fail("\"C\" is imported under the name %q", imp.Name)
			}
		}
	}
	if ci < 0 {
		return fail("no import of \"C\"")
	}
	for _, u := range o.Rep.Uses {
		if o.Markers[u.Marker] == "C" && u.Qualifier != "C" {
			return fail("reference to \"C\" is written %s.%s", u.Qualifier, u.Marker)
		}
	}
	cimp := o.Rep.Imports[ci]
	if len(c.Preamble) > 0 {
		if cimp.Parens || perDecl[cimp.Decl] != 1 {
			return fail("with a preamble, import \"C\" must be an import declaration of its own")
		}
		gd := o.Rep.File.Decls[cimp.Decl].(*ast.GenDecl)
		if gd.Doc == nil {
			return fail("import \"C\" has no doc comment although a preamble was supplied")
		}
		fset := o.Rep.Fset
		if fset.Position(gd.Doc.End()).Line+1 != fset.Position(gd.Pos()).Line {
			return fail("the preamble ends on line %d but import \"C\" is on line %d", fset.Position(gd.Doc.End()).Line, fset.Position(gd.Pos()).Line)
		}
		want := expectedComments(c.Preamble)
		if len(gd.Doc.List) != len(want) {
			return fail("the doc comment of import \"C\" has %d comments, the preamble %d", len(gd.Doc.List), len(want))
		}
		// the import "C" declaration comes after all other imports
		for d := range decls {
			if d > cimp.Decl {
				return fail("another import declaration follows import \"C\"")
			}
		}
		// preamble text: on the unformatted twin, where only jennifer has touched it
		twin := c.scenario(true)
		raw, err := twin.Render()
		if c.Late {
			raw, err = renderLate(c, true)
		}
		if err != nil {
			return fail("NoFormat twin failed to render: %v", err)
		}
		got, err := commentsBeforeCImport(raw)
		if err != nil {
			return fmt.Errorf("%v\n--- NoFormat output ---\n%s", err, raw)
		}
		if strings.Join(got, "\x00") != strings.Join(want, "\x00") {
			return fmt.Errorf("preamble comments in front of import \"C\" are %q, want %q\n--- NoFormat output ---\n%s", got, want, raw)
		}
	} else {
		// listed with the other imports
		if len(decls) != 1 {
			return fail("without a preamble all imports belong to one declaration, found %d", len(decls))
		}
	}
	return nil
}

var preambles = [][]string{
	nil,
	{"#include <stdio.h>"},
	{"#include <a.h>\n#include <b.h>"},
	{"#include <a.h>\nstatic int f() { return 1; }\n"},
	{"// #include <raw.h>"},
	{"// #include <raw1.h>\n// #include <raw2.h>"},
	{"/* #include <rawblock.h> */"},
	{"/*\n#include <rawblock.h>\n*/"},
	{"#cgo LDFLAGS: -lm", "#include <math.h>"},
	{"#include <a.h>\n#include <b.h>", "// raw line", "int x; // not a comment start", "/* raw */"},
	{"a { b } \"c\" `d`", "x\ny\n", "#include <z.h>"},
	{"#include <t.h>", "#include <t.h>"},
	{"#define T int", "#include <tmpl.h>", "#define T long", "#include <tmpl.h>"},
	{"#define MOD(a, b) ((a) % (b))", "static void p(char *s) { printf(\"%s %d%%\\n\", s, 1); }\n#define PCT 100%"},
	{"#include <a.h>", ""},
	{"", "#include <a.h>"},
	{"#include <a.h>", "", "#include <b.h>"},
	{"#include <a.h>   \nint x;\t \n#define Y 1  "},
	// (the text of a raw string literal that starts on the line after the back quote)
	{"\n#include <lead.h>\n"},
	{"#include <a.h>", "\nstatic int lead(void) { return 1; }", "\n"},
	{"#include <a.h>\nstatic const char table[] = \"" + strings.Repeat("0123456789abcdef", 4400) + "\";\nstatic int answer(void) { return 42; }"},
}

// TestImpsFreshChild is the re-executed half of the fresh-process cases.
func TestImpsFreshChild(t *testing.T) {
	if !imps.FreshChild() {
		t.Skip("helper")
	}
}

func TestC19(t *testing.T) {
	r := hx.Start(t, "C19")
	defer r.Finish(t)
	r.Rule("enumerated cross product {C introduced by Qual, Anon, both, preamble only} x 21 preamble lists (incl. empty blocks, trailing blanks, texts that start with a line break, a 70 KB line) (one-line, multi-line with/without trailing newline, raw // lines, raw /* */, mixtures, repeated blocks; one case in three also with the preamble supplied after a first render, one in four with a detached C snippet rendered as a fragment against the File first) x other imports {none, one, many, aliased, anonymous, dot, a path whose guess is c} x PackagePrefix on/off x hints {none, ImportName(C), ImportAlias(C), ImportAlias(C, .), ImportAlias(C, _), another path named C} x C referenced first/last; 1..70 preamble blocks; thorough adds rapid-generated preamble texts; non-trivial = a preamble together with >= 1 other import, or a prefix or a hint naming C; distinct by the case")
	r.Assume("raw-form preamble texts are well-formed comments (one /*...*/, or // lines joined by single newlines, no trailing newline); preamble text is compared on the NoFormat twin, structure on the formatted output")
	ck := hx.Check[Case]{Name: "cgo", Fn: check}
	if !hx.Replay(r, ck) {
		n := 0
		for _, intro := range []string{"qual", "anon", "qual+anon", "preamble"} {
			for _, pre := range preambles {
				if intro == "preamble" && len(pre) == 0 {
					continue
				}
				for _, others := range []string{"none", "one", "many", "aliased", "anon", "dot", "guessc", "sortsbefore"} {
					for _, prefix := range []string{"", "pkg"} {
						for _, hint := range []string{"none", "nameC", "aliasC", "dotC", "underC", "otherC"} {
							for _, first := range []bool{true, false} {
								if !first && !strings.HasPrefix(intro, "qual") {
									continue
								}
								n++
								if !r.Mine(n) {
									continue
								}
								c := Case{Intro: intro, Preamble: pre, Others: others, Prefix: prefix, Hint: hint, CFirst: first}
								hx.One(r, ck, c)
								if len(pre) > 0 && n%3 == 0 {
									late := c
									late.Late = true
									hx.One(r, ck, late)
									r.Class("preamble_after_first_render")
								}
								if n%3 == 2 {
									ff := c
									ff.FailFirst = true
									hx.One(r, ck, ff)
									r.Class("first_render_into_failing_writer")
								}
								if n%4 == 1 {
									pv := c
									pv.Preview = true
									hx.One(r, ck, pv)
									r.Class("fragment_preview_before_render")
								}
								r.Class("intro_" + intro)
								if len(pre) > 0 && others != "none" || prefix != "" || hint != "none" {
									r.NonTrivial(fmt.Sprintf("%+v", c))
								}
							}
						}
					}
				}
			}
		}
		r.Exhaustive("the stated cross product")
		// the same File as the first File of a fresh process whose first use of the package is IsReservedWord
		if r.Shard == 0 {
			for i, hint := range []string{"none", "nameC", "aliasC", "dotC", "underC", "otherC"} {
				for j, intro := range []string{"qual", "anon", "qual+anon"} {
					if !r.Thorough() && (i+j+int(r.Seed))%3 != 0 {
						continue
					}
					c := Case{Intro: intro, Preamble: []string{"#include <stdio.h>"}, Others: []string{"one", "many", "guessc"}[(i+j)%3], Hint: hint, CFirst: (i+j)%2 == 0, Fresh: []string{"x", "C"}}
					hx.One(r, ck, c)
					r.NonTrivial(fmt.Sprintf("%+v", c))
					r.Class("first_file_of_a_fresh_process")
				}
			}
		}
		// every number of preamble blocks from 1 to 70 (a File may keep its parts in a structure that changes
		// with their number), alone and next to other imports
		if r.Shard == 0 {
			for nb := 1; nb <= 70; nb++ {
				var pre []string
				for i := 0; i < nb; i++ {
					pre = append(pre, fmt.Sprintf("#include <block%02d.h>", i))
				}
				for k, others := range []string{"none", "many"} {
					c := Case{Intro: []string{"qual", "preamble", "anon"}[(nb+k)%3], Preamble: pre, Others: others, Hint: "none", CFirst: true, NoFormat: nb%5 == 0}
					hx.One(r, ck, c)
					r.NonTrivial(fmt.Sprintf("%+v", c))
				}
			}
			r.Class("preamble_block_counts_1_to_70")
		}
	}
	// random preamble texts
	hx.Rapid(r, t, hx.Check[Case]{Name: "cgo_random_text", Fn: check}, r.N(300, 6000), func(rt *rapid.T) Case {
		c := Case{
			Intro:  rapid.SampledFrom([]string{"qual", "anon", "qual+anon", "preamble"}).Draw(rt, "intro"),
			Others: rapid.SampledFrom([]string{"none", "one", "many", "aliased", "anon", "dot", "guessc", "sortsbefore"}).Draw(rt, "others"),
			Prefix: rapid.SampledFrom([]string{"", "pkg", "_"}).Draw(rt, "prefix"),
			Hint:   rapid.SampledFrom([]string{"none", "nameC", "aliasC", "dotC", "underC", "otherC"}).Draw(rt, "hint"),
			CFirst: rapid.Bool().Draw(rt, "first"),
		}
		nb := rapid.IntRange(1, 4).Draw(rt, "nblocks")
		for i := 0; i < nb; i++ {
			if i > 0 && rapid.IntRange(0, 4).Draw(rt, "repeat") == 0 {
				c.Preamble = append(c.Preamble, c.Preamble[rapid.IntRange(0, i-1).Draw(rt, "repeatof")])
				continue
			}
			c.Preamble = append(c.Preamble, genBlock(rt))
		}
		c.Late = rapid.IntRange(0, 3).Draw(rt, "late") == 0
		c.Preview = rapid.IntRange(0, 3).Draw(rt, "preview") == 0
		c.FailFirst = rapid.IntRange(0, 3).Draw(rt, "failfirst") == 0
		c.NoFormat = rapid.IntRange(0, 3).Draw(rt, "noformat") == 0
		r.Class("random_text")
		r.NonTrivial(fmt.Sprintf("%+v", c))
		return c
	})
}

var words = []string{"#include <a.h>", "#cgo CFLAGS: -O2", "int x;", "{", "}", "\"s\"", "`r`", "// mid", "/* mid", "é日本", "\t", " ", "static void f(void) {}", "*", "\\", "import \"C\"", "package q", "a/b", "'c'", "#define MOD(a, b) ((a) % (b))", "printf(\"%s %d\\n\", s, n);", "100%", "%%", "%!s(MISSING)", "%v"}

// genBlock draws one preamble text: automatic style (one-line or multi-line,
// no leading comment marker, no */) or a well-formed raw comment.
func genBlock(t *rapid.T) string {
	line := func() string {
		n := rapid.IntRange(1, 4).Draw(t, "nwords")
		var ws []string
		for i := 0; i < n; i++ {
			ws = append(ws, rapid.SampledFrom(words).Draw(t, "word"))
		}
		s := strings.TrimSpace(strings.Join(ws, " "))
		s = strings.ReplaceAll(s, "*/", "* /")
		for strings.HasPrefix(s, "//") || strings.HasPrefix(s, "/*") {
			s = "x " + s
		}
		if s == "" {
			s = "x"
		}
		return s
	}
	switch rapid.IntRange(0, 5).Draw(t, "style") {
	case 5:
		return "\n" + line() + "\n"
	case 0:
		return line()
	case 1:
		return line() + "\n" + line()
	case 2:
		return line() + "\n" + line() + "\n"
	case 3:
		n := rapid.IntRange(1, 3).Draw(t, "rawlines")
		var ls []string
		for i := 0; i < n; i++ {
			ls = append(ls, "// "+line())
		}
		return strings.Join(ls, "\n")
	default:
		return "/* " + strings.ReplaceAll(line(), "/*", "/ *") + "\n" + line() + " */"
	}
}
