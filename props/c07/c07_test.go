// C07 Output is deterministic: same construction, same bytes.
package c07

import (
	"bytes"
	"encoding/hex"
	"encoding/json"
	"fmt"
	"github.com/dave/jennifer/jen"
	"io"
	"os"
	"os/exec"
	"strings"
	"sync"
	"testing"

	"pgregory.net/rapid"

	"verif/internal/gen"
	"verif/internal/hx"
	"verif/internal/recipe"
)

type Case struct {
	File     *recipe.File `json:"file"`
	Rebuilds int          `json:"rebuilds"`
	Procs    int          `json:"procs"` // > 0: also render in that many separate processes
}

// render builds the recipe from scratch and renders it; the result encodes
// success/error and the bytes.
func render(f *recipe.File) string { return renderWith(f, false) }

var plain bool

// formSeed != 0: the build uses a form policy (see renderWith).
var formSeed uint64

// callerTable is the one map a caller might keep for all its ImportNames calls.
var callerTable = map[string]string{}

// renderWith: with reuse set, every ImportNames call of the build gets the same map object
// (emptied and refilled), and before the File is rendered the caller fills that map with other
// names for the same paths — its own map, to do with as it likes.
func renderWith(f *recipe.File, reuse bool) string {
	var out string
	bld := &recipe.Builder{}
	err := hx.Safe(func() error {
		var jf *jen.File
		func() {
			defer func() { recipe.CallerTable = nil; recipe.NoCloneForm = false }()
			if reuse {
				recipe.CallerTable = callerTable
				// the caller's table object has been to another File before, holding the same paths under other
				// names (same object, same size)
				for i := range f.Ops {
					if f.Ops[i].Op == "ImportNames" {
						for k := range callerTable {
							delete(callerTable, k)
						}
						for p := range f.Ops[i].Map {
							callerTable[p] = "zzother"
						}
						sib := jen.NewFile("sibling")
						sib.ImportNames(callerTable)
						for p := range f.Ops[i].Map {
							sib.Var().Id("_").Op("=").Qual(p, "X")
							break
						}
						_ = sib.Render(io.Discard)
						break
					}
				}
			}
			// the same construction through slightly different, equivalent call sequences: every other
			// build continues some call chains on a clone (see recipe.Builder.Stmt), the others do not
			recipe.NoCloneForm = plain
			if formSeed != 0 {
				// every fourth build goes through other, equivalent forms (function + Add, ...Func variants,
				// *Group methods, Do), chosen by a small generator seeded with the build number
				x := formSeed
				bld.Forms = &recipe.Decisions{Draw: func(n int) int {
					x = x*6364136223846793005 + 1442695040888963407
					return int((x >> 33) % uint64(n))
				}}
			}
			jf = bld.File(f)
		}()
		if reuse {
			for k := range callerTable {
				callerTable[k] = "scribbled"
			}
			callerTable["example.com/never/used"] = "junk"
		}
		// File.Render, and for a sample of the outputs also GoString and Save (over an existing,
		// longer file): every entry point gives the same bytes
		b, err := recipe.RenderFile(jf)
		if err != nil {
			out = "ERROR: " + err.Error()
			return nil
		}
		out = "OK: " + string(b)
		// callbacks handed to jennifer (LitFunc, DictFunc, ...Func) run once, while the File is being built:
		// a callback that ran again while rendering makes the output depend on how often it was rendered
		for _, cb := range bld.Callbacks {
			if cb.Runs != 1 || cb.Late != 0 {
				out = fmt.Sprintf("ERROR: entry points disagree: the callback given to %s ran %d time(s), %d of them after the constructing call had returned", cb.Fn, cb.Runs, cb.Late)
				break
			}
		}
		return nil
	})
	if err != nil {
		return "PANIC: " + err.Error()
	}
	return out
}

func check(c Case) error {
	first := render(c.File)
	if strings.HasPrefix(first, "PANIC") {
		return fmt.Errorf("%s", first)
	}
	if strings.HasPrefix(first, "ERROR: entry points disagree") {
		// the output of one File depends on the entry point (or, for Save, on what the target held before)
		return fmt.Errorf("%s", first)
	}
	for i := 1; i < c.Rebuilds; i++ {
		plain = i%2 == 1
		if i%4 == 2 {
			formSeed = uint64(i)*2654435761 + 1
		}
		got := renderWith(c.File, i%3 == 1)
		plain, formSeed = false, 0
		if got != first {
			return fmt.Errorf("build %d of the same recipe renders differently:\n--- first ---\n%s\n--- build %d ---\n%s", i+1, first, i+1, got)
		}
	}
	if c.Procs > 0 {
		in, _ := json.Marshal(c.File)
		for p := 0; p < c.Procs; p++ {
			cmd := exec.Command(os.Args[0], "-test.run=^TestChildRender$")
			cmd.Env = append(os.Environ(), "VERIF_C07_CHILD=1", "VERIF_OUT=")
			// another machine: other working directory, CPU count, time zone, locale, home, Go settings
			switch p % 4 {
			case 1:
				cmd.Dir = os.TempDir()
				cmd.Env = append(cmd.Env, "GOMAXPROCS=1", "TZ=Pacific/Kiritimati", "LANG=tr_TR.UTF-8", "LC_ALL=tr_TR.UTF-8")
			case 2:
				cmd.Dir = "/"
				cmd.Env = append(cmd.Env, "GOMAXPROCS=3", "HOME=/nonexistent", "GOROOT=/nonexistent/go", "GOPATH=/nonexistent/gopath", "GOFLAGS=", "TZ=UTC")
			case 3:
				cmd.Env = append(cmd.Env, "GOMAXPROCS=64", "GODEBUG=randautoseed=0", "USER=someoneelse", "TMPDIR=/var/tmp")
			}
			cmd.Stdin = bytes.NewReader(in)
			out, err := cmd.Output()
			if err != nil {
				return nil // cannot re-execute: nothing to compare (not a property failure)
			}
			i := bytes.Index(out, []byte("RESULT:"))
			if i < 0 {
				return nil
			}
			hx := strings.TrimSpace(string(out[i+len("RESULT:"):]))
			if j := strings.IndexAny(hx, "\n "); j >= 0 {
				hx = hx[:j]
			}
			b, err := hex.DecodeString(hx)
			if err != nil {
				return nil
			}
			if string(b) != first {
				return fmt.Errorf("a separate process renders the same recipe differently:\n--- this process ---\n%s\n--- child ---\n%s", first, b)
			}
		}
	}
	return nil
}

// TestChildRender is the re-executed half of the cross-process comparison.
func TestChildRender(t *testing.T) {
	if os.Getenv("VERIF_C07_CHILD") == "" {
		t.Skip("helper")
	}
	in, _ := io.ReadAll(os.Stdin)
	f := &recipe.File{}
	if err := json.Unmarshal(in, f); err != nil {
		t.Fatal(err)
	}
	fmt.Printf("RESULT:%s\n", hex.EncodeToString([]byte(render(f))))
}

// ---- generator of map-rich recipes ----

// (the last five are directories of the installed toolchain's src tree that are packages only under some
// build configuration or no packages of the standard library at all: what a File calls them must not depend
// on what the machine it is rendered on has installed)
var collide = []string{"a/d", "b/d", "c/d", "x.y/D", "q/d1", "e/d", "fmt", "x/fmt", "math/rand", "crypto/rand", "z/rand", "text/template", "html/template", "q/e", "r/e", "arena", "crypto/boring", "runtime/msan", "syscall/js", "cmd/asm"}

func key(t *rapid.T) *recipe.Node {
	switch rapid.IntRange(0, 5).Draw(t, "keykind") {
	case 0:
		return recipe.Lit(rapid.SampledFrom([]string{"a", "b", "ab", "c", "", "z"}).Draw(t, "ks"))
	case 1:
		return recipe.Id(rapid.SampledFrom([]string{"x", "y", "xy", "A"}).Draw(t, "kid"))
	case 2:
		return recipe.Id(rapid.SampledFrom([]string{"f", "g"}).Draw(t, "kf")).C("Call")
	case 3:
		return recipe.Lit(rapid.IntRange(0, 20).Draw(t, "ki"))
	}
	return recipe.Qual(rapid.SampledFrom(collide).Draw(t, "kpath"), rapid.SampledFrom([]string{"X", "Y"}).Draw(t, "ksym"))
}

func dict(t *rapid.T, depth int) *recipe.Node {
	n := rapid.IntRange(2, 12).Draw(t, "npairs")
	if depth >= 2 && rapid.IntRange(0, 11).Draw(t, "bigdict") == 0 {
		// a table of 64..200 pairs (a library may hand big tables to several workers); its values are flat
		// (every level of nested Dict values doubles the cost of a render, see DESIGN 13)
		n = rapid.IntRange(64, 200).Draw(t, "npairsbig")
		depth = 0
	}
	var pairs []recipe.Pair
	for i := 0; i < n; i++ {
		var v *recipe.Node
		switch rapid.IntRange(0, 4).Draw(t, "vkind") {
		case 0:
			v = recipe.Qual(rapid.SampledFrom(collide).Draw(t, "vpath"), "V")
		case 1:
			if depth > 0 {
				v = recipe.Id("T").C("Values", dict(t, depth-1))
				break
			}
			fallthrough
		default:
			v = recipe.Lit(rapid.IntRange(0, 99).Draw(t, "vi"))
		}
		pairs = append(pairs, recipe.Pair{K: key(t), V: v})
	}
	d := recipe.Dict(pairs...)
	d.ViaFunc = rapid.Bool().Draw(t, "viafunc")
	return d
}

// tiedDict builds a Dict whose pairs tie on key text and value text while their keys belong to
// different paths competing for one name: the only thing that can order them is the path.
func tiedDict(t *rapid.T, f *recipe.File) *recipe.Node {
	group := rapid.SampledFrom([][]string{{"a/d", "b/d", "c/d", "e/d"}, {"math/rand", "crypto/rand", "z/rand"}, {"q/e", "r/e"}, {"k8s.io/api/core/v1", "k8s.io/api/apps/v1", "k8s.io/api/batch/v1"}}).Draw(t, "tiegroup")
	sym := rapid.SampledFrom([]string{"X", "Y"}).Draw(t, "tiesym")
	val := rapid.IntRange(0, 1).Draw(t, "tieval")
	var pairs []recipe.Pair
	for _, p := range group {
		if rapid.IntRange(0, 3).Draw(t, "tieanon") > 0 {
			f.Ops = append(f.Ops, recipe.FileOp{Op: "Anon", Args: []recipe.Text{recipe.Text(p)}})
		}
		pairs = append(pairs, recipe.Pair{K: recipe.Qual(p, sym), V: recipe.Lit(val)})
	}
	return recipe.Dict(pairs...)
}

func mapRich(t *rapid.T) *recipe.File {
	f := gen.FileSettings(t)
	if rapid.IntRange(0, 3).Draw(t, "tied") == 0 {
		f.Body = append(f.Body, recipe.S().C("Var").C("Id", "_").C("Op", "=").C("Id", "T").C("Values", tiedDict(t, f)))
	}
	// a big ImportNames table of which several entries are used
	if rapid.Bool().Draw(t, "names") {
		m := map[string]string{}
		n := rapid.IntRange(5, 200).Draw(t, "nnames")
		for i := 0; i < n; i++ {
			m[fmt.Sprintf("unused.example/%d", i)] = "u"
		}
		for _, p := range collide {
			if rapid.IntRange(0, 2).Draw(t, "usedname") == 0 {
				m[p] = rapid.SampledFrom([]string{"d", "rand", "e", "fmt", "tpl"}).Draw(t, "nm")
			}
		}
		f.Ops = append(f.Ops, recipe.FileOp{Op: "ImportNames", Map: m})
	}
	// anonymous imports of paths that are later referenced (their table entry is rewritten in place)
	for i := rapid.IntRange(0, 4).Draw(t, "nanon"); i > 0; i-- {
		f.Ops = append(f.Ops, recipe.FileOp{Op: "Anon", Args: []recipe.Text{recipe.Text(rapid.SampledFrom(collide).Draw(t, "anonpath"))}})
	}
	nd := rapid.IntRange(1, 4).Draw(t, "ndecls")
	for i := 0; i < nd; i++ {
		switch rapid.IntRange(0, 3).Draw(t, "decl") {
		case 0, 1:
			f.Body = append(f.Body, recipe.S().C("Var").C("Id", "_").C("Op", "=").C("Id", "T").C("Values", dict(t, 2)))
		case 2: // struct with multi-key tags
			var fs []*recipe.Node
			nf := rapid.IntRange(1, 4).Draw(t, "nfields")
			for j := 0; j < nf; j++ {
				var tag []recipe.TagKV
				nk := rapid.IntRange(2, 8).Draw(t, "ntagkeys")
				if rapid.IntRange(0, 3).Draw(t, "manytagkeys") == 0 {
					nk = rapid.IntRange(9, 40).Draw(t, "ntagkeysmany")
				}
				for k := 0; k < nk; k++ {
					key := fmt.Sprintf("k%d", (k*7+j)%53)
					if rapid.IntRange(0, 2).Draw(t, "casekey") == 0 {
						key = rapid.SampledFrom([]string{"json", "JSON", "Json", "db", "DB", "Db", "xml", "XML"}).Draw(t, "casekeyname")
					}
					tag = append(tag, recipe.TagKV{K: recipe.Text(key), V: recipe.Text(rapid.SampledFrom([]string{"a", "b,omitempty", "`", "\""}).Draw(t, "tv"))})
				}
				seen := map[recipe.Text]bool{}
				var uniq []recipe.TagKV
				for _, kv := range tag {
					if !seen[kv.K] {
						seen[kv.K] = true
						uniq = append(uniq, kv)
					}
				}
				fs = append(fs, recipe.Id(fmt.Sprintf("F%d", j)).C("String").C("Tag", uniq))
			}
			f.Body = append(f.Body, recipe.S().C("Type").C("Id", "S").C("Struct", fs))
		case 3: // many imports
			var vals []*recipe.Node
			np := rapid.IntRange(2, 15).Draw(t, "nimports")
			if rapid.IntRange(0, 3).Draw(t, "veryman") == 0 {
				// a File with dozens of imports, most of them of packages no other File of this run has met
				np = rapid.IntRange(17, 160).Draw(t, "nimportsmany")
				for j := 0; j < np; j++ {
					vals = append(vals, recipe.Qual(fmt.Sprintf("many.example/%s/p%d", rapid.SampledFrom([]string{"a", "b", "lib"}).Draw(t, "manydir"), j%97), "S"))
				}
				np = 3
			}
			for j := 0; j < np; j++ {
				vals = append(vals, recipe.Qual(rapid.SampledFrom(collide).Draw(t, "ipath"), "S"))
			}
			f.Body = append(f.Body, recipe.S().C("Var").C("Id", "_").C("Op", "=").C("Index").C("Interface").C("Values", vals))
		}
	}
	return f
}

// cgoFew: a cgo File with "C" in its import table next to no, one or two other imports (the import block
// of such a File is written by a path of its own).
func cgoFew(t *rapid.T) *recipe.File {
	f := gen.FileSettings(t)
	var keep []recipe.FileOp
	for _, op := range f.Ops {
		if op.Op != "CgoPreamble" && op.Op != "Anon" {
			keep = append(keep, op)
		}
	}
	f.Ops = keep
	if rapid.IntRange(0, 5).Draw(t, "nopreamble") > 0 {
		f.Ops = append(f.Ops, recipe.FileOp{Op: "CgoPreamble", Args: []recipe.Text{"#include <stdlib.h>"}})
	}
	how := rapid.IntRange(0, 2).Draw(t, "chow")
	if how != 0 {
		f.Ops = append(f.Ops, recipe.FileOp{Op: "Anon", Args: []recipe.Text{"C"}})
	}
	if how != 1 {
		f.Body = append(f.Body, recipe.S().C("Var").C("Id", "_").C("Op", "=").Add(recipe.Qual("C", "int")).C("Call", recipe.Lit(0)))
	}
	others := rapid.SampledFrom([]int{0, 1, 1, 1, 1, 2}).Draw(t, "nothers")
	for i := 0; i < others; i++ {
		p := rapid.SampledFrom([]string{"fmt", "unsafe", "a/d", "b/d", "github.com/x/foo", "math/rand", "z/rand"}).Draw(t, "otherpath")
		switch rapid.IntRange(0, 3).Draw(t, "otherhow") {
		case 0:
			f.Ops = append(f.Ops, recipe.FileOp{Op: "Anon", Args: []recipe.Text{recipe.Text(p)}})
		case 1:
			f.Ops = append(f.Ops, recipe.FileOp{Op: "ImportAlias", Args: []recipe.Text{recipe.Text(p), "al"}})
			fallthrough
		default:
			f.Body = append(f.Body, recipe.S().C("Var").C("Id", "_").C("Op", "=").Add(recipe.Qual(p, "X")))
		}
	}
	return f
}

// renderSimple builds and renders without touching any package-level switch of the harness (safe to call
// from several goroutines at once).
func renderSimple(f *recipe.File) string {
	var out string
	if perr := hx.Safe(func() error {
		buf := &bytes.Buffer{}
		if err := (&recipe.Builder{}).File(f).Render(buf); err != nil {
			out = "ERROR: " + err.Error()
			return nil
		}
		out = "OK: " + buf.String()
		return nil
	}); perr != nil {
		return "PANIC: " + perr.Error()
	}
	return out
}

// checkTogether: every recipe of the batch is built and rendered alone, then all of them at the same
// time, each on a goroutine of its own (nothing is shared between them): same construction, same bytes.
func checkTogether(b hx.Batch[*recipe.File]) error {
	refs := make([]string, len(b.Cases))
	for i, f := range b.Cases {
		refs[i] = renderSimple(f)
		if again := renderSimple(f); again != refs[i] {
			return fmt.Errorf("recipe %d of the batch renders differently when built a second time:\n--- first ---\n%s\n--- second ---\n%s", i, refs[i], again)
		}
	}
	for round := 0; round < b.Rounds; round++ {
		got := make([]string, len(b.Cases))
		start := make(chan struct{})
		var wg sync.WaitGroup
		for i := range b.Cases {
			wg.Add(1)
			go func(i int) {
				defer wg.Done()
				<-start
				got[i] = renderSimple(b.Cases[i])
			}(i)
		}
		close(start)
		wg.Wait()
		for i := range got {
			if got[i] != refs[i] {
				return fmt.Errorf("recipe %d of the batch, built and rendered while the %d others were being built and rendered on goroutines of their own (round %d), renders differently from the same construction done alone:\n--- alone ---\n%s\n--- together ---\n%s", i, len(b.Cases)-1, round, refs[i], got[i])
			}
		}
	}
	return nil
}

func TestC07(t *testing.T) {
	if os.Getenv("VERIF_C07_CHILD") != "" {
		t.Skip("child")
	}
	r := hx.Start(t, "C07")
	defer r.Finish(t)
	rebuilds, procs := 12, 4
	if r.Thorough() {
		rebuilds, procs = 40, 8
	}
	r.Rule(fmt.Sprintf("rapid-generated recipes rich in maps (Dicts of 2..12 pairs nested up to 3 deep with literal / identifier / call / qualified keys and values over paths competing for one name, Tags of 2..40 keys, ImportNames tables of 5..200 entries, import sets of 2..15 paths, random File settings) plus cgo Files with C next to 0..2 other imports, random DSL trees and plausible programs; batches of 3..8 recipes with literal tables built and rendered at the same time on goroutines of their own, compared with the same construction done alone; each recipe is built from scratch and rendered %d times in one process and, for one recipe in 20, in %d separate processes; all results (bytes or error text) must be equal; non-trivial = a map with >= 2 entries or >= 2 imports; distinct by recipe", rebuilds, procs))
	r.Assume("map iteration orders are sampled by repetition, not enumerated: the Go runtime does not let a program choose them")
	n := 0
	mk := func(f *recipe.File, rt *rapid.T) Case {
		c := Case{File: f, Rebuilds: rebuilds}
		n++
		if rapid.IntRange(0, 11).Draw(rt, "xproc") == 0 {
			c.Procs = procs
			r.Class("cross_process")
		}
		return c
	}
	hx.Rapid(r, t, hx.Check[Case]{Name: "map_rich", Fn: check}, r.N(400, 1500), func(rt *rapid.T) Case {
		c := mk(mapRich(rt), rt)
		r.NonTrivial(recipe.JSON(c.File))
		r.Class("map_rich")
		return c
	})
	hx.Rapid(r, t, hx.Check[Case]{Name: "cgo_few_imports", Fn: check}, r.N(150, 600), func(rt *rapid.T) Case {
		c := mk(cgoFew(rt), rt)
		c.Procs = 0
		r.NonTrivial(recipe.JSON(c.File))
		r.Class("cgo_few_imports")
		return c
	})
	hx.Rapid(r, t, hx.Check[hx.Batch[*recipe.File]]{Name: "built_and_rendered_together", Fn: checkTogether}, r.N(30, 200), func(rt *rapid.T) hx.Batch[*recipe.File] {
		b := hx.Batch[*recipe.File]{Rounds: 4}
		for i := rapid.IntRange(3, 8).Draw(rt, "files"); i > 0; i-- {
			f := mapRich(rt)
			// tables of literals: a long list of numbers and strings
			var vals []*recipe.Node
			for k := rapid.IntRange(20, 120).Draw(rt, "nlits"); k > 0; k-- {
				if rapid.Bool().Draw(rt, "strlit") {
					vals = append(vals, recipe.Lit(fmt.Sprintf("file-%d-item-%d", i, k)))
				} else {
					vals = append(vals, recipe.Lit(i*1000000+k))
				}
			}
			f.Body = append(f.Body, recipe.S().C("Var").C("Id", "_").C("Op", "=").C("Index").C("Interface").C("Values", vals))
			b.Cases = append(b.Cases, f)
		}
		r.NonTrivial(recipe.JSON(b))
		r.Class("built_and_rendered_together")
		return b
	})
	hx.Rapid(r, t, hx.Check[Case]{Name: "plausible_program", Fn: check}, r.N(200, 600), func(rt *rapid.T) Case {
		f := gen.FileSettings(rt)
		k := rapid.IntRange(1, 4).Draw(rt, "ndecls")
		for i := 0; i < k; i++ {
			f.Body = append(f.Body, gen.Decl(rt, 3))
		}
		r.Class("plausible_program")
		return mk(f, rt)
	})
	hx.Rapid(r, t, hx.Check[Case]{Name: "random_tree", Fn: check}, r.N(200, 600), func(rt *rapid.T) Case {
		f := gen.FileSettings(rt)
		f.Body = append(f.Body, gen.Tree(rt, 4, 5))
		r.Class("random_tree")
		return mk(f, rt)
	})
}
