package c17

import (
	"fmt"
	"sync"
	"testing"

	"pgregory.net/rapid"

	"verif/internal/hx"
	"verif/internal/recipe"
)

// concCase: several unrelated tag maps, each rendered (and read back through
// reflect.StructTag) repeatedly on a goroutine of its own, all released together: a tag's
// literal is a function of its own map, whatever else the process renders meanwhile.
type concCase struct {
	Tags   []Case `json:"tags"`
	Rounds int    `json:"rounds"`
}

func checkConc(c concCase) error {
	// alone first: a map that does not round-trip on its own is the single-tag check's business
	for i, tc := range c.Tags {
		if err := check(tc); err != nil {
			return fmt.Errorf("tag %d alone: %v", i, err)
		}
	}
	errs := make([]error, len(c.Tags))
	var wg sync.WaitGroup
	start := make(chan struct{})
	for i := range c.Tags {
		wg.Add(1)
		go func(i int) {
			defer wg.Done()
			<-start
			for k := 0; k < c.Rounds && errs[i] == nil; k++ {
				if err := hx.Safe(func() error { return check(c.Tags[i]) }); err != nil {
					errs[i] = fmt.Errorf("tag %d, rendered while %d other tags are being rendered on other goroutines (iteration %d; alone it round-trips): %v", i, len(c.Tags)-1, k, err)
				}
			}
		}(i)
	}
	close(start)
	wg.Wait()
	for _, err := range errs {
		if err != nil {
			return err
		}
	}
	return nil
}

func TestC17Concurrent(t *testing.T) {
	r := hx.Start(t, "C17")
	defer r.Finish(t)
	r.Rule("concurrent_tags: 4..16 unrelated tag maps of >= 2 keys, each rendered and read back through reflect.StructTag 60 times on a goroutine of its own, all released together; every map round-trips alone first")
	hx.Rapid(r, t, hx.Check[concCase]{Name: "concurrent_tags", Fn: checkConc}, r.N(40, 300), func(rt *rapid.T) concCase {
		c := concCase{Rounds: 60}
		for i := rapid.IntRange(4, 16).Draw(rt, "ntags"); i > 0; i-- {
			tc := genCase(rt)
			for len(tc.Tag) < 2 {
				tc.Tag = append(tc.Tag, recipe.TagKV{K: recipe.Text(fmt.Sprintf("zzfill%d", len(tc.Tag))), V: recipe.Text(genValue(rt))})
			}
			c.Tags = append(c.Tags, tc)
		}
		r.NonTrivial(recipe.JSON(c))
		r.ClassN("concurrent_tag_jobs", len(c.Tags))
		return c
	})
}
