// C17 Struct tags round-trip through reflect.StructTag.
package c17

import (
	"fmt"
	"github.com/dave/jennifer/jen"
	"go/token"
	"reflect"
	"sort"
	"strconv"
	"strings"
	"testing"

	"pgregory.net/rapid"

	"verif/internal/hx"
	"verif/internal/litx"
	"verif/internal/recipe"
)

type Case struct {
	Tag []recipe.TagKV `json:"tag"`
	Nil bool           `json:"nil,omitempty"` // Tag(nil) instead of an empty map
}

func field(c Case) *recipe.Node {
	n := recipe.Id("F").C("String")
	if len(c.Tag)%2 == 1 {
		// the field assembled from parts a helper was handed: Add(name, type).Tag(m)
		n = recipe.S().Add(recipe.Id("F"), recipe.S().C("String"))
	}
	call := recipe.Call{Fn: "Tag", Tag: c.Tag, NoTag: c.Nil && len(c.Tag) == 0}
	n.Calls = append(n.Calls, call)
	return n
}

// tagKeys scans the keys of a conventional tag string left to right (same
// grammar as reflect.StructTag.Lookup).
func tagKeys(tag string) []string {
	var keys []string
	for tag != "" {
		i := 0
		for i < len(tag) && tag[i] == ' ' {
			i++
		}
		tag = tag[i:]
		if tag == "" {
			break
		}
		i = 0
		for i < len(tag) && tag[i] > ' ' && tag[i] != ':' && tag[i] != '"' && tag[i] != 0x7f {
			i++
		}
		if i == 0 || i+1 >= len(tag) || tag[i] != ':' || tag[i+1] != '"' {
			break
		}
		name := tag[:i]
		tag = tag[i+1:]
		i = 1
		for i < len(tag) && tag[i] != '"' {
			if tag[i] == '\\' {
				i++
			}
			i++
		}
		if i >= len(tag) {
			break
		}
		keys = append(keys, name)
		tag = tag[i+1:]
	}
	return keys
}

// check verifies the case and then, in the same process, its look-alike: the map in which the
// first two (sorted) pairs are folded into one value the way fmt prints a map (`k0:v0 k1:v1`), and
// the case again. A rendering must depend on the map's content, not on what it looks like printed.
func check(c Case) error {
	if err := check1(c); err != nil {
		return err
	}
	if len(c.Tag) >= 2 {
		kvs := append([]recipe.TagKV{}, c.Tag...)
		sort.Slice(kvs, func(i, j int) bool { return kvs[i].K < kvs[j].K })
		folded := Case{Tag: append([]recipe.TagKV{{K: kvs[0].K, V: kvs[0].V + " " + kvs[1].K + ":" + kvs[1].V}}, kvs[2:]...)}
		if err := check1(folded); err != nil {
			return fmt.Errorf("after rendering %s, its look-alike %s: %v", recipe.JSON(c.Tag), recipe.JSON(folded.Tag), err)
		}
		if err := check1(c); err != nil {
			return fmt.Errorf("after rendering its look-alike %s: %v", recipe.JSON(folded.Tag), err)
		}
	}
	return nil
}

func check1(c Case) error {
	// struct { F string <tag> } rendered raw
	st := recipe.S().C("Type").C("Id", "T").C("Struct", field(c))
	text, err := litx.RenderStmt(st, nil)
	if err != nil {
		return fmt.Errorf("render: %v", err)
	}
	toks, err := litx.Scan(text)
	if err != nil {
		return fmt.Errorf("output %q does not scan: %v", text, err)
	}
	var kinds []string
	for _, t := range toks {
		kinds = append(kinds, t.Tok.String())
	}
	got := strings.Join(kinds, " ")
	if len(c.Tag) == 0 {
		plain, err := litx.RenderStmt(recipe.S().C("Type").C("Id", "T").C("Struct", recipe.Id("F").C("String")), nil)
		if err != nil {
			return err
		}
		if plain != text {
			return fmt.Errorf("an empty tag renders %q, no tag renders %q", text, plain)
		}
		return nil
	}
	if got != "type IDENT struct { IDENT IDENT STRING }" {
		return fmt.Errorf("tagged field renders %q: token kinds %q, want exactly one STRING after the field type", text, got)
	}
	lit := toks[6].Lit
	u, err := strconv.Unquote(lit)
	if err != nil {
		return fmt.Errorf("tag literal %s does not unquote: %v", lit, err)
	}
	st2 := reflect.StructTag(u)
	var want []string
	for _, kv := range c.Tag {
		v, ok := st2.Lookup(string(kv.K))
		if !ok || v != string(kv.V) {
			return fmt.Errorf("tag literal %s: Lookup(%q) = %q, %v; want %q", lit, string(kv.K), v, ok, string(kv.V))
		}
		want = append(want, string(kv.K))
	}
	sort.Strings(want)
	keys := tagKeys(u)
	if strings.Join(keys, "\x00") != strings.Join(want, "\x00") {
		return fmt.Errorf("tag literal %s holds keys %q, want the sorted keys %q", lit, keys, want)
	}
	// the struct printed on its own right after other stand-alone renders have failed: the same tag literal
	if len(u)%3 == 0 {
		hx.FailedFragments()
		var frag string
		if perr := hx.Safe(func() error { frag = (&recipe.Builder{}).Stmt(st.Clone()).GoString(); return nil }); perr != nil {
			return fmt.Errorf("the struct rendered on its own after failed stand-alone renders: %v", perr)
		}
		ft, err := litx.Scan(frag)
		if err != nil {
			return fmt.Errorf("the struct rendered on its own does not scan: %v\n%s", err, frag)
		}
		found := false
		for _, t := range ft {
			if t.Tok == token.STRING {
				if fu, err := strconv.Unquote(t.Lit); err != nil || fu != u || found {
					return fmt.Errorf("the struct rendered on its own (after other stand-alone renders had failed) holds the tag %s, inside a File %s\n%s", t.Lit, lit, frag)
				}
				found = true
			}
		}
		if !found {
			return fmt.Errorf("the struct rendered on its own (after other stand-alone renders had failed) holds no tag literal\n%s", frag)
		}
	}
	// formatted output too: the file must be valid Go with the same tag value
	fr := &recipe.File{Ctor: "NewFile", Args: []recipe.Text{"p"}, Body: []*recipe.Node{st}}
	f := (&recipe.Builder{}).File(fr)
	src := f.GoString()
	ftoks, err := litx.Scan(src)
	if err != nil {
		return fmt.Errorf("formatted output does not scan: %v", err)
	}
	n := 0
	for _, t := range ftoks {
		if t.Tok == token.STRING {
			n++
			if fu, err := strconv.Unquote(t.Lit); err != nil || fu != u {
				return fmt.Errorf("formatted output holds tag %s, raw output %s", t.Lit, lit)
			}
		}
	}
	if n != 1 {
		return fmt.Errorf("formatted output has %d string literals", n)
	}
	// one Go map given to three Tag calls (two fields, a second struct), the File rendered twice:
	// every use renders the literal the single use renders, and the caller's map is left as it was
	m := map[string]string{}
	for _, kv := range c.Tag {
		m[string(kv.K)] = string(kv.V)
	}
	var outs [2]string
	if perr := hx.Safe(func() error {
		f := jen.NewFile("p")
		f.NoFormat = true
		f.Type().Id("T").Struct(jen.Id("F").String().Tag(m), jen.Id("G").Int().Tag(m))
		f.Type().Id("U").StructFunc(func(g *jen.Group) { g.Id("H").Bool().Tag(m) })
		// elsewhere the same map starts a field that gets a second Tag chained behind it (two literals on
		// one field are the caller's business); the map and the other fields are not affected
		other := jen.Id("X").Int().Tag(m).Tag(map[string]string{"zzextra": "1"})
		_ = other.Render(&strings.Builder{})
		for k := range outs {
			b := &strings.Builder{}
			if err := f.Render(b); err != nil {
				return err
			}
			outs[k] = b.String()
		}
		return nil
	}); perr != nil {
		return fmt.Errorf("one map given to three Tag calls: %v", perr)
	}
	for k, o := range outs {
		ts, err := litx.Scan(o)
		if err != nil {
			return fmt.Errorf("one map given to three Tag calls: output does not scan: %v\n%s", err, o)
		}
		cnt := 0
		for _, t := range ts {
			if t.Tok == token.STRING {
				cnt++
				if t.Lit != lit {
					return fmt.Errorf("one map given to three Tag calls (render %d): a field carries %s, the single use renders %s\n%s", k+1, t.Lit, lit, o)
				}
			}
		}
		if cnt != 3 {
			return fmt.Errorf("one map given to three Tag calls (render %d): %d tag literals in the output\n%s", k+1, cnt, o)
		}
	}
	if len(m) != len(c.Tag) {
		return fmt.Errorf("the caller's map had %d entries, after rendering it has %d", len(c.Tag), len(m))
	}
	// the caller changes its map between the Tag call and the render (empties it, fills it, drops a key):
	// the field then carries the tag of the map as it was at the call or as it is at the render — not a mix
	renderField := func(st *jen.Statement) (string, error) {
		f := jen.NewFile("p")
		f.NoFormat = true
		f.Type().Id("T").Struct(st)
		b := &strings.Builder{}
		err := f.Render(b)
		return b.String(), err
	}
	cp := func(src map[string]string) map[string]string {
		d := map[string]string{}
		for k, v := range src {
			d[k] = v
		}
		return d
	}
	for vi, change := range []func(mm map[string]string){
		func(mm map[string]string) {
			for k := range mm {
				delete(mm, k)
			}
		},
		func(mm map[string]string) { mm["zzlate"] = "1" },
		func(mm map[string]string) {
			for k := range mm {
				delete(mm, k)
				break
			}
		},
	} {
		var got, atCall, atRender string
		if perr := hx.Safe(func() error {
			live := cp(m)
			st := jen.Id("F").String().Tag(live)
			atCall, _ = renderField(jen.Id("F").String().Tag(cp(live)))
			change(live)
			atRender, _ = renderField(jen.Id("F").String().Tag(cp(live)))
			got, _ = renderField(st)
			return nil
		}); perr != nil {
			return fmt.Errorf("map changed between Tag and render: %v", perr)
		}
		if got != atCall && got != atRender {
			return fmt.Errorf("the caller changed its map between the Tag call and the render (variant %d): the field renders\n%s\nwhich is neither the tag of the map as it was at the call\n%s\nnor as it is at the render\n%s", vi, got, atCall, atRender)
		}
	}
	for _, kv := range c.Tag {
		if v, ok := m[string(kv.K)]; !ok || v != string(kv.V) {
			return fmt.Errorf("the caller's map was changed by rendering: key %q now maps to %q (present %v), was %q", string(kv.K), v, ok, string(kv.V))
		}
	}
	return nil
}

const keyAlphabet = "abcdefghijklmnopqrstuvwxyzABCDEFGHIJKLMNOPQRSTUVWXYZ0123456789_-.,/`\\!#$%&'()*+;<=>?@[]^{|}~"

func genKey(t *rapid.T) string {
	if rapid.IntRange(0, 2).Draw(t, "commonkey") == 0 {
		return rapid.SampledFrom([]string{"json", "xml", "yaml", "db", "a", "b", "A", "json2", "js", "z", "-"}).Draw(t, "key")
	}
	n := rapid.IntRange(1, 6).Draw(t, "keylen")
	sb := strings.Builder{}
	for i := 0; i < n; i++ {
		sb.WriteByte(keyAlphabet[rapid.IntRange(0, len(keyAlphabet)-1).Draw(t, "keych")])
	}
	return sb.String()
}

var hostile = []string{"\"", "`", "\\", "\n", "\r", "\t", "\x00", "\x7f", "\x80", "\xff", "\xc3\x28", " ", ":", "a:\"b\"", "omitempty", ",", "日本", "\u2028", "\ufeff", "%s", "\\\"", "x y", "`\"`"}

func genValue(t *rapid.T) string {
	n := rapid.IntRange(0, 6).Draw(t, "vparts")
	sb := strings.Builder{}
	for i := 0; i < n; i++ {
		switch rapid.IntRange(0, 2).Draw(t, "vpart") {
		case 0:
			sb.WriteString(rapid.SampledFrom(hostile).Draw(t, "hostile"))
		case 1:
			sb.Write(rapid.SliceOfN(rapid.Byte(), 0, 8).Draw(t, "bytes"))
		case 2:
			sb.WriteString(rapid.StringMatching(`[a-z,=]{0,8}`).Draw(t, "plain"))
		}
	}
	s := sb.String()
	if rapid.IntRange(0, 19).Draw(t, "longvalue") == 0 {
		s = strings.Repeat(s+"x", rapid.IntRange(2, 40).Draw(t, "repeat"))
		if len(s) > 2000 {
			s = s[:2000]
		}
		return s
	}
	if len(s) > 60 {
		s = s[:60]
	}
	return s
}

func genCase(t *rapid.T) Case {
	n := rapid.IntRange(0, 8).Draw(t, "nkeys")
	if rapid.IntRange(0, 29).Draw(t, "manykeys") == 0 {
		n = rapid.IntRange(9, 40).Draw(t, "nkeysmany")
	}
	seen := map[string]bool{}
	c := Case{}
	for i := 0; i < n; i++ {
		k := genKey(t)
		if seen[k] {
			continue
		}
		seen[k] = true
		c.Tag = append(c.Tag, recipe.TagKV{K: recipe.Text(k), V: recipe.Text(genValue(t))})
	}
	if len(c.Tag) == 0 {
		c.Nil = rapid.Bool().Draw(t, "nil")
	}
	return c
}

func nontrivial(c Case) bool {
	if len(c.Tag) >= 2 {
		return true
	}
	for _, kv := range c.Tag {
		if strings.ContainsAny(string(kv.V), "\"`\\\n") {
			return true
		}
		for i := 0; i < len(kv.V); i++ {
			if kv.V[i] >= 0x80 {
				return true
			}
		}
	}
	return false
}

func TestC17(t *testing.T) {
	r := hx.Start(t, "C17")
	defer r.Finish(t)
	r.Rule("rapid-generated tag maps: 0..8 distinct keys over printable ASCII without space, quote, colon (includes backquote and backslash) to byte strings of 0..60 bytes biased to quote, backquote, backslash, newline, NUL, non-UTF-8; rendered inside a struct field (raw and formatted); non-trivial = >= 2 keys or a value containing a quote, backquote, backslash, newline or non-ASCII byte; distinct by the map")
	r.Assume("keys are conventional tag keys: non-empty, printable ASCII without space, quote and colon (reflect.StructTag cannot look up others)")
	hx.Rapid(r, t, hx.Check[Case]{Name: "tag", Fn: check}, r.N(5000, 100000), func(rt *rapid.T) Case {
		c := genCase(rt)
		if nontrivial(c) {
			r.NonTrivial(recipe.JSON(c))
			r.Class("nontrivial")
		}
		if len(c.Tag) == 0 {
			r.Class("empty_map")
		}
		for _, kv := range c.Tag {
			if strings.Contains(string(kv.V), "`") || strings.Contains(string(kv.K), "`") {
				r.Class("has_backquote")
				break
			}
		}
		return c
	})
}

// FuzzTag: native coverage-guided target over a byte-encoded map.
func FuzzTag(f *testing.F) {
	f.Add([]byte("json\x00name,omitempty\x00xml\x00a\"b`c\\\n"))
	f.Add([]byte("a\x00\x00b\x00\xff`"))
	f.Fuzz(func(t *testing.T, b []byte) {
		parts := strings.Split(string(b), "\x00")
		c := Case{}
		seen := map[string]bool{}
		for i := 0; i+1 < len(parts); i += 2 {
			k := parts[i]
			ok := k != ""
			for j := 0; j < len(k); j++ {
				if k[j] <= ' ' || k[j] >= 0x7f || k[j] == '"' || k[j] == ':' {
					ok = false
				}
			}
			if !ok || seen[k] {
				continue
			}
			seen[k] = true
			c.Tag = append(c.Tag, recipe.TagKV{K: recipe.Text(k), V: recipe.Text(parts[i+1])})
		}
		if err := check(c); err != nil {
			t.Fatal(err)
		}
	})
}
