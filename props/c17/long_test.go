package c17

import (
	"fmt"
	"go/ast"
	"go/parser"
	"go/token"
	"reflect"
	"strconv"
	"testing"

	"github.com/dave/jennifer/jen"
	"pgregory.net/rapid"

	"verif/internal/hx"
)

// longCase: a struct whose whole body is chained onto ONE statement (a generator loop:
// body.Id(name).String().Tag(m).Line() per field) — the statement grows to hundreds of items — or whose
// fields are items of one Struct(...) list of that length.
type longCase struct {
	Fields int  `json:"fields"`
	Chain  bool `json:"chain"`
	Extra  int  `json:"extra"` // tokens in front of the first field (shifts every position)
}

func checkLong(c longCase) error {
	f := jen.NewFile("p")
	want := map[string]string{}
	mk := func(i int) map[string]string {
		return map[string]string{"json": fmt.Sprintf("f%d,omitempty", i), "db": fmt.Sprintf("col_%d", i)}
	}
	if c.Chain {
		body := &jen.Statement{}
		for k := 0; k < c.Extra; k++ {
			body.Null()
		}
		for i := 0; i < c.Fields; i++ {
			body.Id(fmt.Sprintf("F%d", i)).String().Tag(mk(i)).Line()
			want[fmt.Sprintf("F%d", i)] = fmt.Sprintf("f%d,omitempty", i)
		}
		f.Type().Id("T").Struct(body)
	} else {
		var fields []jen.Code
		for k := 0; k < c.Extra; k++ {
			fields = append(fields, jen.Null())
		}
		for i := 0; i < c.Fields; i++ {
			fields = append(fields, jen.Id(fmt.Sprintf("F%d", i)).String().Tag(mk(i)))
			want[fmt.Sprintf("F%d", i)] = fmt.Sprintf("f%d,omitempty", i)
		}
		f.Type().Id("T").Struct(fields...)
	}
	src := fmt.Sprintf("%#v", f)
	af, err := parser.ParseFile(token.NewFileSet(), "", src, 0)
	if err != nil {
		return fmt.Errorf("a struct of %d tagged fields does not parse: %v\n%s", c.Fields, err, src)
	}
	got := map[string]string{}
	ast.Inspect(af, func(n ast.Node) bool {
		st, ok := n.(*ast.StructType)
		if !ok {
			return true
		}
		for _, fl := range st.Fields.List {
			if len(fl.Names) != 1 {
				continue
			}
			if fl.Tag == nil {
				got[fl.Names[0].Name] = "<no tag>"
				continue
			}
			u, err := strconv.Unquote(fl.Tag.Value)
			if err != nil {
				got[fl.Names[0].Name] = "<bad tag literal>"
				continue
			}
			got[fl.Names[0].Name] = reflect.StructTag(u).Get("json")
		}
		return false
	})
	if len(got) != len(want) {
		return fmt.Errorf("%d tagged fields were built (chained on one statement: %v), the struct has %d\n%s", len(want), c.Chain, len(got), src)
	}
	for name, w := range want {
		if got[name] != w {
			return fmt.Errorf("field %s of %d (chained on one statement: %v): json tag %q, want %q\n%s", name, c.Fields, c.Chain, got[name], w, src)
		}
	}
	return nil
}

func TestC17Long(t *testing.T) {
	r := hx.Start(t, "C17")
	defer r.Finish(t)
	r.Rule("fields_of_long_structs: structs of 1..2000 tagged fields, chained onto one statement (4 items per field) or given as one Struct(...) list, with 0..3 null items in front; every field carries its own tag")
	ck := hx.Check[longCase]{Name: "fields_of_long_structs", Fn: checkLong}
	if !hx.Replay(r, ck) && r.Shard == 0 {
		for n := 1; n <= 70; n++ {
			for _, chain := range []bool{true, false} {
				c := longCase{Fields: n, Chain: chain, Extra: n % 4}
				hx.One(r, ck, c)
				r.NonTrivial(fmt.Sprintf("%+v", c))
			}
		}
		r.Class("long_structs_1_to_70_fields")
	}
	hx.Rapid(r, t, ck, r.N(40, 300), func(rt *rapid.T) longCase {
		c := longCase{Fields: rapid.SampledFrom([]int{100, 127, 128, 129, 255, 256, 257, 511, 513, 1000, 1023, 1024, 1025, 2000}).Draw(rt, "fields"), Chain: rapid.Bool().Draw(rt, "chain"), Extra: rapid.IntRange(0, 3).Draw(rt, "extra")}
		r.NonTrivial(fmt.Sprintf("%+v", c))
		r.Class("long_structs_100_to_2000_fields")
		return c
	})
}
