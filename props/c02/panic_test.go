package c02

import (
	"bytes"
	"fmt"
	"go/format"
	"go/parser"
	"go/token"
	"strings"
	"testing"

	"github.com/dave/jennifer/jen"
	"pgregory.net/rapid"

	"verif/internal/gen"
	"verif/internal/hx"
	"verif/internal/mutate"
	"verif/internal/recipe"
)

// panicCase is a plausible program with one element jennifer is documented to reject by
// panicking when it is rendered (Lit of an unsupported type, a Dict beside other items in
// Values). Whatever an entry point does with it — panic, return an error — it must not report
// success for bytes that are not Go.
type panicCase struct {
	File  *recipe.File `json:"file"`
	Which string       `json:"which"`
}

var documentedPanics = []string{"unsupported type for literal", "Error in Values: if Dict is used, must be one item only"}

func documented(err error) bool {
	for _, d := range documentedPanics {
		if strings.Contains(err.Error(), d) {
			return true
		}
	}
	return false
}

func rejectedNode(t *rapid.T) (*recipe.Node, string) {
	k := rapid.SampledFrom([]string{"struct", "slice", "map", "ptr", "nil", "litfunc", "dict+item", "item+dict"}).Draw(t, "rejected")
	switch k {
	case "litfunc":
		return recipe.S().C("LitFunc", &recipe.Value{T: "struct"}), k
	case "dict+item":
		return recipe.Id("T").C("Values", recipe.Dict(recipe.Pair{K: recipe.Id("a"), V: recipe.Lit(1)}), recipe.Id("b")), k
	case "item+dict":
		return recipe.Id("T").C("Values", recipe.Id("b"), recipe.Dict(recipe.Pair{K: recipe.Id("a"), V: recipe.Lit(1)})), k
	}
	return recipe.S().C("Lit", &recipe.Value{T: k}), k
}

func checkRejected(c panicCase) error {
	type result struct {
		panicked error
		err      error
		w        *countingWriter
	}
	run := func(f func(w *countingWriter) error) result {
		res := result{w: &countingWriter{}}
		res.panicked = hx.Safe(func() error { res.err = f(res.w); return nil })
		return res
	}
	judge := func(what string, res result, file bool) error {
		switch {
		case res.panicked != nil:
			if !documented(res.panicked) {
				return fmt.Errorf("%s panicked, and not in the documented way: %v", what, res.panicked)
			}
		case res.err != nil:
			if res.w.calls != 0 {
				return fmt.Errorf("%s returned an error but wrote %d bytes", what, res.w.buf.Len())
			}
		default:
			out := res.w.buf.Bytes()
			if file {
				if _, err := parser.ParseFile(token.NewFileSet(), "", out, 0); err != nil {
					return fmt.Errorf("%s returned nil for a File holding an element jennifer rejects (%s), and the %d bytes written are not a Go file: %v\n%s", what, c.Which, len(out), err, out)
				}
			} else if err := parsesAsFragment(out); err != nil || len(bytes.TrimSpace(out)) == 0 {
				return fmt.Errorf("%s returned nil for code holding an element jennifer rejects (%s), and the %d bytes written are not Go: %v\n%s", what, c.Which, len(out), err, out)
			}
		}
		return nil
	}
	var f *jen.File
	if err := hx.Safe(func() error { f = recipe.BuildFile(c.File); return nil }); err != nil {
		if documented(err) {
			return nil
		}
		return fmt.Errorf("building the File panicked: %v", err)
	}
	formatted := run(func(w *countingWriter) error { return f.Render(w) })
	if err := judge("File.Render", formatted, true); err != nil {
		return err
	}
	raw := run(func(w *countingWriter) error { return recipe.BuildFile(noFormat(c.File)).Render(w) })
	if err := judge("File.Render (NoFormat)", raw, true); err != nil {
		return err
	}
	if formatted.panicked == nil && formatted.err == nil {
		if raw.panicked != nil || raw.err != nil {
			return fmt.Errorf("the formatted render succeeded but the identically built NoFormat File fails: %v %v", raw.panicked, raw.err)
		}
		want, err := format.Source(raw.w.buf.Bytes())
		if err != nil || !bytes.Equal(want, formatted.w.buf.Bytes()) {
			return fmt.Errorf("formatted output is not gofmt of the raw rendering (%v)\n--- formatted ---\n%s\n--- raw ---\n%s", err, formatted.w.buf.Bytes(), raw.w.buf.Bytes())
		}
	}
	// a second Render of the same File: what the first one left behind must not turn into a success
	again := run(func(w *countingWriter) error { return f.Render(w) })
	if err := judge("second File.Render", again, true); err != nil {
		return err
	}
	if (formatted.panicked == nil && formatted.err == nil) != (again.panicked == nil && again.err == nil) {
		return fmt.Errorf("the first Render of the File gave (%v, %v), the second (%v, %v)", formatted.panicked, formatted.err, again.panicked, again.err)
	}
	b := &recipe.Builder{}
	for i, n := range c.File.Body {
		if n == nil || n.Kind != recipe.KStmt {
			continue
		}
		var st *jen.Statement
		if err := hx.Safe(func() error { st = b.Stmt(n); return nil }); err != nil {
			continue
		}
		if err := judge(fmt.Sprintf("Statement.Render of body item %d", i), run(func(w *countingWriter) error { return st.Render(w) }), false); err != nil {
			return err
		}
		if err := judge(fmt.Sprintf("Statement.RenderWithFile of body item %d", i), run(func(w *countingWriter) error { return st.RenderWithFile(w, jen.NewFile("q")) }), false); err != nil {
			return err
		}
		g := jen.Func().Id("host").Params().BlockFunc(func(g *jen.Group) {
			g.Add(st)
			if err := judge(fmt.Sprintf("Group.Render holding body item %d", i), run(func(w *countingWriter) error { return g.Render(w) }), false); err != nil {
				panic(verdict{err})
			}
			if err := judge(fmt.Sprintf("Group.RenderWithFile holding body item %d", i), run(func(w *countingWriter) error { return g.RenderWithFile(w, jen.NewFile("q")) }), false); err != nil {
				panic(verdict{err})
			}
		})
		_ = g
	}
	return nil
}

type verdict struct{ err error }

func checkRejectedSafe(c panicCase) (err error) {
	defer func() {
		if r := recover(); r != nil {
			if v, ok := r.(verdict); ok {
				err = v.err
				return
			}
			panic(r)
		}
	}()
	return checkRejected(c)
}

func TestC02Rejected(t *testing.T) {
	r := hx.Start(t, "C02")
	defer r.Finish(t)
	r.Rule("rejected_element: plausible programs holding one element jennifer is documented to reject by panicking when rendered (Lit / LitFunc of a struct, slice, map, pointer, nil; a Dict beside other items in Values), inside a list of the program or as a declaration; File.Render (formatted, NoFormat, a second time), Statement.Render / RenderWithFile, Group.Render / RenderWithFile: a documented panic or an error without bytes written is fine, nil with bytes that are not Go is a violation")
	hx.Rapid(r, t, hx.Check[panicCase]{Name: "rejected_element", Fn: checkRejectedSafe}, r.N(600, 6000), func(rt *rapid.T) panicCase {
		f := gen.FileSettings(rt)
		n := rapid.IntRange(1, 3).Draw(rt, "ndecls")
		for i := 0; i < n; i++ {
			f.Body = append(f.Body, gen.Decl(rt, 3))
		}
		bad, which := rejectedNode(rt)
		// somewhere in a list of the program, or as a declaration of its own
		type site struct {
			c *recipe.Call
		}
		var sites []site
		for _, b := range f.Body {
			recipe.Walk(b, func(n *recipe.Node) {
				if n == nil || n.Kind != recipe.KStmt {
					return
				}
				for i := range n.Calls {
					if mutate.ListFns[n.Calls[i].Fn] && n.Calls[i].Fn != "Values" {
						sites = append(sites, site{&n.Calls[i]})
					}
				}
			})
		}
		if len(sites) > 0 && rapid.IntRange(0, 3).Draw(rt, "inlist") > 0 {
			s := sites[rapid.IntRange(0, len(sites)-1).Draw(rt, "site")]
			at := rapid.IntRange(0, len(s.c.Items)).Draw(rt, "at")
			items := append([]*recipe.Node{}, s.c.Items[:at]...)
			items = append(items, bad)
			s.c.Items = append(items, s.c.Items[at:]...)
			r.Class("rejected_in:" + s.c.Fn)
		} else {
			f.Body = append(f.Body, recipe.S().C("Var").C("Id", "boom").C("Op", "=").Then(bad))
			r.Class("rejected_as_declaration")
		}
		r.Class("rejected:" + which)
		r.NonTrivial(recipe.JSON(f))
		return panicCase{File: f, Which: which}
	})
}
