package c02

import (
	"fmt"
	"testing"

	"verif/internal/hx"
	"verif/internal/recipe"
)

// deepDict: valid composite literals nested d levels deep, every level a keyed literal built with Dict (a
// configuration tree), slices in between for every other level.
func deepDict(d int, slices bool) *recipe.File {
	inner := recipe.Lit(1)
	for i := d; i > 0; i-- {
		lit := recipe.S().C("Map", recipe.S().C("String")).C("Interface").C("Values", recipe.Dict(
			recipe.Pair{K: recipe.Lit(fmt.Sprintf("level%d", i)), V: inner},
			recipe.Pair{K: recipe.Lit("name"), V: recipe.Lit(i)}))
		if slices && i%2 == 0 {
			lit = recipe.S().C("Index").C("Interface").C("Values", lit, recipe.Lit(i))
		}
		inner = lit
	}
	return &recipe.File{Ctor: "NewFile", Args: []recipe.Text{"p"}, Body: []*recipe.Node{recipe.S().C("Var").C("Id", "tree").C("Op", "=").Then(inner)}}
}

func TestC02DeepDict(t *testing.T) {
	r := hx.Start(t, "C02")
	defer r.Finish(t)
	r.Rule("deep_dict: valid keyed literals (Dict) nested 1..16 levels deep (to about 100 nested containers), with and without slice literals in between, judged like every other case (no panic, formatted output parses and is gofmt of the raw twin, fragments parse)")
	ck := hx.Check[Case]{Name: "deep_dict", Fn: check}
	if hx.Replay(r, ck) || r.Shard != 0 {
		return
	}
	// (the repaired Dict renders every value twice — once for the content order of its pairs, once for the
	// output — so a literal nested d Dicts deep costs 2^d leaf renders; 16 levels are about 100 containers)
	for d := 1; d <= 16; d++ {
		for _, slices := range []bool{false, true} {
			c := Case{File: deepDict(d, slices), Note: fmt.Sprintf("keyed literals nested %d deep", d)}
			hx.One(r, ck, c)
			r.NonTrivial(fmt.Sprintf("%d/%v", d, slices))
		}
	}
	r.Class("deep_dict_sweep")
}
