// C02 A successful render is valid Go and exactly gofmt of the raw rendering.
package c02

import (
	"bytes"
	"encoding/json"
	"fmt"
	"go/format"
	"go/parser"
	"go/token"
	"os"
	"regexp"
	"runtime"
	"sync/atomic"
	"testing"

	"github.com/dave/jennifer/jen"
	"pgregory.net/rapid"

	"verif/internal/corpus"
	"verif/internal/gen"
	"verif/internal/hx"
	"verif/internal/knownfind"
	"verif/internal/mutate"
	"verif/internal/recipe"
	"verif/internal/rt"
)

type Case struct {
	// AfterPanic: before the case is built, other code is rendered that fails (gofmt rejects it, the writer fails) or panics in the documented
	// way (Lit of an unsupported type) half-way through; the panic is recovered, as a caller would.
	AfterPanic bool `json:"afterpanic,omitempty"`
	// Late: configuration calls made after a first Render of the same File; the File is then
	// rendered again and must equal gofmt of an identically configured NoFormat File.
	Late []recipe.FileOp `json:"late,omitempty"`
	// Staged: see checkCore (a statement finished after a first render)
	Staged bool              `json:"staged,omitempty"`
	File   *recipe.File      `json:"file"`
	Forms  *recipe.Decisions `json:"forms,omitempty"` // form policy decisions (so that ...Func groups exist to render)
	Note   string            `json:"note,omitempty"`
}

type countingWriter struct {
	buf   bytes.Buffer
	calls int
}

func (w *countingWriter) Write(p []byte) (int, error) { w.calls++; return w.buf.Write(p) }

type failingWriter struct{}

func (failingWriter) Write(p []byte) (int, error) { return 0, fmt.Errorf("writer fails") }

func noFormat(f *recipe.File) *recipe.File {
	g := f.Clone()
	g.Ops = append(g.Ops, recipe.FileOp{Op: "NoFormat"})
	return g
}

func parsesAsFragment(b []byte) error {
	fset := token.NewFileSet()
	if _, err := parser.ParseFile(fset, "", b, 0); err == nil {
		return nil
	}
	if _, err := parser.ParseFile(fset, "", append([]byte("package p;"), b...), 0); err == nil {
		return nil
	}
	_, err := parser.ParseFile(fset, "", append(append([]byte("package p; func _() {"), b...), "\n}"...), 0)
	return err
}

func check(c Case) error { return checkX(c, true) }

// probe is the check known-finding examples are replayed through (no exclusion).
func probe(c Case) error { return checkX(c, false) }

// inKnownClass reports whether the raw rendering of the case falls into the input class of a
// known finding (KF1: gofmt strips parentheses protecting a generic composite literal).
func inKnownClass(c Case) bool {
	known := false
	_ = hx.Safe(func() error {
		c.Forms.Rewind()
		f := (&recipe.Builder{Forms: c.Forms}).File(noFormat(c.File))
		buf := &bytes.Buffer{}
		if f.Render(buf) != nil {
			return nil
		}
		if af, err := parser.ParseFile(token.NewFileSet(), "", buf.Bytes(), 0); err == nil && knownfind.GofmtStripsGenericLitParens(af) {
			known = true
		}
		if knownfind.GofmtBreaks(buf.Bytes()) {
			known = true
		}
		return nil
	})
	return known
}

func checkX(c Case, exclude bool) error {
	err := checkCore(c)
	// a failure is only set aside when the case lies in the input class of a known finding; the
	// classification runs afterwards so that it cannot disturb what is being checked
	if err != nil && exclude && inKnownClass(c) {
		return nil
	}
	return err
}

var freshCounter int64
var freshRe = regexp.MustCompile(`n[0-9]+\.example/`)

// refresh gives the "never seen before" paths of a recipe (n<number>.example/...) numbers this process has
// really not used yet: the case was already rendered once while it was generated and classified.
func refresh(f *recipe.File) *recipe.File {
	b, err := json.Marshal(f)
	if err != nil || !freshRe.Match(b) {
		return f
	}
	n := atomic.AddInt64(&freshCounter, 1)
	b = freshRe.ReplaceAll(b, []byte(fmt.Sprintf("n%d.example/", 2000000000+n)))
	g := &recipe.File{}
	if json.Unmarshal(b, g) != nil {
		return f
	}
	return g
}

func checkCore(c Case) error {
	c.File = refresh(c.File)
	// poison: renders that panic in the documented way half-way through, recovered as a caller
	// would; whatever they leave behind in the process must not reach the renders that follow.
	// The goroutine stays on its thread meanwhile (per-P caches such as sync.Pool stay reachable).
	poison := func() {}
	if c.AfterPanic {
		runtime.LockOSThread()
		defer runtime.UnlockOSThread()
		// which failures come last decides what the case meets (a later failing render tidies up after an
		// earlier one): only panics, only ordinary failures, or both — chosen by the case
		mode := len(recipe.JSON(c.File)) % 3
		poison = func() {
			for i := 0; i < 3; i++ {
				// renders that fail in the ordinary ways: code gofmt rejects, a writer that fails
				if mode != 0 {
					func() {
						defer func() { _ = recover() }()
						f := jen.NewFile("leak")
						f.Func().Id("leakedfunc").Params().Block(jen.Id("leakedbody").Op(")"))
						_ = f.Render(&bytes.Buffer{})
						_ = jen.Id("leakedfrag").Op("}").Render(&bytes.Buffer{})
						_ = jen.Id("leakedfrag2").Op("}").RenderWithFile(&bytes.Buffer{}, jen.NewFile("leak"))
						g := jen.NewFile("leak")
						g.Var().Id("leakedok").Op("=").Lit(1)
						_ = g.Render(failingWriter{})
						_ = jen.Id("leakedok2").Render(failingWriter{})
					}()
				}
				if mode == 1 {
					continue
				}
				// ... and, last, renders that panic half-way
				func() {
					defer func() { _ = recover() }()
					f := jen.NewFile("leak")
					f.Var().Id("leaked").Op("=").Lit(1)
					f.Var().Id("boom").Op("=").Lit(struct{}{}) // documented panic: unsupported type for literal
					_ = f.Render(&bytes.Buffer{})
				}()
				func() {
					defer func() { _ = recover() }()
					_ = jen.Id("leakedstmt").Op(":=").Lit(1).Line().Lit([]int{}).Render(&bytes.Buffer{})
				}()

			}
		}
	}
	poison()
	c.Forms.Rewind()
	ba := &recipe.Builder{Forms: c.Forms}
	var fa *jen.File
	if err := hx.Safe(func() error { fa = ba.File(c.File); return nil }); err != nil {
		return fmt.Errorf("building the File panicked: %v", err)
	}
	wa := &countingWriter{}
	var errA error
	if err := hx.Safe(func() error { errA = fa.Render(wa); return nil }); err != nil {
		return fmt.Errorf("File.Render panicked (an invalid composition must be reported as an error): %v", err)
	}
	if errA != nil {
		if wa.calls != 0 {
			return fmt.Errorf("Render returned an error but wrote %d bytes in %d calls", wa.buf.Len(), wa.calls)
		}
	} else {
		outA := wa.buf.Bytes()
		if _, err := parser.ParseFile(token.NewFileSet(), "", outA, parser.ParseComments); err != nil {
			return fmt.Errorf("Render returned nil but the output does not parse: %v\n%s", err, outA)
		}
		poison()
		c.Forms.Rewind()
		bb := &recipe.Builder{Forms: c.Forms}
		fb := bb.File(noFormat(c.File))
		wb := &countingWriter{}
		var errB error
		if err := hx.Safe(func() error { errB = fb.Render(wb); return nil }); err != nil {
			return fmt.Errorf("NoFormat render panicked: %v", err)
		}
		if errB != nil {
			return fmt.Errorf("the formatted render succeeded but the identically built NoFormat File fails: %v", errB)
		}
		want, err := format.Source(wb.buf.Bytes())
		if err != nil {
			return fmt.Errorf("formatted render succeeded but the raw rendering is not valid Go: %v\n%s", err, wb.buf.Bytes())
		}
		if !bytes.Equal(want, outA) {
			return fmt.Errorf("formatted output is not gofmt of the raw rendering\n--- formatted ---\n%s\n--- gofmt(raw) ---\n%s", outA, want)
		}
	}
	if len(c.Late) > 0 && errA == nil {
		// the same File object, configured further after it has been rendered once
		var errA2 error
		wa2 := &countingWriter{}
		if err := hx.Safe(func() error {
			for i := range c.Late {
				recipe.ApplyFileOp(fa, &c.Late[i])
			}
			errA2 = fa.Render(wa2)
			return nil
		}); err != nil {
			return fmt.Errorf("second Render after further configuration panicked: %v", err)
		}
		all := c.File.Clone()
		all.Ops = append(all.Ops, c.Late...)
		c.Forms.Rewind()
		fb2 := (&recipe.Builder{Forms: c.Forms}).File(noFormat(all))
		wb2 := &countingWriter{}
		errB2 := fb2.Render(wb2)
		if errA2 == nil {
			if errB2 != nil {
				return fmt.Errorf("after further configuration the formatted render succeeds but the identically configured NoFormat File fails: %v", errB2)
			}
			want, err := format.Source(wb2.buf.Bytes())
			if err != nil {
				return fmt.Errorf("after further configuration Render returned nil but the raw rendering is not valid Go: %v", err)
			}
			if !bytes.Equal(want, wa2.buf.Bytes()) {
				return fmt.Errorf("a File configured further after its first Render (%s) does not render gofmt of the raw rendering of an identically configured File\n--- second render ---\n%s\n--- gofmt(raw) ---\n%s", recipe.JSON(c.Late), wa2.buf.Bytes(), want)
			}
		} else if wa2.calls != 0 {
			return fmt.Errorf("second Render returned an error but wrote %d bytes", wa2.buf.Len())
		}
	}
	if c.Staged && len(c.File.Body) > 0 {
		// one top-level statement reaches the File incomplete (its first call only), the File is rendered — the
		// formatted File usually fails at that point, its unformatted twin does not —, the statement is finished
		// through the variable the caller kept, and the File is rendered again
		which := -1
		for i, n := range c.File.Body {
			if n != nil && n.Kind == recipe.KStmt && n.Ref == 0 && len(n.Calls) >= 2 {
				which = i
				break
			}
		}
		if which >= 0 {
			staged := func(fr *recipe.File) (*countingWriter, error, error) {
				var err error
				w := &countingWriter{}
				perr := hx.Safe(func() error {
					shell := fr.Clone()
					shell.Body = nil
					b := &recipe.Builder{}
					f := b.File(shell)
					var finish func()
					for i, n := range fr.Body {
						if i == which {
							var st *jen.Statement
							st, finish = b.Partial(n, 1)
							f.Add(st)
							continue
						}
						b.AddToFile(f, n)
					}
					_ = f.Render(&bytes.Buffer{})
					finish()
					err = f.Render(w)
					return nil
				})
				return w, err, perr
			}
			wa, errA, pa := staged(c.File)
			wb, errB, pb := staged(noFormat(c.File))
			if pa != nil || pb != nil {
				return fmt.Errorf("a statement finished after a first render: panic: %v %v", pa, pb)
			}
			if errA == nil {
				if errB != nil {
					return fmt.Errorf("a statement finished after a first render: the formatted File renders, its NoFormat twin fails: %v", errB)
				}
				want, err := format.Source(wb.buf.Bytes())
				if err != nil || !bytes.Equal(want, wa.buf.Bytes()) {
					return fmt.Errorf("a top-level statement was handed to the File incomplete, the File rendered, the statement finished, the File rendered again: the formatted output is not gofmt of what the NoFormat twin renders after the same steps (%v)\n--- formatted ---\n%s\n--- gofmt(raw) ---\n%s", err, wa.buf.Bytes(), want)
				}
			} else if wa.calls != 0 {
				return fmt.Errorf("a statement finished after a first render: Render returned an error but wrote %d bytes", wa.buf.Len())
			}
		}
	}
	// fragment renders: every body statement and every group obtained through a ...Func callback
	c.Forms.Rewind()
	bf := &recipe.Builder{Forms: c.Forms}
	for i, n := range c.File.Body {
		if n == nil || n.Kind != recipe.KStmt {
			continue
		}
		var st *jen.Statement
		if err := hx.Safe(func() error { st = bf.Stmt(n); return nil }); err != nil {
			return fmt.Errorf("building statement %d panicked: %v", i, err)
		}
		for mode := 0; mode < 3; mode++ {
			w := &countingWriter{}
			var err error
			if perr := hx.Safe(func() error {
				switch mode {
				case 1:
					err = st.RenderWithFile(w, jen.NewFile(""))
				case 2:
					// with a File that is itself rendered unformatted: the fragment is formatted all the same
					nf := jen.NewFile("p")
					nf.NoFormat = true
					err = st.RenderWithFile(w, nf)
				default:
					err = st.Render(w)
				}
				return nil
			}); perr != nil {
				return fmt.Errorf("Statement render of body item %d panicked: %v", i, perr)
			}
			if err != nil {
				if w.calls != 0 {
					return fmt.Errorf("Statement render failed but wrote %d bytes", w.buf.Len())
				}
				continue
			}
			if perr := parsesAsFragment(w.buf.Bytes()); perr != nil {
				return fmt.Errorf("Statement render of body item %d returned nil but the bytes parse neither as a file, nor as declarations, nor as statements: %v\n%s", i, perr, w.buf.Bytes())
			}
		}
	}
	for gi, g := range bf.Groups {
		w := &countingWriter{}
		var err error
		if perr := hx.Safe(func() error { err = g.Render(w); return nil }); perr != nil {
			return fmt.Errorf("Group render %d panicked: %v", gi, perr)
		}
		if err != nil {
			if w.calls != 0 {
				return fmt.Errorf("Group render failed but wrote %d bytes", w.buf.Len())
			}
			continue
		}
		if perr := parsesAsFragment(w.buf.Bytes()); perr != nil {
			return fmt.Errorf("Group render %d returned nil but the bytes do not parse: %v\n%s", gi, perr, w.buf.Bytes())
		}
	}
	return nil
}

// outcome classifies a case for the evidence histogram (rendered or error).
func outcome(c Case) string {
	res := "render_error"
	_ = hx.Safe(func() error {
		c.Forms.Rewind()
		f := (&recipe.Builder{Forms: c.Forms}).File(c.File)
		if f.Render(&bytes.Buffer{}) == nil {
			res = "rendered_ok"
		}
		return nil
	})
	return res
}

func forms(rt *rapid.T) *recipe.Decisions {
	if rapid.Bool().Draw(rt, "useforms") {
		return nil
	}
	return &recipe.Decisions{Draw: func(n int) int { return rapid.IntRange(0, n-1).Draw(rt, "form") }}
}

func freeze(d *recipe.Decisions) *recipe.Decisions {
	if d == nil {
		return nil
	}
	d.Draw = nil
	return d
}

var root = corpus.Default()

func TestC02(t *testing.T) {
	r := hx.Start(t, "C02")
	defer r.Finish(t)
	r.Rule("rapid-generated Files: (a) random DSL trees over every exported construct with plausible and arbitrary string arguments (depth <= 4, width <= 5), (b) plausible small programs (mostly valid), (c) real programs with one structured damage (delete/duplicate/swap/rename a call or item); all under random File settings (constructor, prefix, hints, header/package comments, canonical path, cgo preamble, anon imports) and random form policy; every case is built formatted and NoFormat (half of the plausible programs are configured further — header / package comments, canonical path, cgo preamble, anon imports — after a first Render and rendered again), and every body statement and every ...Func group is rendered as a fragment; non-trivial = tree with >= 3 calls; distinct by recipe; both outcome classes are reported")
	r.Assume("documented preconditions only: Lit gets a supported type, a Dict is the only item of its Values, callbacks and *File are non-nil, Code graphs are acyclic")
	count := func(kind string, c Case) {
		calls := 0
		for _, n := range c.File.Body {
			calls += recipe.CountCalls(n)
		}
		oc := outcome(c)
		r.Class(kind + ":" + oc)
		if calls >= 3 {
			r.NonTrivial(recipe.JSON(c.File))
		}
	}
	hx.Replay(r, hx.Check[Case]{Name: "known_finding_probe", Fn: probe})
	hx.Rapid(r, t, hx.Check[Case]{Name: "random_tree", Fn: check}, r.N(2500, 25000), func(rt *rapid.T) Case {
		f := gen.FileSettings(rt)
		n := rapid.IntRange(1, 3).Draw(rt, "nbody")
		for i := 0; i < n; i++ {
			f.Body = append(f.Body, gen.Tree(rt, 4, 5))
		}
		c := Case{File: f, Forms: forms(rt)}
		// run once while drawing so that the decisions get recorded, then freeze them
		_ = hx.Safe(func() error { (&recipe.Builder{Forms: c.Forms}).File(c.File); return nil })
		c.Forms = freeze(c.Forms)
		count("random_tree", c)
		return c
	})
	hx.Rapid(r, t, hx.Check[Case]{Name: "plausible_program", Fn: check}, r.N(1500, 15000), func(rt *rapid.T) Case {
		f := gen.FileSettings(rt)
		n := rapid.IntRange(1, 4).Draw(rt, "ndecls")
		for i := 0; i < n; i++ {
			f.Body = append(f.Body, gen.Decl(rt, 3))
		}
		if rapid.IntRange(0, 2).Draw(rt, "comments") == 0 {
			// comments at the end of items and as items of their own, one-line and multi-line
			dec := &recipe.Decisions{Draw: func(n int) int { return rapid.IntRange(0, n-1).Draw(rt, "place") }}
			texts := []string{"one line", "first line\nsecond line", "x is the answer\n(nearly)", "trailing blanks   ", "a\n\tindented\nb\n", "TODO(x): y", "100% %d"}
			f2, placed := mutate.InjectComments(f, dec, 3, func() string { return rapid.SampledFrom(texts).Draw(rt, "ctext") })
			if len(placed) > 0 {
				f = f2
				r.Class("plausible_with_comments")
			}
		}
		c := Case{File: f, Forms: forms(rt), AfterPanic: rapid.IntRange(0, 5).Draw(rt, "afterpanic") == 0, Staged: rapid.IntRange(0, 2).Draw(rt, "staged") == 0}
		if rapid.Bool().Draw(rt, "late") {
			// configuration that does not touch the body, applied after the first render
			c.Late = gen.FileSettings(rt).Ops
			var late []recipe.FileOp
			for _, op := range c.Late {
				switch op.Op {
				case "HeaderComment", "PackageComment", "CanonicalPath", "CgoPreamble":
					late = append(late, op)
				case "Anon":
					// Anon for paths the body never references (the property excludes Anon on a referenced path)
					late = append(late, recipe.FileOp{Op: "Anon", Args: []recipe.Text{"late.example/anon"}})
				}
			}
			c.Late = late
			if len(late) > 0 {
				r.Class("settings_after_render")
			}
		}
		_ = hx.Safe(func() error { (&recipe.Builder{Forms: c.Forms}).File(c.File); return nil })
		c.Forms = freeze(c.Forms)
		count("plausible", c)
		return c
	})
	// damaged real programs
	files := corpus.Files(root.Dir)
	var small []string
	for i, f := range files {
		if st, err := os.Stat(f); err == nil && st.Size() < 6000 && (uint64(i)+r.Seed)%7 == 0 {
			small = append(small, f)
		}
	}
	hx.Rapid(r, t, hx.Check[Case]{Name: "damaged_program", Fn: check}, r.N(500, 4000), func(t2 *rapid.T) Case {
		for tries := 0; tries < 20; tries++ {
			f := rapid.SampledFrom(small).Draw(t2, "file")
			src, err := os.ReadFile(f)
			if err != nil {
				continue
			}
			p, status, _ := rt.Translate(f, src, root, nil, false)
			if status != rt.OK || len(p.Recipe.Body) == 0 {
				continue
			}
			dec := &recipe.Decisions{Draw: func(n int) int { return rapid.IntRange(0, n-1).Draw(t2, "damage") }}
			fr, what := mutate.Damage(p.Recipe, dec, func() *recipe.Node { return gen.Tree(t2, 1, 2) })
			c := Case{File: fr, Note: f + ": " + what}
			oc := outcome(c)
			r.Class("damaged:" + oc)
			r.NonTrivial(recipe.JSON(fr))
			return c
		}
		return Case{File: &recipe.File{Ctor: "NewFile", Args: []recipe.Text{"p"}}}
	})
}

// FuzzTree drives the random-tree property from coverage-guided bytes.
func FuzzTree(f *testing.F) {
	f.Fuzz(rapid.MakeFuzz(func(rt *rapid.T) {
		fs := gen.FileSettings(rt)
		n := rapid.IntRange(1, 3).Draw(rt, "nbody")
		for i := 0; i < n; i++ {
			fs.Body = append(fs.Body, gen.Tree(rt, 4, 5))
		}
		if err := check(Case{File: fs}); err != nil {
			rt.Fatalf("%v\ncase: %s", err, recipe.JSON(fs))
		}
	}))
}
