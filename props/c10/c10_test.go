// C10 Failure atomicity and error propagation for Render and Save.
package c10

import (
	"bytes"
	"context"
	"errors"
	"fmt"
	"go/format"
	"go/parser"
	"go/token"
	"io"
	"os"
	"path/filepath"
	"strconv"
	"strings"
	"sync"
	"syscall"
	"testing"
	"time"

	"github.com/dave/jennifer/jen"
	"pgregory.net/rapid"

	"verif/internal/gen"
	"verif/internal/hx"
	"verif/internal/recipe"
)

// Case is one tree; check runs the whole fault matrix on it.
type Case struct {
	File *recipe.File `json:"file"`
}

var errInjected = errors.New("injected writer fault")

// faultWriter fails on its k-th Write (k >= 1; 0 = never), optionally after
// accepting some bytes of that write.
type faultWriter struct {
	failAt  int
	partial bool
	err     error // what a failing Write reports (nil: errInjected)
	calls   int
	bytes   int
	buf     bytes.Buffer
}

func (w *faultWriter) Write(p []byte) (int, error) {
	w.calls++
	if w.failAt != 0 && (w.calls == w.failAt || w.failAt < 0) {
		e := w.err
		if e == nil {
			e = errInjected
		}
		if w.partial && len(p) > 1 {
			n := len(p) / 2
			w.buf.Write(p[:n])
			w.bytes += n
			return n, e
		}
		return 0, e
	}
	w.bytes += len(p)
	return w.buf.Write(p)
}

// busyWriter is a healthy writer that renders other code inside Write before it looks at the
// bytes it was handed (a caller's Write may do anything, e.g. log through another generated
// snippet): the bytes must still be the ones of the render in progress.
type busyWriter struct{ buf bytes.Buffer }

func (w *busyWriter) Write(p []byte) (int, error) {
	for _, nf := range []bool{true, false} {
		d := jen.NewFile("decoy")
		d.NoFormat = nf
		d.Var().Id("decoy").Op("=").Lit("decoy decoy decoy")
		_ = d.Render(io.Discard)
		_ = d.Render(io.Discard)
	}
	_ = jen.Id("decoy").Op(":=").Lit(1).Render(io.Discard)
	_ = jen.Id("decoy").Op(":=").Lit(2).RenderWithFile(io.Discard, jen.NewFile("decoy"))
	return w.buf.Write(p)
}

// devFullUsable: /dev/full is the character device 1:7 and a write to it fails.
func devFullUsable() bool {
	st, err := os.Stat("/dev/full")
	if err != nil || st.Mode()&os.ModeCharDevice == 0 {
		return false
	}
	f, err := os.OpenFile("/dev/full", os.O_WRONLY, 0)
	if err != nil {
		return false
	}
	defer f.Close()
	_, werr := f.Write([]byte("x"))
	return werr != nil
}

type temporaryError struct{}

func (temporaryError) Error() string   { return "resource temporarily unavailable" }
func (temporaryError) Temporary() bool { return true }
func (temporaryError) Timeout() bool   { return false }

// hiccupWriter: the first Write accepts half of the bytes and returns a temporary error; later Writes succeed.
type hiccupWriter struct {
	buf   bytes.Buffer
	calls int
	first int
}

func (w *hiccupWriter) Write(p []byte) (int, error) {
	w.calls++
	if w.calls == 1 {
		n := len(p) / 2
		w.first = n
		w.buf.Write(p[:n])
		return n, temporaryError{}
	}
	return w.buf.Write(p)
}

type writerFault struct {
	name    string
	failAt  int
	partial bool
	err     error
}

var writerFaults = []writerFault{
	{"none", 0, false, nil},
	{"error on 1st write", 1, false, nil},
	{"error on 2nd write", 2, false, nil},
	{"error on 3rd write", 3, false, nil},
	{"short write + error on 1st write", 1, true, nil},
	{"every write fails", -1, false, nil},
	// the errors real writers report when whoever reads them has gone, the disk is full, the file was closed,
	// the request was cancelled: errors like any other
	{"EPIPE on 1st write", 1, false, syscall.EPIPE},
	{"io.ErrClosedPipe on 1st write", 1, false, io.ErrClosedPipe},
	{"*os.PathError{write |1: EPIPE} on 1st write", 1, false, &os.PathError{Op: "write", Path: "|1", Err: syscall.EPIPE}},
	{"wrapped io.ErrClosedPipe + short write on 1st write", 1, true, fmt.Errorf("response body: %w", io.ErrClosedPipe)},
	{"io.EOF on 1st write", 1, false, io.EOF},
	{"io.ErrShortWrite on 1st write", 1, true, io.ErrShortWrite},
	{"context.Canceled on 1st write", 1, false, context.Canceled},
	{"os.ErrClosed on 1st write", 1, false, os.ErrClosed},
	{"ENOSPC on 1st write", 1, true, &os.PathError{Op: "write", Path: "/mnt/full/out.go", Err: syscall.ENOSPC}},
	{"ECONNRESET on 1st write", 1, false, syscall.ECONNRESET},
}

var (
	matrixMu sync.Mutex
	matrix   = map[string]int{}
	wraps    = map[string]int{}
)

func cell(entry, fault string, valid bool) {
	v := "invalid-tree"
	if valid {
		v = "valid-tree"
	}
	matrixMu.Lock()
	matrix[entry+" | "+fault+" | "+v]++
	matrixMu.Unlock()
}

func noteWrap(entry string, err error) {
	matrixMu.Lock()
	if errors.Is(err, errInjected) {
		wraps[entry+": errors.Is(cause)=true"]++
	} else {
		wraps[entry+": errors.Is(cause)=false"]++
	}
	matrixMu.Unlock()
}

type target struct {
	name   string
	render func(w io.Writer) error
	code   func() jen.Code // fragment entry points: the Code that is rendered (for the independent reference)
}

func check(c Case) error {
	build := func() (*jen.File, *recipe.Builder) {
		b := &recipe.Builder{}
		return b.File(c.File), b
	}
	// reference: what the tree renders into a plain buffer
	ref, _ := build()
	refBuf := &bytes.Buffer{}
	refErr := ref.Render(refBuf)
	valid := refErr == nil

	// entry points working on a writer
	targets := []target{{"File.Render", func(w io.Writer) error { f, _ := build(); return f.Render(w) }, nil}}
	for i, n := range c.File.Body {
		if n == nil || n.Kind != recipe.KStmt || i > 1 {
			continue
		}
		n := n
		targets = append(targets,
			target{fmt.Sprintf("Statement.Render[%d]", i), func(w io.Writer) error { return (&recipe.Builder{}).Stmt(n).Render(w) }, func() jen.Code { return (&recipe.Builder{}).Stmt(n) }},
			target{fmt.Sprintf("Statement.RenderWithFile[%d]", i), func(w io.Writer) error {
				f, _ := build()
				return (&recipe.Builder{}).Stmt(n).RenderWithFile(w, f)
			}, nil},
		)
		// a group with the same items, obtained through a ...Func callback
		grp := func() *jen.Group {
			var g *jen.Group
			jen.BlockFunc(func(x *jen.Group) { g = x; x.Add((&recipe.Builder{}).Stmt(n)) })
			return g
		}
		targets = append(targets,
			target{fmt.Sprintf("Group.Render[%d]", i), func(w io.Writer) error { return grp().Render(w) }, func() jen.Code { return jen.Block((&recipe.Builder{}).Stmt(n)) }},
			target{fmt.Sprintf("Group.RenderWithFile[%d]", i), func(w io.Writer) error { f, _ := build(); return grp().RenderWithFile(w, f) }, nil},
		)
	}
	// independent reference for fragment renders: gofmt of the raw text the same Code renders as
	// the only item of a NoFormat File
	// rejected is set when gofmt does not accept the raw text the code renders to
	rejected := false
	fragRef := func(code jen.Code) ([]byte, bool) {
		rejected = false
		f := jen.NewFile("p")
		f.NoFormat = true
		f.Add(jen.Id("ZZFRAGMENTSTART"))
		f.Add(code)
		buf := &bytes.Buffer{}
		if err := f.Render(buf); err != nil {
			return nil, false
		}
		i := bytes.Index(buf.Bytes(), []byte("ZZFRAGMENTSTART"))
		if i < 0 {
			return nil, false
		}
		raw := bytes.TrimPrefix(buf.Bytes()[i+len("ZZFRAGMENTSTART"):], []byte("\n"))
		out, err := format.Source(raw)
		if err != nil {
			rejected = len(bytes.TrimSpace(raw)) > 0
			return nil, false
		}
		return out, true
	}
	// fragment renders format their output whatever the settings of the File that resolves their
	// imports: with an unformatted context File they succeed, fail and write exactly as with its
	// formatted twin
	{
		twin := c.File.Clone()
		var ops []recipe.FileOp
		isNoFormat := false
		for _, op := range twin.Ops {
			if op.Op == "NoFormat" {
				isNoFormat = true
				continue
			}
			ops = append(ops, op)
		}
		twin.Ops = ops
		if isNoFormat {
			for i, n := range c.File.Body {
				if n == nil || n.Kind != recipe.KStmt || i > 1 {
					continue
				}
				type res struct {
					err error
					out string
				}
				run := func(fr *recipe.File, group bool) res {
					w := &faultWriter{}
					var err error
					f := (&recipe.Builder{}).File(fr)
					if group {
						var g *jen.Group
						jen.BlockFunc(func(x *jen.Group) { g = x; x.Add((&recipe.Builder{}).Stmt(n)) })
						err = g.RenderWithFile(w, f)
					} else {
						err = (&recipe.Builder{}).Stmt(n).RenderWithFile(w, f)
					}
					return res{err, w.buf.String()}
				}
				for _, group := range []bool{false, true} {
					a, b := run(c.File, group), run(twin, group)
					if (a.err == nil) != (b.err == nil) || a.out != b.out {
						return fmt.Errorf("RenderWithFile (group=%v) of body item %d with the NoFormat File as context: err=%v, wrote %q; with the same File formatted: err=%v, wrote %q", group, i, firstLine(a.err), a.out, firstLine(b.err), b.out)
					}
				}
				cell("RenderWithFile, NoFormat context File vs formatted twin", "none", valid)
			}
		}
	}
	for _, tg := range targets {
		entry := tg.name[:strings.IndexAny(tg.name+"[", "[")]
		// fault-free reference for this entry point
		okw := &faultWriter{}
		okErr := tg.render(okw)
		if okErr == nil && tg.code != nil {
			want, ok := fragRef(tg.code())
			if ok && !bytes.Equal(want, okw.buf.Bytes()) {
				return fmt.Errorf("%s: success reported, the writer received %q, but gofmt of the raw rendering of the same code is %q", tg.name, okw.buf.Bytes(), want)
			}
			if !ok && rejected {
				return fmt.Errorf("%s: success reported (the writer received %q), but gofmt rejects the raw rendering of the same code: the failure was swallowed", tg.name, okw.buf.Bytes())
			}
		}
		if okErr == nil && len(okw.buf.Bytes()) > 1 {
			// a writer that accepts part of what it is handed and reports a temporary error (EINTR / EAGAIN
			// style), and works from then on: the caller gets the error, or — if the library retries — the
			// writer ends up with exactly the output
			hw := &hiccupWriter{}
			err := tg.render(hw)
			if err == nil && !bytes.Equal(hw.buf.Bytes(), okw.buf.Bytes()) {
				return fmt.Errorf("%s into a writer whose first Write took %d bytes and reported a temporary error: the call returned nil, the writer holds %q, the output is %q", tg.name, hw.first, hw.buf.Bytes(), okw.buf.Bytes())
			}
			cell(entry, "partial write + temporary error, then healthy", true)
		}
		if okErr == nil {
			bw := &busyWriter{}
			if err := tg.render(bw); err != nil || !bytes.Equal(bw.buf.Bytes(), okw.buf.Bytes()) {
				return fmt.Errorf("%s into a writer that renders other code inside Write: err=%v, the writer received %q, reference %q", tg.name, err, bw.buf.Bytes(), okw.buf.Bytes())
			}
			cell(entry, "none (writer renders other code inside Write)", true)
		}
		for _, wf := range writerFaults {
			w := &faultWriter{failAt: wf.failAt, partial: wf.partial, err: wf.err}
			err := tg.render(w)
			cell(entry, wf.name, okErr == nil)
			switch {
			case okErr != nil:
				// rendering fails: nothing may reach the writer, whatever the writer would do
				if err == nil {
					return fmt.Errorf("%s, %s: rendering fails with a healthy writer (%v) but succeeded here", tg.name, wf.name, firstLine(okErr))
				}
				if w.calls != 0 {
					return fmt.Errorf("%s, %s: rendering failed (%v) but the writer received %d Write calls (%d bytes)", tg.name, wf.name, firstLine(err), w.calls, w.bytes)
				}
			case wf.failAt == 0 || wf.failAt > 1:
				// the fault never triggers if the output is written once; in any case success means exact bytes
				if err == nil {
					if !bytes.Equal(w.buf.Bytes(), okw.buf.Bytes()) {
						return fmt.Errorf("%s, %s: success reported but the writer received %q, reference %q", tg.name, wf.name, w.buf.Bytes(), okw.buf.Bytes())
					}
				} else if w.calls < wf.failAt {
					return fmt.Errorf("%s, %s: error %v although the writer never failed", tg.name, wf.name, err)
				} else {
					noteWrap(entry, err)
				}
			default:
				// the first write fails: the error must come back
				if w.calls == 0 && len(okw.buf.Bytes()) > 0 {
					return fmt.Errorf("%s, %s: nothing was written and no write was attempted", tg.name, wf.name)
				}
				if w.calls > 0 && err == nil {
					return fmt.Errorf("%s, %s: the writer returned an error on its first Write but the render call returned nil", tg.name, wf.name)
				}
				if err != nil {
					noteWrap(entry, err)
				}
			}
		}
		if entry == "File.Render" && okErr == nil && !noFormatFile(c.File) {
			// success of a formatted render means the formatter accepted a complete Go file: what reached the
			// writer (and what Save would put on disk) parses as one
			if _, perr := parser.ParseFile(token.NewFileSet(), "", okw.buf.Bytes(), parser.PackageClauseOnly); perr != nil {
				return fmt.Errorf("File.Render reported success but the bytes it wrote are not a Go file (%v):\n%s", perr, okw.buf.Bytes())
			}
		}
		if entry == "File.Render" && okErr == nil && !bytes.Equal(okw.buf.Bytes(), refBuf.Bytes()) {
			return fmt.Errorf("File.Render wrote %q into the instrumented writer, %q into a bytes.Buffer", okw.buf.Bytes(), refBuf.Bytes())
		}
	}

	// real pipes whose reading end has gone: the write fails (io.ErrClosedPipe, EPIPE) and the caller hears of it
	for _, tg := range targets {
		okw := &faultWriter{}
		if tg.render(okw) != nil || okw.bytes == 0 {
			continue
		}
		entry := tg.name[:strings.IndexAny(tg.name+"[", "[")]
		pr, pw := io.Pipe()
		pr.Close()
		if err := tg.render(pw); err == nil {
			return fmt.Errorf("%s into the writing end of an io.Pipe whose reader is closed (every Write fails with %v) returned nil", tg.name, io.ErrClosedPipe)
		}
		pw.Close()
		cell(entry, "io.Pipe, reader closed", true)
		if r, w, err := os.Pipe(); err == nil {
			r.Close()
			rerr := tg.render(w)
			w.Close()
			if rerr == nil {
				return fmt.Errorf("%s into the writing end of an os.Pipe whose reading end is closed (the write fails with EPIPE) returned nil", tg.name)
			}
			cell(entry, "os.Pipe, reading end closed", true)
		}
	}

	// rendering that fails with a panic (a literal of an unsupported type, a Dict next to other items in
	// Values: documented panics, raised while rendering) after other items have been rendered: a caller
	// that recovers finds its writer as it was
	for i, n := range c.File.Body {
		if n == nil || n.Kind != recipe.KStmt || i > 1 {
			continue
		}
		n := n
		for vi, breaker := range []func() jen.Code{
			func() jen.Code { return jen.Id("tail").Op("=").Lit(struct{ A int }{7}) },
			func() jen.Code { return jen.Id("T").Values(jen.Dict{jen.Id("a"): jen.Lit(1)}, jen.Id("extra")) },
		} {
			mk := func() *jen.Statement {
				return jen.Func().Id("_").Params().Block((&recipe.Builder{}).Stmt(n), jen.Id("mid").Call(), breaker())
			}
			entries := map[string]func(w io.Writer) error{
				"Statement.Render":         func(w io.Writer) error { return mk().Render(w) },
				"Statement.RenderWithFile": func(w io.Writer) error { f, _ := build(); return mk().RenderWithFile(w, f) },
				"Group.Render": func(w io.Writer) error {
					var g *jen.Group
					jen.BlockFunc(func(x *jen.Group) { g = x; x.Add(mk()) })
					return g.Render(w)
				},
				"File.Render": func(w io.Writer) error { f, _ := build(); f.Add(mk()); return f.Render(w) },
			}
			for name, call := range entries {
				for _, kind := range []string{"*bytes.Buffer", "faultWriter"} {
					buf := bytes.NewBufferString("PRIOR CONTENT\n")
					fw := &faultWriter{}
					var err error
					perr := hx.Safe(func() error {
						if kind == "faultWriter" {
							err = call(fw)
						} else {
							err = call(buf)
						}
						return nil
					})
					cell(name, "render panics (variant "+strconv.Itoa(vi)+"), "+kind, false)
					if perr == nil && err == nil {
						continue // (a library that renders such a tree is none of this check's business)
					}
					if buf.String() != "PRIOR CONTENT\n" {
						return fmt.Errorf("%s of body item %d followed by an item whose rendering panics (variant %d): the call failed (panic: %v, error: %v) but the caller's *bytes.Buffer, which held %q, now holds %q", name, i, vi, perr != nil, firstLine(err), "PRIOR CONTENT\n", buf.String())
					}
					if fw.calls != 0 {
						return fmt.Errorf("%s of body item %d followed by an item whose rendering panics (variant %d): the call failed (panic: %v) but the writer received %d Write calls (%d bytes)", name, i, vi, perr != nil, fw.calls, fw.bytes)
					}
				}
			}
		}
	}

	// sequences on ONE File object: a failure must not be forgotten by the next call, and a File
	// that rendered once must still fail cleanly after something invalid was added to it
	{
		f, _ := build()
		for attempt := 1; attempt <= 3; attempt++ {
			w := &faultWriter{}
			err := f.Render(w)
			cell("File.Render (same File, attempt 2-3)", "none", valid)
			if valid {
				if err != nil || !bytes.Equal(w.buf.Bytes(), refBuf.Bytes()) {
					return fmt.Errorf("File.Render attempt %d on the same File: err=%v, bytes differ=%v", attempt, err, !bytes.Equal(w.buf.Bytes(), refBuf.Bytes()))
				}
			} else {
				if err == nil {
					return fmt.Errorf("File.Render attempt %d on the same File returned nil although the tree does not render (attempt 1 reported: %v)", attempt, firstLine(refErr))
				}
				if w.calls != 0 {
					return fmt.Errorf("File.Render attempt %d on the same File failed but wrote %d bytes", attempt, w.bytes)
				}
			}
		}
		noFormat := false
		for _, op := range c.File.Ops {
			if op.Op == "NoFormat" {
				noFormat = true
			}
		}
		if valid && !noFormat {
			// now break the File and try again: Render and Save must fail and leave everything alone. Each
			// way of breaking it is applied to a File object that has rendered (the first: the one rendered
			// three times above); what must happen is what a twin does that was built the same way and
			// broken before its first render
			breakers := []struct {
				name  string
				apply func(f *jen.File)
			}{
				{"an invalid item", func(f *jen.File) { f.Add(jen.Func().Lit(1).Op("}")) }},
				{"an unterminated package comment that swallows the package clause", func(f *jen.File) { f.Comment("/* y */"); f.PackageComment("/* doc") }},
				{"an unterminated header comment that swallows the package clause", func(f *jen.File) { f.Comment("/* y */"); f.HeaderComment("/* head") }},
				{"a canonical path that breaks the package clause", func(f *jen.File) { f.CanonicalPath = "a/b\"\nfunc (" }},
				{"a package prefix that is no identifier", func(f *jen.File) { f.PackagePrefix = "1-"; f.Add(jen.Qual("zz.example/late", "X")) }},
			}
			for bi, br := range breakers {
				if bi > 0 {
					f, _ = build()
					if err := f.Render(io.Discard); err != nil {
						return fmt.Errorf("File.Render of a fresh build of a valid tree failed: %v", firstLine(err))
					}
				}
				twin, _ := build()
				br.apply(twin)
				tw := &bytes.Buffer{}
				twinErr := twin.Render(tw)
				if bi == 0 && twinErr == nil {
					return fmt.Errorf("a File with an invalid item renders without error: %q", tw.Bytes())
				}
				br.apply(f)
				w := &faultWriter{}
				err := f.Render(w)
				cell("File.Render (valid, rendered, then broken: "+br.name+")", "none", twinErr == nil)
				if twinErr == nil {
					// this tree survives the change: the File that rendered before must agree with its twin
					if err != nil || !bytes.Equal(w.buf.Bytes(), tw.Bytes()) {
						return fmt.Errorf("a File that rendered once and then got %s: err=%v, wrote %q; a File built the same way that got it before its first render wrote %q", br.name, firstLine(err), w.buf.Bytes(), tw.Bytes())
					}
					continue
				}
				if err == nil {
					return fmt.Errorf("a File that rendered once and then got %s renders without error (a File built the same way that got it before its first render fails: %v): %q", br.name, firstLine(twinErr), w.buf.Bytes())
				}
				if w.calls != 0 {
					return fmt.Errorf("a File that rendered once and then got %s failed to render but wrote %d bytes", br.name, w.bytes)
				}
				if dir, derr := os.MkdirTemp("", "c10s-"); derr == nil {
					p := filepath.Join(dir, "t.go")
					old := []byte("// good output of an earlier run\npackage old\n")
					_ = os.WriteFile(p, old, 0o644)
					for attempt := 1; attempt <= 2; attempt++ {
						serr := f.Save(p)
						got, _ := os.ReadFile(p)
						cell("File.Save (valid, rendered, then broken: "+br.name+")", "existing target", false)
						if serr == nil || !bytes.Equal(got, old) {
							os.RemoveAll(dir)
							return fmt.Errorf("Save attempt %d of a File that got %s after a successful render: err=%v, target now %q", attempt, br.name, firstLine(serr), got)
						}
					}
					os.RemoveAll(dir)
				}
			}
		}
	}

	// File.Save against a real filesystem
	dir, err := os.MkdirTemp("", "c10-")
	if err != nil {
		return nil
	}
	defer os.RemoveAll(dir)
	old := []byte("// previous good content\npackage old\n")
	past := time.Now().Add(-48 * time.Hour).Truncate(time.Second)
	type fsFault struct {
		name  string
		setup func() string
		after func(path string, err error) error
	}
	faults := []fsFault{
		{"fresh target", func() string { return filepath.Join(dir, "fresh.go") }, func(p string, err error) error {
			got, rerr := os.ReadFile(p)
			if valid {
				if err != nil {
					return fmt.Errorf("Save failed: %v", firstLine(err))
				}
				if rerr != nil || !bytes.Equal(got, refBuf.Bytes()) {
					return fmt.Errorf("saved file holds %q, Render produces %q", got, refBuf.Bytes())
				}
			} else {
				if err == nil {
					return fmt.Errorf("Save returned nil for a tree that does not render")
				}
				if rerr == nil {
					return fmt.Errorf("Save failed (%v) but created the target with %d bytes", firstLine(err), len(got))
				}
			}
			return nil
		}},
		{"existing target", func() string {
			p := filepath.Join(dir, "existing.go")
			_ = os.WriteFile(p, old, 0o644)
			_ = os.Chtimes(p, past, past)
			return p
		}, func(p string, err error) error {
			got, _ := os.ReadFile(p)
			st, _ := os.Stat(p)
			if valid {
				if err != nil {
					return fmt.Errorf("Save failed: %v", firstLine(err))
				}
				if !bytes.Equal(got, refBuf.Bytes()) {
					return fmt.Errorf("saved file holds %q, Render produces %q", got, refBuf.Bytes())
				}
			} else {
				if err == nil {
					return fmt.Errorf("Save returned nil for a tree that does not render")
				}
				if !bytes.Equal(got, old) {
					return fmt.Errorf("rendering failed but the existing target was changed: now %q", got)
				}
				if st != nil && !st.ModTime().Equal(past) {
					return fmt.Errorf("rendering failed but the existing target's mtime changed")
				}
			}
			return nil
		}},
		// an existing target whose content resembles the new output: identical, differing only in
		// letter case, a prefix of it, or the output followed by more bytes
		{"existing target: same bytes", func() string {
			p := filepath.Join(dir, "same.go")
			_ = os.WriteFile(p, refBuf.Bytes(), 0o644)
			return p
		}, similar(valid, refBuf.Bytes())},
		{"existing target: differs in letter case only", func() string {
			p := filepath.Join(dir, "case.go")
			_ = os.WriteFile(p, swapCase(refBuf.Bytes()), 0o644)
			return p
		}, similar(valid, refBuf.Bytes())},
		{"existing target: a prefix of the output", func() string {
			p := filepath.Join(dir, "prefix.go")
			_ = os.WriteFile(p, refBuf.Bytes()[:refBuf.Len()/2], 0o644)
			return p
		}, similar(valid, refBuf.Bytes())},
		{"existing target: the output plus trailing bytes", func() string {
			p := filepath.Join(dir, "longer.go")
			_ = os.WriteFile(p, append(append([]byte{}, refBuf.Bytes()...), "\n// stale tail that must disappear\n"...), 0o644)
			return p
		}, similar(valid, refBuf.Bytes())},
		{"parent directory missing", func() string { return filepath.Join(dir, "missing", "x.go") }, func(p string, err error) error {
			if err == nil {
				return fmt.Errorf("Save into a missing directory returned nil")
			}
			if _, serr := os.Stat(filepath.Join(dir, "missing")); serr == nil {
				return fmt.Errorf("Save created the missing directory")
			}
			return nil
		}},
		{"path component is a file", func() string {
			_ = os.WriteFile(filepath.Join(dir, "afile"), []byte("x"), 0o644)
			return filepath.Join(dir, "afile", "x.go")
		}, func(p string, err error) error {
			if err == nil {
				return fmt.Errorf("Save below a regular file returned nil")
			}
			if b, _ := os.ReadFile(filepath.Join(dir, "afile")); string(b) != "x" {
				return fmt.Errorf("the regular file in the path was modified")
			}
			return nil
		}},
		{"target is a directory", func() string {
			p := filepath.Join(dir, "adir")
			_ = os.Mkdir(p, 0o755)
			return p
		}, func(p string, err error) error {
			if err == nil {
				return fmt.Errorf("Save onto a directory returned nil")
			}
			if st, serr := os.Stat(p); serr != nil || !st.IsDir() {
				return fmt.Errorf("the directory was replaced")
			}
			return nil
		}},
		{"device full (/dev/full)", func() string {
			// never the device node itself: the code under test runs as root, and a Save that goes through a
			// temporary file and a rename would replace the node. A symbolic link in the scratch directory
			// is followed by an ordinary write and merely replaced by such a rename.
			if !devFullUsable() {
				return ""
			}
			link := filepath.Join(dir, "devfull.go")
			if os.Symlink("/dev/full", link) != nil {
				return ""
			}
			return link
		}, func(p string, err error) error {
			if p == "" {
				return nil // no usable /dev/full here: the cell says nothing
			}
			if st, serr := os.Lstat(p); serr == nil && st.Mode()&os.ModeSymlink == 0 {
				// the link was replaced by a file: Save did not write to the target it was given
				if err == nil {
					return nil // a rename-based Save "succeeds" on a link; the other cells judge its bytes
				}
			}
			if err == nil && (valid && refBuf.Len() > 0) {
				return fmt.Errorf("Save to /dev/full (every write fails with ENOSPC) returned nil")
			}
			return nil
		}},
		{"name too long", func() string { return filepath.Join(dir, strings.Repeat("n", 300)+".go") }, func(p string, err error) error {
			if err == nil {
				return fmt.Errorf("Save with a 300-byte file name returned nil")
			}
			return nil
		}},
	}
	for _, ff := range faults {
		p := ff.setup()
		if p == "" {
			cell("File.Save", ff.name+" (unavailable here)", valid)
			continue
		}
		f, _ := build()
		var err error
		if perr := hx.Safe(func() error { err = f.Save(p); return nil }); perr != nil {
			return fmt.Errorf("File.Save, %s: %v", ff.name, perr)
		}
		cell("File.Save", ff.name, valid)
		if aerr := ff.after(p, err); aerr != nil {
			return fmt.Errorf("File.Save, %s: %v", ff.name, aerr)
		}
	}
	// relative names: a name is resolved against the directory the process is in when Save is called
	if valid {
		if err := relativeSaves(build, refBuf.Bytes(), dir); err != nil {
			return err
		}
		cell("File.Save", "relative name, before and after a change of directory", true)
	}
	return nil
}

// relativeSaves saves under a relative name in one directory, changes the working directory, and saves
// under a relative name again (checks run one at a time in this process; the directory is restored).
func relativeSaves(build func() (*jen.File, *recipe.Builder), want []byte, dir string) error {
	back, err := os.Getwd()
	if err != nil {
		return nil
	}
	defer os.Chdir(back)
	for i, sub := range []string{"first", "second", "third"} {
		d := filepath.Join(dir, "rel-"+sub)
		if os.MkdirAll(filepath.Join(d, "gen"), 0o755) != nil || os.Chdir(d) != nil {
			return nil
		}
		name := []string{"out.go", filepath.Join("gen", "out.go"), "./out.go"}[i]
		f, _ := build()
		var serr error
		if perr := hx.Safe(func() error { serr = f.Save(name); return nil }); perr != nil {
			return fmt.Errorf("File.Save(%q) in %s: %v", name, d, perr)
		}
		got, rerr := os.ReadFile(filepath.Join(d, name))
		if serr != nil || rerr != nil || !bytes.Equal(got, want) {
			return fmt.Errorf("File.Save(%q) called in directory rel-%s (after saves under relative names in other directories): err=%v; the file it names holds %q (read error %v), want the rendered output", name, sub, serr, got, rerr)
		}
	}
	return nil
}

// similar returns the post-condition for a Save onto a target that resembles the output.
func similar(valid bool, want []byte) func(p string, err error) error {
	return func(p string, err error) error {
		if !valid {
			return nil // covered by "existing target"
		}
		if err != nil {
			return fmt.Errorf("Save failed: %v", firstLine(err))
		}
		got, rerr := os.ReadFile(p)
		if rerr != nil || !bytes.Equal(got, want) {
			return fmt.Errorf("Save reported success but the file holds %q, Render produces %q", got, want)
		}
		return nil
	}
}

func swapCase(b []byte) []byte {
	out := make([]byte, len(b))
	for i, c := range b {
		switch {
		case c >= 'a' && c <= 'z':
			c -= 32
		case c >= 'A' && c <= 'Z':
			c += 32
		}
		out[i] = c
	}
	return out
}

func noFormatFile(f *recipe.File) bool {
	for _, op := range f.Ops {
		if op.Op == "NoFormat" {
			return true
		}
	}
	return false
}

func firstLine(err error) string {
	if err == nil {
		return "<nil>"
	}
	s := err.Error()
	if i := strings.IndexByte(s, '\n'); i >= 0 {
		s = s[:i]
	}
	if len(s) > 200 {
		s = s[:200]
	}
	return s
}

func TestC10(t *testing.T) {
	r := hx.Start(t, "C10")
	defer r.Finish(t)
	r.Rule("fault enumeration x generated trees: for every generated tree (plausible valid programs and random, mostly invalid, DSL trees) the complete matrix {File.Render, Statement.Render, Statement.RenderWithFile, Group.Render, Group.RenderWithFile} x {healthy writer, error on the 1st / 2nd / 3rd Write, short write + error, every Write fails} and File.Save x {fresh target, existing target with known content and mtime, existing targets resembling the output (same bytes, other letter case, a prefix, output plus trailing bytes), missing parent directory, path component is a regular file, target is a directory, /dev/full, name too long} is executed, plus sequences on one File object (three renders in a row; a File that rendered and was then broken — an invalid item, an unterminated package or header comment that swallows the package clause, a canonical path or package prefix that breaks the text — must do what a twin does that was broken before its first render: fail without writing, and Save must leave the target alone, twice); the matrix with per-cell counts is in the evidence; non-trivial = every tree (each meets every cell); distinct by tree")
	r.Assume("the process runs as root, so permission faults are not used; a Write that returns n < len(p) without an error violates io.Writer's contract and is not injected; whether a returned error wraps the injected cause is recorded, not asserted")
	valid, invalid := 0, 0
	note := func(c Case) {
		f := (&recipe.Builder{}).File(c.File)
		if f.Render(&bytes.Buffer{}) == nil {
			valid++
			r.Class("valid_tree")
		} else {
			invalid++
			r.Class("invalid_tree")
		}
		r.NonTrivial(recipe.JSON(c.File))
	}
	hx.Rapid(r, t, hx.Check[Case]{Name: "matrix_on_plausible_program", Fn: check}, r.N(150, 1500), func(rt *rapid.T) Case {
		f := gen.FileSettings(rt)
		n := rapid.IntRange(1, 3).Draw(rt, "ndecls")
		for i := 0; i < n; i++ {
			f.Body = append(f.Body, gen.Decl(rt, 2))
		}
		if rapid.IntRange(0, 2).Draw(rt, "noformat") == 0 {
			f.Ops = append(f.Ops, recipe.FileOp{Op: "NoFormat"})
			r.Class("noformat_file")
		}
		bigOneIn := 14
		if r.Thorough() {
			bigOneIn = 74 // (ten times the cases: the same number of big ones)
		}
		if rapid.IntRange(0, bigOneIn).Draw(rt, "big") == 7 {
			// a big first declaration (tens to hundreds of KiB of output): what is written may be written in pieces
			var stmts []*recipe.Node
			for k := rapid.SampledFrom([]int{900, 1700, 2100, 3300}).Draw(rt, "bigstmts"); k > 0; k-- {
				stmts = append(stmts, recipe.Id("value").C("Op", "=").C("Id", "compute").C("Call", recipe.Lit(k), recipe.Lit("argument")))
			}
			// (a declaration that is valid at file level and inside a block, so every entry point renders it)
			f.Body = append([]*recipe.Node{recipe.S().C("Var").C("Id", "big").C("Op", "=").C("Func").C("Params").C("Block", stmts)}, f.Body...)
			r.Class("big_output")
		}
		if rapid.IntRange(0, 2).Draw(rt, "trailer") == 0 {
			// generated files often end with a comment block
			f.Body = append(f.Body, recipe.S().C("Comment", "end of file\n(generated)"))
		}
		c := Case{File: f}
		note(c)
		return c
	})
	hx.Rapid(r, t, hx.Check[Case]{Name: "matrix_on_random_tree", Fn: check}, r.N(150, 1500), func(rt *rapid.T) Case {
		f := gen.FileSettings(rt)
		n := rapid.IntRange(1, 2).Draw(rt, "nbody")
		for i := 0; i < n; i++ {
			f.Body = append(f.Body, gen.Tree(rt, 3, 4))
		}
		if rapid.IntRange(0, 3).Draw(rt, "noformat") == 0 {
			// an unformatted File renders whatever the tree says: every tree is "valid" then
			f.Ops = append(f.Ops, recipe.FileOp{Op: "NoFormat"})
			r.Class("noformat_file")
		}
		c := Case{File: f}
		if err := hx.Safe(func() error { note(c); return nil }); err != nil {
			r.Class("tree_panics_excluded")
			return Case{File: &recipe.File{Ctor: "NewFile", Args: []recipe.Text{"p"}, Body: []*recipe.Node{recipe.Id("x").C("Op", "}")}}}
		}
		return c
	})
	matrixMu.Lock()
	r.Extra("fault_matrix_cell_counts", matrix)
	r.Extra("error_wrapping_observed", wraps)
	matrixMu.Unlock()
	if !r.Replaying() && (valid == 0 || invalid == 0) {
		r.Inconclusive("generator produced %d valid and %d invalid trees", valid, invalid)
	}
}
